#!/bin/sh
# Offline setup: compile the framework once (warms the Go build cache) and
# run the reference codec's self tests. Nothing is fetched.
set -e
cd /verif
export GOFLAGS=-mod=mod GOPROXY=off GOSUMDB=off GOTOOLCHAIN=local
go build -o /dev/null ./cmd/verif
[ -f /repo/lzma/export_verif.go ] && go build -tags verif -o /dev/null ./cmd/verif
go vet ./internal/ref/ ./internal/tlc/ ./internal/hx/
command -v tlc >/dev/null || { echo "tlc missing" >&2; exit 1; }
echo "setup ok"
