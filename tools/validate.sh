#!/bin/sh
# Validates MANIFEST.json and every evidence file against the schemas.
python3-vt - <<'PY'
import json, jsonschema, glob, sys
ok = True
try:
    jsonschema.validate(json.load(open('/verif/MANIFEST.json')), json.load(open('/root/.vp/MANIFEST.schema.json')))
    print('MANIFEST valid')
except Exception as e:
    ok = False; print('MANIFEST INVALID', e)
s = json.load(open('/root/.vp/EVIDENCE.schema.json'))
for f in sorted(glob.glob('/verif/evidence/*.json')):
    try:
        jsonschema.validate(json.load(open(f)), s); print(f, 'valid')
    except Exception as e:
        ok = False; print(f, 'INVALID', str(e)[:300])
sys.exit(0 if ok else 1)
PY
