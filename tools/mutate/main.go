// Command mutate is a mutation-analysis driver for the verification framework.
//
// It enumerates small syntactic changes of the non-test sources of a checkout of
// ulikunitz/xz (relational/boundary operator swaps, off-by-one literals, dropped error
// returns, deleted guard statements, deleted assignments/calls, negated conditions),
// keeps those that still compile and pass the pinned test suite, and runs the quick
// checks of the properties anchored in the changed file against each survivor
// (VERIF_REPO: a private worktree per worker; /repo is never touched).
//
//	mutate list  [-repo /repo]                                  prints the candidate count per file
//	mutate run   [-repo /repo] [-out dir] [-n N] [-seed S] [-par P] [-files re] [-kinds re]
//
// Results are appended to <out>/results.jsonl, one object per mutant:
// status = stillborn | suite-killed | detected | survived | inconclusive.
// A survivor is either an equivalent/benign change (the properties still hold) or a gap
// in the checks; survivors are reviewed by hand and the outcome is recorded in
// DESIGN.md (section 10.8).
package main

import (
	"bytes"
	"context"
	"encoding/json"
	"flag"
	"fmt"
	"go/ast"
	"go/parser"
	"go/token"
	"math/rand"
	"os"
	"os/exec"
	"path/filepath"
	"regexp"
	"sort"
	"strconv"
	"strings"
	"sync"
	"time"
)

type mutant struct {
	ID    int    `json:"id"`
	File  string `json:"file"`
	Line  int    `json:"line"`
	Kind  string `json:"kind"`
	Start int    `json:"start"`
	End   int    `json:"end"`
	Orig  string `json:"orig"`
	New   string `json:"new"`
}

type result struct {
	mutant
	Status string         `json:"status"`
	By     string         `json:"by,omitempty"`
	RCs    map[string]int `json:"rcs,omitempty"`
	Secs   float64        `json:"secs"`
	Note   string         `json:"note,omitempty"`
}

var skipFile = regexp.MustCompile(`(_test\.go$|^internal/randtxt/|^cmd/xb/|^example\.go$|doc\.go$|licenses\.go$|version\.go$|_windows\.go$|_bsd\.go$|^internal/xlog/)`)

// checks per file: the properties whose anchors name the file (properties.jsonl), plus
// defaults for files no anchor names.
func loadAnchors() map[string][]string {
	m := map[string][]string{}
	b, err := os.ReadFile("/verif/properties.jsonl")
	if err != nil {
		return m
	}
	for _, ln := range bytes.Split(b, []byte("\n")) {
		if len(bytes.TrimSpace(ln)) == 0 {
			continue
		}
		var p struct {
			ID      string `json:"id"`
			Anchors struct {
				Files []string `json:"files"`
			} `json:"anchors"`
		}
		if json.Unmarshal(ln, &p) == nil {
			for _, f := range p.Anchors.Files {
				m[f] = append(m[f], p.ID)
			}
		}
	}
	return m
}

func checksFor(anch map[string][]string, file string) []string {
	if c, ok := anch[file]; ok {
		// the anchors name the properties a file matters most for; codec and container files
		// are additionally judged by the writer/reader checks that exercise them broadly
		extra := []string{}
		if strings.HasPrefix(file, "lzma/") || !strings.Contains(file, "/") {
			extra = []string{"C02", "C03", "C08"}
		}
		out := append([]string{}, c...)
		for _, e := range extra {
			dup := false
			for _, x := range out {
				dup = dup || x == e
			}
			if !dup {
				out = append(out, e)
			}
		}
		return out
	}
	switch {
	case strings.HasPrefix(file, "cmd/gxz/"):
		return []string{"C15", "C10"}
	case strings.HasPrefix(file, "internal/gflag/"):
		return []string{"C15"}
	case strings.HasPrefix(file, "internal/hash/"):
		return []string{"C17", "C01", "C14"}
	case strings.HasPrefix(file, "lzma/"):
		return []string{"C02", "C03", "C07", "C01", "C06"}
	}
	return []string{"C02", "C03", "C01"}
}

// cheap checks first: the run stops at the first detection.
var cost = map[string]int{"C05": 3, "C17": 3, "C04": 5, "C09": 5, "C13": 6, "C18": 7, "C06": 8, "C10": 11, "C12": 11, "C08": 12, "C02": 14, "C03": 14, "C15": 14, "C16": 14, "C07": 16, "C11": 16, "C14": 17, "C01": 21}

func enumerate(repo string) []mutant {
	var out []mutant
	filepath.Walk(repo, func(p string, fi os.FileInfo, err error) error {
		if err != nil {
			return nil
		}
		rel, _ := filepath.Rel(repo, p)
		if fi.IsDir() {
			if strings.HasPrefix(fi.Name(), ".") && rel != "." || rel == "testdata" {
				return filepath.SkipDir
			}
			return nil
		}
		if !strings.HasSuffix(rel, ".go") || skipFile.MatchString(rel) {
			return nil
		}
		src, err := os.ReadFile(p)
		if err != nil {
			return nil
		}
		fset := token.NewFileSet()
		f, err := parser.ParseFile(fset, p, src, 0)
		if err != nil {
			return nil
		}
		off := func(pos token.Pos) int { return fset.Position(pos).Offset }
		add := func(kind string, s, e int, nw string) {
			out = append(out, mutant{File: rel, Line: 1 + bytes.Count(src[:s], []byte("\n")), Kind: kind, Start: s, End: e, Orig: string(src[s:e]), New: nw})
		}
		swap := map[token.Token]string{token.LSS: "<=", token.LEQ: "<", token.GTR: ">=", token.GEQ: ">", token.EQL: "!=", token.NEQ: "==",
			token.LAND: "||", token.LOR: "&&", token.ADD: "-", token.SUB: "+"}
		inFunc := 0
		var walk func(n ast.Node) bool
		walk = func(n ast.Node) bool {
			switch x := n.(type) {
			case *ast.FuncDecl:
				if x.Body != nil {
					inFunc++
					ast.Inspect(x.Body, walk)
					inFunc--
				}
				return false
			case *ast.BinaryExpr:
				if nw, ok := swap[x.Op]; ok {
					s := off(x.OpPos)
					add("op", s, s+len(x.Op.String()), nw)
				}
			case *ast.BasicLit:
				if x.Kind == token.INT && inFunc > 0 {
					if v, err := strconv.ParseInt(x.Value, 0, 64); err == nil && v < 1<<40 {
						add("lit+1", off(x.Pos()), off(x.End()), fmt.Sprintf("%d", v+1))
						if v > 0 {
							add("lit-1", off(x.Pos()), off(x.End()), fmt.Sprintf("%d", v-1))
						}
					}
				}
			case *ast.ReturnStmt:
				if k := len(x.Results); k > 0 {
					if id, ok := x.Results[k-1].(*ast.Ident); ok && (id.Name == "err" || strings.HasPrefix(id.Name, "err")) {
						add("ret-nil", off(id.Pos()), off(id.End()), "nil")
					}
				}
			case *ast.IfStmt:
				if x.Else == nil && x.Init == nil && len(x.Body.List) == 1 {
					switch x.Body.List[0].(type) {
					case *ast.ReturnStmt, *ast.BranchStmt:
						add("del-guard", off(x.Pos()), off(x.End()), "")
					}
				}
				if x.Init == nil {
					add("neg-cond", off(x.Cond.Pos()), off(x.Cond.End()), "!("+string(src[off(x.Cond.Pos()):off(x.Cond.End())])+")")
				}
			case *ast.BlockStmt:
				for _, st := range x.List {
					switch y := st.(type) {
					case *ast.ExprStmt:
						if _, ok := y.X.(*ast.CallExpr); ok {
							add("del-call", off(y.Pos()), off(y.End()), "")
						}
					case *ast.AssignStmt:
						if y.Tok != token.DEFINE {
							add("del-assign", off(y.Pos()), off(y.End()), "")
						}
					case *ast.IncDecStmt:
						add("del-incdec", off(y.Pos()), off(y.End()), "")
					}
				}
			}
			return true
		}
		ast.Inspect(f, walk)
		return nil
	})
	sort.SliceStable(out, func(i, j int) bool {
		if out[i].File != out[j].File {
			return out[i].File < out[j].File
		}
		return out[i].Start < out[j].Start
	})
	for i := range out {
		out[i].ID = i
	}
	return out
}

func goEnv() []string {
	return append(os.Environ(), "GOFLAGS=-mod=mod", "GOPROXY=off", "GOSUMDB=off", "GOTOOLCHAIN=local")
}

func run(dir string, to time.Duration, env []string, name string, args ...string) (int, string) {
	ctx, cancel := context.WithTimeout(context.Background(), to)
	defer cancel()
	cmd := exec.CommandContext(ctx, name, args...)
	cmd.Dir = dir
	cmd.Env = env
	cmd.WaitDelay = 5 * time.Second
	out, err := cmd.CombinedOutput()
	if ctx.Err() != nil {
		return 124, string(out)
	}
	if err != nil {
		if ee, ok := err.(*exec.ExitError); ok {
			return ee.ExitCode(), string(out)
		}
		return 125, string(out) + err.Error()
	}
	return 0, string(out)
}

func main() {
	if len(os.Args) < 2 {
		fmt.Fprintln(os.Stderr, "usage: mutate list|run ...")
		os.Exit(2)
	}
	fs := flag.NewFlagSet("mutate", flag.ExitOnError)
	repo := fs.String("repo", "/repo", "checkout to mutate (HEAD of this repository is used for the worktrees)")
	outDir := fs.String("out", "/tmp/mut", "scratch and result directory")
	n := fs.Int("n", 100, "number of mutants to try")
	seed := fs.Int64("seed", 1, "sampling seed")
	par := fs.Int("par", 4, "parallel workers")
	filesRe := fs.String("files", "", "only files matching this regexp")
	kindsRe := fs.String("kinds", "", "only mutation kinds matching this regexp")
	only := fs.String("checks", "", "run these checks (space separated) instead of the anchored ones")
	fs.Parse(os.Args[2:])
	all := enumerate(*repo)
	if os.Args[1] == "list" {
		cnt := map[string]int{}
		for _, m := range all {
			cnt[m.File]++
		}
		var fl []string
		for f := range cnt {
			fl = append(fl, f)
		}
		sort.Strings(fl)
		for _, f := range fl {
			fmt.Printf("%5d %s\n", cnt[f], f)
		}
		fmt.Println(len(all), "candidates")
		return
	}
	anch := loadAnchors()
	var fre, kre *regexp.Regexp
	if *filesRe != "" {
		fre = regexp.MustCompile(*filesRe)
	}
	if *kindsRe != "" {
		kre = regexp.MustCompile(*kindsRe)
	}
	// already tried mutants are skipped (the result file is append-only)
	os.MkdirAll(*outDir, 0o755)
	resPath := filepath.Join(*outDir, "results.jsonl")
	done := map[string]bool{}
	if b, err := os.ReadFile(resPath); err == nil {
		for _, ln := range bytes.Split(b, []byte("\n")) {
			var r result
			if json.Unmarshal(ln, &r) == nil && r.File != "" {
				done[fmt.Sprintf("%s:%d:%s:%s", r.File, r.Start, r.Kind, r.New)] = true
			}
		}
	}
	// stratified sample: shuffle within each file, then round-robin over files
	rng := rand.New(rand.NewSource(*seed))
	byFile := map[string][]mutant{}
	for _, m := range all {
		if fre != nil && !fre.MatchString(m.File) || kre != nil && !kre.MatchString(m.Kind) {
			continue
		}
		if done[fmt.Sprintf("%s:%d:%s:%s", m.File, m.Start, m.Kind, m.New)] {
			continue
		}
		byFile[m.File] = append(byFile[m.File], m)
	}
	var fl []string
	for f, l := range byFile {
		rng.Shuffle(len(l), func(i, j int) { l[i], l[j] = l[j], l[i] })
		fl = append(fl, f)
	}
	sort.Strings(fl)
	var sample []mutant
	for round := 0; len(sample) < *n; round++ {
		any := false
		for _, f := range fl {
			if round < len(byFile[f]) && len(sample) < *n {
				sample = append(sample, byFile[f][round])
				any = true
			}
		}
		if !any {
			break
		}
	}
	fmt.Printf("%d candidates, %d sampled\n", len(all), len(sample))
	jobs := make(chan mutant)
	var mu sync.Mutex
	resF, err := os.OpenFile(resPath, os.O_APPEND|os.O_CREATE|os.O_WRONLY, 0o644)
	if err != nil {
		fmt.Fprintln(os.Stderr, err)
		os.Exit(2)
	}
	var wg sync.WaitGroup
	for w := 0; w < *par; w++ {
		wg.Add(1)
		go func(w int) {
			defer wg.Done()
			wt := filepath.Join(*outDir, fmt.Sprintf("w%d", w))
			vo := filepath.Join(*outDir, fmt.Sprintf("o%d", w))
			exec.Command("git", "-C", *repo, "worktree", "remove", "--force", wt).Run()
			os.RemoveAll(wt)
			if out, err := exec.Command("git", "-C", *repo, "worktree", "add", "-q", "--detach", wt, "HEAD").CombinedOutput(); err != nil {
				fmt.Fprintf(os.Stderr, "worktree: %v %s\n", err, out)
				return
			}
			defer func() {
				exec.Command("git", "-C", *repo, "worktree", "remove", "--force", wt).Run()
				os.RemoveAll(vo)
			}()
			for m := range jobs {
				t0 := time.Now()
				r := result{mutant: m, RCs: map[string]int{}}
				path := filepath.Join(wt, m.File)
				src, _ := os.ReadFile(path)
				if m.End > len(src) || string(src[m.Start:m.End]) != m.Orig {
					r.Status, r.Note = "inconclusive", "source changed under the mutant"
				} else {
					mod := append(append(append([]byte{}, src[:m.Start]...), m.New...), src[m.End:]...)
					os.WriteFile(path, mod, 0o644)
					if rc, _ := run(wt, 2*time.Minute, goEnv(), "go", "build", "./..."); rc != 0 {
						r.Status = "stillborn"
					} else if rc, _ := run(wt, 4*time.Minute, goEnv(), "go", "test", "-vet=off", "-count=1", "./..."); rc != 0 {
						r.Status = "suite-killed"
					} else {
						cs := checksFor(anch, m.File)
						if *only != "" {
							cs = strings.Fields(*only)
						}
						sort.SliceStable(cs, func(i, j int) bool { return cost[cs[i]] < cost[cs[j]] })
						r.Status = "survived"
						for _, id := range cs {
							env := append(os.Environ(), "VERIF_REPO="+wt, "VERIF_OUT="+vo)
							rc, out := run("/verif", 15*time.Minute, env, "/verif/verif", "check", id, "--tier", "quick")
							r.RCs[id] = rc
							if rc == 1 || (rc != 0 && strings.Contains(out, "VIOLATION property=")) {
								r.Status, r.By = "detected", id
								if i := strings.Index(out, "\n  "); i >= 0 {
									r.Note = strings.TrimSpace(out[i:min(len(out), i+300)])
								}
								break
							}
							if rc != 0 {
								r.Status = "inconclusive"
								tail := out
								if len(tail) > 400 {
									tail = tail[len(tail)-400:]
								}
								r.Note = id + ": " + tail
							}
						}
					}
					os.WriteFile(path, src, 0o644)
				}
				r.Secs = time.Since(t0).Seconds()
				b, _ := json.Marshal(r)
				mu.Lock()
				resF.Write(append(b, '\n'))
				fmt.Printf("%-13s %s:%d %s %q -> %q %s %.0fs\n", r.Status, m.File, m.Line, m.Kind, trunc(m.Orig), trunc(m.New), r.By, r.Secs)
				mu.Unlock()
			}
		}(w)
	}
	for _, m := range sample {
		jobs <- m
	}
	close(jobs)
	wg.Wait()
}

func trunc(s string) string {
	s = strings.Join(strings.Fields(s), " ")
	if len(s) > 50 {
		return s[:50] + "..."
	}
	return s
}
