#!/bin/sh
# Diagnostic, not a registered check: which statements of /repo do the checks
# execute at all?  Builds the driver (and, through VERIF_GOFLAGS_EXTRA, gxz)
# with coverage instrumentation of github.com/ulikunitz/xz/..., runs the given
# tier of every check with evidence redirected to a scratch directory, and
# prints per-function coverage plus the list of never-executed blocks.
#   tools/repocover.sh [quick|thorough] [outdir]
set -e
TIER=${1:-quick}
OUT=${2:-/tmp/repocover}
export GOFLAGS=-mod=mod GOPROXY=off GOSUMDB=off GOTOOLCHAIN=local
rm -rf "$OUT"; mkdir -p "$OUT/bin" "$OUT/data" "$OUT/out"
cd /verif
# the main package must be instrumented too, or no counters are written at exit
go build -cover -coverpkg=github.com/ulikunitz/xz/...,verif/cmd/verif -o "$OUT/bin/verif" ./cmd/verif
# counters are plain shared memory: 16 workers on the same hot loops crawl (cache-line ping-pong)
export GOMAXPROCS=${COVPROCS:-4}
export GOCOVERDIR="$OUT/data" VERIF_OUT="$OUT/out" VERIF_GOFLAGS_EXTRA="-cover -coverpkg=github.com/ulikunitz/xz/..."
for id in C01 C02 C03 C04 C05 C06 C07 C08 C09 C10 C11 C12 C13 C14 C15 C16 C17 C18; do
    "$OUT/bin/verif" check $id --tier $TIER >"$OUT/$id.log" 2>&1 || echo "$id rc=$?"
done
go tool covdata textfmt -i="$OUT/data" -o "$OUT/cover.txt"
( cd /repo && go tool cover -func="$OUT/cover.txt" > "$OUT/func.txt" )
tail -1 "$OUT/func.txt"
# never-executed blocks, grouped by file
awk 'NR>1 {k=$1; if ($NF>0) hit[k]=1; else if (!(k in hit)) hit[k]=0} END {for (k in hit) if (!hit[k]) print k}' "$OUT/cover.txt" | grep -v '^verif/' | sort > "$OUT/uncovered.txt"
wc -l "$OUT/uncovered.txt"
