#!/bin/sh
# usage: tools/trypatch.sh <patch.diff> <ID> [<ID>...]
# Applies a patch to /repo's working tree, runs the quick checks, restores /repo.
# Prints one line per check: <ID> rc=<n> <first VIOLATION/KNOWN line>
P=$1; shift
git -C /repo apply "$P" || { echo "patch does not apply"; exit 3; }
trap 'git -C /repo checkout -- . ' EXIT INT TERM
(cd /repo && go build ./... ) || { echo "does not build"; exit 3; }
for id in "$@"; do
  out=$(cd /verif && timeout 1500 ./verif check "$id" --tier "${TIER:-quick}" 2>/tmp/trypatch.$id.err)
  rc=$?
  echo "$id rc=$rc $(echo "$out" | grep -m1 'VIOLATION\|KNOWN')"
  [ $rc -ne 0 ] && grep -m2 '^  ' /tmp/trypatch.$id.err | cut -c1-300
done
