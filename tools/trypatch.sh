#!/bin/sh
# usage: tools/trypatch.sh <patch.diff> <ID> [<ID>...]
# Applies a patch to a scratch worktree of /repo's HEAD, runs the quick checks against it
# (VERIF_REPO), removes the worktree. /repo and /verif/evidence are not touched.
# Prints one line per check: <ID> rc=<n> <first VIOLATION/KNOWN line>
P=$(readlink -f "$1"); shift
export GOFLAGS=-mod=mod GOPROXY=off GOSUMDB=off GOTOOLCHAIN=local
WT=$(mktemp -d /tmp/trywt-XXXX)
git -C /repo worktree add -q --detach "$WT/w" HEAD || exit 3
trap 'git -C /repo worktree remove --force "$WT/w" >/dev/null 2>&1; rm -rf "$WT"' EXIT INT TERM
git -C "$WT/w" apply "$P" || { echo "patch does not apply"; exit 3; }
(cd "$WT/w" && go build ./... ) || { echo "does not build"; exit 3; }
mkdir -p "$WT/out"
for id in "$@"; do
  out=$(cd /verif && VERIF_REPO="$WT/w" VERIF_OUT="$WT/out" timeout 3000 ./verif check "$id" --tier "${TIER:-quick}" 2>"$WT/err.$id")
  rc=$?
  echo "$id rc=$rc $(echo "$out" | grep -m1 'VIOLATION\|KNOWN')"
  [ $rc -ne 0 ] && grep -m2 '^  ' "$WT/err.$id" | cut -c1-300
done
