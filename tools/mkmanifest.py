#!/usr/bin/env python3
"""Writes /verif/MANIFEST.json from the table below (single source of truth)."""
import json, sys
ALL = ["C%02d" % i for i in range(1, 19)]
CHECKS = {
 "C18": dict(cat="model_checking", design="§C18",
   text="TLC exhaustively checks that the binary search of EncodeDictCap (transcribed action by action in spec/DictCap.tla) returns the declaratively defined least code for every capacity (2 KiB units; quick: 41 boundaries ±1, thorough: all 2^21 units x exact/inexact); the size table TLC prints is then compared with the real lzma.EncodeDictCap for all 2^32-1 capacities and lzma.DecodeDictCap for all 256 bytes, and with the dictionary byte ref parses out of emitted block headers; the observations are re-validated by TLC (TraceDictCap).",
   note="Trusted: TLC, the unit abstraction argued in DictCap.tla's header, ref's block-header parser. Exhaustive on the real code in both tiers.",
   technique="TLA+ spec + TLC exhaustive design check; spec-generated table replayed exhaustively on the real functions; observations validated by TLC"),
 "C08": dict(cat="model_checking", design="§C08",
   text="TLC generates every call history over {Write(payload class), Flush, Close} up to the length bound (module CallHist, with the contract's prediction per call) and checks the Writer2 life-cycle model (Lzma2Writer: NeverAhead, FlushNoop, ClosedComplete, liveness of Flush/Close) exhaustively; each history is replayed on the real lzma.Writer2 for a rotating set of boundary configurations; after every Flush and after Close the sink is decoded by the independent reference decoder and by lzma.Reader2 and compared with the bytes written so far; the recorded calls with the chunk events parsed from the sink deltas are validated by TLC against the life-cycle actions (TraceLzma2Writer).",
   note="Trusted: TLC, internal/ref (independent LZMA2 decoder), attribution of chunks to calls by sink offsets. Histories are exhaustive to length 5 (quick) / 6 (thorough) over 6-8 tokens; payload contents are seeded samples.",
   technique="TLA+ life-cycle spec; TLC-generated call histories replayed on the real writer; recorded traces validated by TLC; reference decoder as content oracle"),
 "C16": dict(cat="model_checking", design="§C16",
   text="The format's chunk rules (needDict/needProps) and the implementation-shaped S/L/U/R/T automaton are both in spec/Lzma2.tla; TLC proves them equivalent on all sequences (Equiv, StateMap) and generates every control-byte sequence up to the bound plus all 256 control bytes after every prefix of length <= 2, each with the predicted verdict (accept / reject at chunk i). Every sequence is realised as a concrete stream (coder state continued across chunks, rotating properties) and fed to the real lzma.Reader2 with two dictionary capacities: it must deliver exactly the legal prefix's bytes and fail at the offending chunk, or end cleanly iff the sequence is legal and ended. Writer side: chunk sequences and sizes parsed from real Writer2 output are validated by TLC (TraceLzma2Writer) including the 64 KiB / 2 MiB limits.",
   note="Trusted: TLC, internal/ref serialiser+decoder (each realised sequence must round-trip through ref with the spec's verdict before the library is judged; disagreement is exit 2). Sequence space exhaustive to length 5 (quick) / 7 (thorough) over 9 representative control bytes.",
   technique="TLA+ format automaton vs code-shaped automaton (TLC equivalence); exhaustive TLC-generated sequences replayed on the real reader; writer traces validated by TLC"),
 "C01": dict(cat="model_checking", design="§C01",
   text="TLC generates every Write/Close call history up to the length bound (CallHist; zero-length writes, double Close, Write after Close, with the contract's predicted result per call); each is replayed on the real xz.Writer for rotating boundary configurations together with an exhaustive small-scope family of inputs (all strings <= 6/8 over {00,01,ff}, zero-framed words); call results are judged against the prediction, the sink is read back with xz.Reader and must equal the input followed by a clean end; a sample of the emitted layouts is additionally judged by TLC (XzObs).",
   note="Trusted: TLC, the seeded payload generators. Exhaustive in call histories (to the bound) and in the small-scope strings; configurations and large payloads are sampled from boundary sets.",
   technique="TLA+ call-contract generator (TLC exhaustive histories) replayed on the real writer; round trip through the real reader; layouts checked by TLC"),
 "C02": dict(cat="model_checking", design="§C02",
   text="Every stream the writer emits over the C01 case space (different seed) is parsed and decoded bit-exactly by the independent reference implementation; the resulting layout record (every header/footer/index field, measured sizes, paddings, CRC and check verdicts, largest match distance, chunk sizes) is judged by TLC against XzFormat.WriterStreamOk: acceptor validity plus the writer obligations (block count and exact block sizes, dictionary code = least code >= DictCap, check id). xz-utils decodes a sample of the streams when installed.",
   note="Trusted: TLC and spec/XzFormat.tla as a reading of xz-file-format-1.0.4; internal/ref (independent parser/decoder, itself cross-checked against xz-utils output and the frozen corpus). xz-utils is an optional second judge.",
   technique="reference parser as abstraction function; layouts validated by TLC against the TLA+ format acceptor and writer obligations; liblzma cross-check"),
 "C03": dict(cat="model_checking", design="§C03",
   text="Valid streams come from three sources: the frozen xz-utils corpus, fresh xz-utils encodings (when installed) and TLC: LzmaGen (the operation-layer spec in generation mode, simulated with seeded parameters) emits behaviours mixing literal/match/rep0-3/short-rep operations with chunk cuts, state resets, new properties, dictionary resets and raw chunks; each is serialised into a concrete LZMA2 payload and wrapped in container layouts (0-3 blocks, optional size fields, all checks, extra header padding, larger dictionary codes). Every generated stream is first validated at operation level by TLC (TraceLzma: each operation enabled, inside the window, reproducing the plaintext) and by xz-utils; then xz.Reader must return exactly the reference bytes for ReaderConfig.DictCap in {4096, declared, 2x declared}.",
   note="Trusted: TLC, internal/ref serialiser/decoder (agreement of ref, TLC trace validation and xz-utils is required before the library is judged; disagreement is exit 2).",
   technique="TLA+ operation-layer spec in generation mode (TLC -simulate) realised as concrete streams; generator traces validated by TLC; real reader compared with reference decoder"),
 "C04": dict(cat="model_checking", design="§C04",
   text="XzDamage.tla applies ~45 named single-field edits to abstract stream layouts and TLC classifies each with the XzFormat acceptor as MustReject / Benign / Weak (and establishes that exactly four edits are benign). Each classified edit is applied to every block of every concrete base stream (library-, reference- and xz-utils-written; CRC32/CRC64/SHA-256/none; single and multi-block), the enclosing CRC-32 re-sealed, and read with xz.Reader: MustReject must fail, everything else must fail or deliver identical content. Byte level: every single-bit flip at every position, substitutions, one-byte insertions/deletions at every offset and bursts <= 32 bits of every base stream with a check; oracle: error, or clean end with identical content.",
   note="Trusted: TLC/XzFormat acceptor; internal/ref serialiser (its own verdict on each edited file must agree with the classification, else exit 2). Exhaustive over edits x blocks x bases and over bit positions of the small bases; large bases sampled (thorough).",
   technique="TLA+ acceptor classifies field edits (TLC); classified edits and exhaustive byte-level damage replayed on the real reader"),
 "C05": dict(cat="model_checking", design="§C05",
   text="Every proper prefix of every base stream (.xz single/multi-block, all checks, library/reference/xz-utils written; multi-stream files with paddings; raw LZMA2 with flushes and raw chunks; .lzma in the three termination modes) is read with the real readers: the outcome must be an error unless the region grammar XzReader.tla says the prefix is a complete file, and delivered bytes must be a prefix of the content. Each observed (region prefix, outcome) pair is validated by TLC against the grammar.",
   note="Trusted: TLC/XzReader grammar; region maps from internal/ref. Cuts exhaustive per stream (thorough adds large streams with sampled payload cuts).",
   technique="exhaustive cut enumeration on the real readers; observed outcomes validated by TLC against a TLA+ region grammar"),
 "C12": dict(cat="model_checking", design="§C12",
   text="XzMulti.tla (consistent with XzFormat.ValidFile, checked as an invariant) generates every file shape within the bounds: leading padding {0,4}, 1-2 catalogue streams with all paddings 0..16, longer lists with boundary paddings, trailing garbage, each with the predicted outcome for normal mode (ok, number of streams deliverable before the fault) and for SingleStream. Every shape is realised from a catalogue of five library/xz-utils streams (empty one included) and read with xz.Reader in both modes; bytes and error class are compared with the prediction.",
   note="Trusted: TLC; internal/ref must give the same verdict as the specification on every realised file (else exit 2).",
   technique="TLA+ multi-stream model; TLC-generated file shapes with predictions replayed on the real reader"),
 "C06": dict(cat="model_checking", design="§C06",
   text="LzmaAlone.tla models the classic-LZMA writer contract (effective configuration, bytes accepted per Write, nospace on surplus, Close failing if fewer than Size, header size field = Size or all-ones iff no explicit size, marker mode). TLC checks NeverMoreThanSize/HeaderTruthful exhaustively and generates every configuration x history within the bounds with the predicted result of every call; each is replayed on lzma.Writer (rotating dictionary/look-ahead/matcher), the 13 header bytes and the sink are judged (reference decoder, lzma.Reader round trip). A second matrix covers all 225 property codes x both matchers x two dictionaries x data classes x four termination configurations with random write partitions. All recorded runs are validated by TLC (TraceLzmaAlone).",
   note="Trusted: TLC, internal/ref .lzma parser/decoder. Contract matrix exhaustive within {Size in -1,0,1,2,5,300} x write lengths x <=3/4 writes; data contents are seeded samples.",
   technique="TLA+ writer-contract spec; TLC-generated configurations and histories replayed on the real writer; recorded runs validated by TLC; reference decoder as content oracle"),
 "C07": dict(cat="model_checking", design="§C07",
   text="Writer side: library output for all 75 property triples with lc+lp<=4 x matchers x dictionary sizes x termination modes x data classes is decoded by the independent reference decoder (and xz-utils when installed) and the header is checked for truthfulness (properties, dictionary >= largest distance, size/marker mode). Reader side: LzmaGen (TLC -simulate, operations only) produces legal operation sequences that are serialised into .lzma streams for all 225 property codes, three termination modes, header dictionary sizes below 4096 / non powers of two, and zero-length content; every generated stream is validated by TLC at operation level (TraceLzma) and then read with lzma.Reader under three ReaderConfig.DictCap values; plus the xz-utils corpus and the repository's sample files.",
   note="Trusted: TLC, internal/ref encoder/decoder (its streams are validated by TLC trace checking; xz-utils agreement on library output when installed).",
   technique="TLA+ operation-layer spec in generation mode realised as .lzma streams; generator traces validated by TLC; real reader/writer compared with the reference codec"),
 "C09": dict(cat="fault_enumeration", design="§C09",
   text="Writer side: nine scenarios (xz / classic LZMA / LZMA2; multi-block, multi-chunk, Flush histories, redundant Close, Write after Close, empty writes) are first run fault-free to count the sink writes M; then every fault plan from the TLC-generated set (index k in 1..M exhaustively up to 96 and sampled beyond, fail once / forever, with / without partial write), with the sink offered both as plain io.Writer and as io.ByteWriter, is replayed with every public call under recover. Judged: no panic (also for calls after the failure), a failed sink write implies some call returned non-nil, all-nil implies the reference decoder finds a complete valid stream of the written data. Reader side: every base stream of the three formats x every source offset x {error alone, error together with the last bytes}: opening/reading must return the injected error (errors.Is), never a clean end. A sample of the recorded fault runs is validated by TLC against IoContract.FaultContract.",
   note="Trusted: fault-injecting sink/source of the harness; reference decoders; TLC for the trace sample. Exhaustive in the fault index per scenario up to 96 sink writes.",
   technique="exhaustive fault-index enumeration on real writers/readers; TLA+ fault contract validates recorded runs (TLC)"),
 "C13": dict(cat="model_checking", design="§C13",
   text="IoContract.ReadSchedule states what any reader over a valid stream may answer to Read(k); TLC checks it exhaustively against an arbitrary contract-abiding reader (IoGen) and generates all schedules of 5 (thorough 6) buffer lengths over {0,1,2,3,64}. Each schedule x five source fragmentations (whole, 1 byte, 1-3 bytes, half buffers, data together with EOF) is run on small structured streams of the three formats (multi-block xz, two xz streams with padding, LZMA2 with raw/reset chunks, .lzma in three termination modes), drained, and followed by four reads after EOF; large streams get seeded random schedules. Every (k,n,err) is judged by the contract (no EOF before all bytes were delivered - also for k=0 -, bytes in order, EOF stable) and a capped sample of recorded schedules is validated by TLC (TraceIo).",
   note="Trusted: TLC; plaintexts from the reference decoder. Schedules exhaustive to the stated length; the drain phase uses 64-byte reads.",
   technique="TLA+ read-contract; TLC-generated schedules replayed on the real readers under fragmenting sources; recorded schedules validated by TLC"),
}
NOT_YET = "check not built yet in this round (framework under construction; see DESIGN.md §8 build order)"
def main():
    checks = []
    for pid in ALL:
        if pid not in CHECKS: continue
        c = CHECKS[pid]
        checks.append({
            "property_id": pid,
            "quick_cmd": "./verif check %s --tier quick" % pid,
            "thorough_cmd": "./verif check %s --tier thorough" % pid,
            "evidence_file": "/verif/evidence/%s.json" % pid,
            "replay_cmd_template": "./verif check %s --replay {path}" % pid,
            "engine": "verif",
            "level_claimed": {"category": c["cat"], "text": c["text"], "design_ref": c["design"]},
            "level_note": c["note"],
            "technique": c["technique"],
        })
    m = {
        "version": 1,
        "setup_cmd": "./setup.sh",
        "hooks": {"guard": "verif", "enable": "none needed: no hooks are compiled into /repo; checks build /repo as is (go.mod replace => /repo)",
                  "baseline_off_cmd": "cd /repo && go test -vet=off -count=1 ./...", "source_commits": [], "add_only": True},
        "engines": [{"name": "verif", "path": "/verif/verif", "serves_properties": [c["property_id"] for c in checks],
                     "kind_free_text": "Go driver (cmd/verif) + TLC on spec/*.tla: exhaustive design checks, TLC-generated behaviours replayed on the real code, traces of the real code validated by TLC; independent reference codec internal/ref"}],
        "checks": checks,
        "not_applicable": [{"property_id": p, "reason": NOT_YET} for p in ALL if p not in CHECKS],
        "notes": "All verdicts come from behaviour of code built from /repo's working tree. Exit 0 held / 1 violation / 2 inconclusive. known_findings.json lists recorded genuine defects.",
    }
    json.dump(m, open("/verif/MANIFEST.json", "w"), indent=1)
    print("wrote MANIFEST.json with", len(checks), "checks")
main()
