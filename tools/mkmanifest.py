#!/usr/bin/env python3
"""Writes /verif/MANIFEST.json from the table below (single source of truth)."""
import json, sys
ALL = ["C%02d" % i for i in range(1, 19)]
CHECKS = {
 "C18": dict(cat="model_checking", design="§C18",
   text="TLC exhaustively checks that the binary search of EncodeDictCap (transcribed action by action in spec/DictCap.tla) returns the declaratively defined least code for every capacity (2 KiB units; quick: 41 boundaries ±1, thorough: all 2^21 units x exact/inexact); the size table TLC prints is then compared with the real lzma.EncodeDictCap for all 2^32-1 capacities and lzma.DecodeDictCap for all 256 bytes, and with the dictionary byte ref parses out of emitted block headers; the observations are re-validated by TLC (TraceDictCap).",
   note="Trusted: TLC, the unit abstraction argued in DictCap.tla's header, ref's block-header parser. Exhaustive on the real code in both tiers.",
   technique="TLA+ spec + TLC exhaustive design check; spec-generated table replayed exhaustively on the real functions; observations validated by TLC"),
}
NOT_YET = "check not built yet in this round (framework under construction; see DESIGN.md §8 build order)"
def main():
    checks = []
    for pid in ALL:
        if pid not in CHECKS: continue
        c = CHECKS[pid]
        checks.append({
            "property_id": pid,
            "quick_cmd": "./verif check %s --tier quick" % pid,
            "thorough_cmd": "./verif check %s --tier thorough" % pid,
            "evidence_file": "/verif/evidence/%s.json" % pid,
            "replay_cmd_template": "./verif check %s --replay {path}" % pid,
            "engine": "verif",
            "level_claimed": {"category": c["cat"], "text": c["text"], "design_ref": c["design"]},
            "level_note": c["note"],
            "technique": c["technique"],
        })
    m = {
        "version": 1,
        "setup_cmd": "./setup.sh",
        "hooks": {"guard": "verif", "enable": "none needed: no hooks are compiled into /repo; checks build /repo as is (go.mod replace => /repo)",
                  "baseline_off_cmd": "cd /repo && go test -vet=off -count=1 ./...", "source_commits": [], "add_only": True},
        "engines": [{"name": "verif", "path": "/verif/verif", "serves_properties": [c["property_id"] for c in checks],
                     "kind_free_text": "Go driver (cmd/verif) + TLC on spec/*.tla: exhaustive design checks, TLC-generated behaviours replayed on the real code, traces of the real code validated by TLC; independent reference codec internal/ref"}],
        "checks": checks,
        "not_applicable": [{"property_id": p, "reason": NOT_YET} for p in ALL if p not in CHECKS],
        "notes": "All verdicts come from behaviour of code built from /repo's working tree. Exit 0 held / 1 violation / 2 inconclusive. known_findings.json lists recorded genuine defects.",
    }
    json.dump(m, open("/verif/MANIFEST.json", "w"), indent=1)
    print("wrote MANIFEST.json with", len(checks), "checks")
main()
