#!/usr/bin/env python3
"""Writes /verif/MANIFEST.json from the table below (single source of truth)."""
import json, sys
ALL = ["C%02d" % i for i in range(1, 19)]
CHECKS = {
 "C18": dict(cat="model_checking", design="§C18",
   text="TLC exhaustively checks that the binary search of EncodeDictCap (transcribed action by action in spec/DictCap.tla) returns the declaratively defined least code for every capacity (2 KiB units; quick: 41 boundaries ±1, thorough: all 2^21 units x exact/inexact); the size table TLC prints is then compared with the real lzma.EncodeDictCap for all 2^32-1 capacities and lzma.DecodeDictCap for all 256 bytes, and with the dictionary byte ref parses out of emitted block headers; the observations are re-validated by TLC (TraceDictCap).",
   note="Trusted: TLC, the unit abstraction argued in DictCap.tla's header, ref's block-header parser. Exhaustive on the real code in both tiers.",
   technique="TLA+ spec + TLC exhaustive design check; spec-generated table replayed exhaustively on the real functions; observations validated by TLC"),
 "C08": dict(cat="model_checking", design="§C08",
   text="TLC generates every call history over {Write(payload class), Flush, Close} up to the length bound (module CallHist, with the contract's prediction per call) and checks the Writer2 life-cycle model (Lzma2Writer: NeverAhead, FlushNoop, ClosedComplete, liveness of Flush/Close) exhaustively; each history is replayed on the real lzma.Writer2 for a rotating set of boundary configurations; after every Flush and after Close the sink is decoded by the independent reference decoder and by lzma.Reader2 and compared with the bytes written so far; the recorded calls with the chunk events parsed from the sink deltas are validated by TLC against the life-cycle actions (TraceLzma2Writer).",
   note="Trusted: TLC, internal/ref (independent LZMA2 decoder), attribution of chunks to calls by sink offsets. Histories are exhaustive to length 5 (quick) / 6 (thorough) over 6-8 tokens; payload contents are seeded samples.",
   technique="TLA+ life-cycle spec; TLC-generated call histories replayed on the real writer; recorded traces validated by TLC; reference decoder as content oracle"),
 "C16": dict(cat="model_checking", design="§C16",
   text="The format's chunk rules (needDict/needProps) and the implementation-shaped S/L/U/R/T automaton are both in spec/Lzma2.tla; TLC proves them equivalent on all sequences (Equiv, StateMap) and generates every control-byte sequence up to the bound plus all 256 control bytes after every prefix of length <= 2, each with the predicted verdict (accept / reject at chunk i). Every sequence is realised as a concrete stream (coder state continued across chunks, rotating properties) and fed to the real lzma.Reader2 with two dictionary capacities: it must deliver exactly the legal prefix's bytes and fail at the offending chunk, or end cleanly iff the sequence is legal and ended. Writer side: chunk sequences and sizes parsed from real Writer2 output are validated by TLC (TraceLzma2Writer) including the 64 KiB / 2 MiB limits.",
   note="Trusted: TLC, internal/ref serialiser+decoder (each realised sequence must round-trip through ref with the spec's verdict before the library is judged; disagreement is exit 2). Sequence space exhaustive to length 5 (quick) / 7 (thorough) over 9 representative control bytes.",
   technique="TLA+ format automaton vs code-shaped automaton (TLC equivalence); exhaustive TLC-generated sequences replayed on the real reader; writer traces validated by TLC"),
}
NOT_YET = "check not built yet in this round (framework under construction; see DESIGN.md §8 build order)"
def main():
    checks = []
    for pid in ALL:
        if pid not in CHECKS: continue
        c = CHECKS[pid]
        checks.append({
            "property_id": pid,
            "quick_cmd": "./verif check %s --tier quick" % pid,
            "thorough_cmd": "./verif check %s --tier thorough" % pid,
            "evidence_file": "/verif/evidence/%s.json" % pid,
            "replay_cmd_template": "./verif check %s --replay {path}" % pid,
            "engine": "verif",
            "level_claimed": {"category": c["cat"], "text": c["text"], "design_ref": c["design"]},
            "level_note": c["note"],
            "technique": c["technique"],
        })
    m = {
        "version": 1,
        "setup_cmd": "./setup.sh",
        "hooks": {"guard": "verif", "enable": "none needed: no hooks are compiled into /repo; checks build /repo as is (go.mod replace => /repo)",
                  "baseline_off_cmd": "cd /repo && go test -vet=off -count=1 ./...", "source_commits": [], "add_only": True},
        "engines": [{"name": "verif", "path": "/verif/verif", "serves_properties": [c["property_id"] for c in checks],
                     "kind_free_text": "Go driver (cmd/verif) + TLC on spec/*.tla: exhaustive design checks, TLC-generated behaviours replayed on the real code, traces of the real code validated by TLC; independent reference codec internal/ref"}],
        "checks": checks,
        "not_applicable": [{"property_id": p, "reason": NOT_YET} for p in ALL if p not in CHECKS],
        "notes": "All verdicts come from behaviour of code built from /repo's working tree. Exit 0 held / 1 violation / 2 inconclusive. known_findings.json lists recorded genuine defects.",
    }
    json.dump(m, open("/verif/MANIFEST.json", "w"), indent=1)
    print("wrote MANIFEST.json with", len(checks), "checks")
main()
