#!/bin/bash
# usage: tools/benign.sh <patch.diff> [IDs...]
# Applies a property-preserving change to a scratch worktree of /repo and runs the quick tier of
# every check (or the given ones) against it: every check must exit 0. Prints one line per check
# that does not, and a summary line.
P=$(readlink -f "$1"); shift
IDS=${@:-C01 C02 C03 C04 C05 C06 C07 C08 C09 C10 C11 C12 C13 C14 C15 C16 C17 C18}
export GOFLAGS=-mod=mod GOPROXY=off GOSUMDB=off GOTOOLCHAIN=local
WT=$(mktemp -d /tmp/benwt-XXXX)
git -C /repo worktree add -q --detach "$WT/w" HEAD || exit 3
trap 'git -C /repo worktree remove --force "$WT/w" >/dev/null 2>&1; rm -rf "$WT"' EXIT INT TERM
git -C "$WT/w" apply "$P" || { echo "$(basename $P): patch does not apply"; exit 3; }
(cd "$WT/w" && go build ./... && go test -vet=off -count=1 ./... >/dev/null 2>&1) || { echo "$(basename $P): does not build or fails the pinned suite"; exit 3; }
mkdir -p "$WT/out"; bad=0
for id in $IDS; do
  out=$(cd /verif && VERIF_REPO="$WT/w" VERIF_OUT="$WT/out" timeout 3000 ./verif check "$id" --tier quick 2>"$WT/err.$id"); rc=$?
  if [ $rc -ne 0 ]; then bad=$((bad+1)); echo "$(basename $P) $id rc=$rc $(echo "$out" | grep -m1 'VIOLATION\|KNOWN')"; grep -m3 '^  \|INCONCLUSIVE' "$WT/err.$id" | cut -c1-400; fi
done
echo "$(basename $P): $bad check(s) raised an alarm"
