#!/bin/sh
# usage: tools/allquick.sh [seed...]   (default: 1)
# Runs the quick tier of all 18 checks against /repo for each seed, one after the other,
# and prints one line per run: id seed rc seconds.  Evidence files are (re)written by the runs.
cd /verif
for seed in ${@:-1}; do
  for id in C01 C02 C03 C04 C05 C06 C07 C08 C09 C10 C11 C12 C13 C14 C15 C16 C17 C18; do
    t0=$(date +%s)
    out=$(VERIF_SEED=$seed ./verif check $id --tier quick 2>&1); rc=$?
    echo "$id seed=$seed rc=$rc $(( $(date +%s) - t0 ))s $(echo "$out" | grep -c VIOLATION) violations"
    [ $rc -ne 0 ] && echo "$out" | grep -m3 "VIOLATION\|inconclusive\|^  " | cut -c1-300
  done
done
