#!/bin/sh
# usage: tools/allthorough.sh [seed]  - thorough tier of all 18 checks against /repo, one after
# the other; prints "| check | exit | wall time | summary line |" rows (the body of thorough.md).
cd /verif
seed=${1:-1}
for id in C05 C13 C09 C10 C16 C04 C18 C03 C07 C17 C01 C08 C06 C11 C02 C14 C15 C12; do
  t0=$(date +%s)
  out=$(VERIF_SEED=$seed ./verif check $id --tier thorough 2>&1); rc=$?
  echo "| $id | $rc | $(( $(date +%s) - t0 ))s | $(echo "$out" | grep "^\[$id\] " | tail -1) |"
  [ $rc -ne 0 ] && echo "$out" | grep -m5 "VIOLATION\|inconclusive\|^  " | cut -c1-400
done
