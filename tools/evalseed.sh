#!/bin/bash
# usage: tools/evalseed.sh <PROP> <A|B> [extra check ids...]
# Confirms a sub-agent's change in a scratch worktree of /repo (applies, builds, pinned
# suite green, demonstration fails with it and passes without), then runs the property's
# quick check (and any extra ones) against that worktree with the change applied
# (VERIF_REPO/VERIF_OUT: /repo itself and /verif/evidence are not touched, so several
# evaluations can run side by side), and files the change under seeded/.
# TIER=thorough evaluates with the thorough tier instead.
set -u
export GOFLAGS=-mod=mod GOPROXY=off GOSUMDB=off GOTOOLCHAIN=local
P=$1; V=$2; shift 2
OUT=${OUTROOT:-/tmp/wt}/$P-out
DIFF=$OUT/mut$V.diff
DEMO=$OUT/demo$V
[ -f "$DIFF" ] || { echo "no $DIFF"; exit 3; }
WT=$(mktemp -d /tmp/evalwt-XXXX)
git -C /repo worktree add -q --detach "$WT/w" HEAD || exit 3
cleanup() { git -C /repo worktree remove --force "$WT/w" >/dev/null 2>&1; rm -rf "$WT"; }
trap cleanup EXIT
cd "$WT/w"
res_clean=$( (cd "$WT/w" && timeout 900 bash "$DEMO/run.sh" >/dev/null 2>&1); echo $?)
git checkout -q -- . ; git clean -fdq
git apply "$DIFF" || { echo "APPLY-FAIL"; exit 3; }
build=$( (go build ./... >/dev/null 2>&1); echo $?)
tests=$( (go test -vet=off -count=1 ./... >/dev/null 2>&1); echo $?)
res_mut=$( (cd "$WT/w" && timeout 900 bash "$DEMO/run.sh" >/dev/null 2>&1); echo $?)
git checkout -q -- . ; git clean -fdq
echo "confirm: build=$build tests=$tests demo_clean=$res_clean demo_mut=$res_mut"
git apply "$DIFF"
cd /verif
det=""
mkdir -p "$WT/out"
for id in $P "$@"; do
  out=$(VERIF_REPO="$WT/w" VERIF_OUT="$WT/out" timeout 3000 ./verif check "$id" --tier "${TIER:-quick}" 2>"$WT/err.$id")
  rc=$?
  echo "  check: $id rc=$rc $(echo "$out" | grep -m1 'VIOLATION\|KNOWN')" | cut -c1-200
  [ $rc -ne 0 ] && grep -m2 '^  ' "$WT/err.$id" | cut -c1-300
  det="$det $id:$rc"
done
D=/verif/seeded/$P-$V
mkdir -p "$D"
cp "$DIFF" "$D/patch.diff"; rm -rf "$D/demo"; cp -r "$DEMO" "$D/demo"
python3 - "$P" "$V" "$build" "$tests" "$res_clean" "$res_mut" "$det" "${TIER:-quick}" <<'PY'
import json,sys,re,os
P,V,build,tests,clean,mut,det,tier=sys.argv[1:9]
np=os.path.join(os.environ.get('OUTROOT','/tmp/wt'),P+'-out','notes.md')
notes=open(np).read() if os.path.exists(np) else ''
mp='/verif/seeded/%s-%s/meta.json'%(P,V)
old=json.load(open(mp)) if os.path.exists(mp) else {}
runs=old.get("checks_run",{})
for k,v in (x.split(':') for x in det.split()):
    runs[k if tier=="quick" else k+"/"+tier]=("detected" if v=="1" else "missed" if v=="0" else "inconclusive(rc=%s)"%v)
meta={"property":P,"variant":V,"source":"independent sub-agent given only the property text and its own worktree",
 "confirmed":{"builds":build=="0","suite_green":tests=="0","demo_passes_without_change":clean=="0","demo_fails_with_change":mut!="0"},
 "checks_run":runs,
 "ran":"tools/evalseed.sh %s %s"%(P,V),"notes":notes[:6000]}
json.dump(meta,open(mp,'w'),indent=1)
print(json.dumps(meta["confirmed"]), meta["checks_run"])
PY
