#!/bin/bash
# usage: tools/evalseed.sh <PROP> <A|B> [extra check ids...]
# Confirms a sub-agent's mutation in a scratch worktree (applies, builds, suite green,
# demo fails with it and passes without), then runs the property's quick check (and any
# extra ones) against /repo with the mutation applied, and files it under seeded/.
set -u
export GOFLAGS=-mod=mod GOPROXY=off GOSUMDB=off GOTOOLCHAIN=local
P=$1; V=$2; shift 2
OUT=/tmp/wt/$P-out
DIFF=$OUT/mut$V.diff
DEMO=$OUT/demo$V
[ -f "$DIFF" ] || { echo "no $DIFF"; exit 3; }
WT=$(mktemp -d /tmp/evalwt-XXXX)
git -C /repo worktree add -q --detach "$WT/w" HEAD || exit 3
cleanup() { git -C /repo worktree remove --force "$WT/w" >/dev/null 2>&1; rm -rf "$WT"; }
trap cleanup EXIT
cd "$WT/w"
res_clean=$( (cd "$WT/w" && timeout 900 bash "$DEMO/run.sh" >/dev/null 2>&1); echo $?)
git apply "$DIFF" || { echo "APPLY-FAIL"; exit 3; }
build=$( (go build ./... >/dev/null 2>&1); echo $?)
tests=$( (go test -vet=off -count=1 ./... >/dev/null 2>&1); echo $?)
res_mut=$( (cd "$WT/w" && timeout 900 bash "$DEMO/run.sh" >/dev/null 2>&1); echo $?)
git checkout -q -- . ; git clean -fdq
echo "confirm: build=$build tests=$tests demo_clean=$res_clean demo_mut=$res_mut"
cd /verif
det=""
for id in $P "$@"; do
  r=$(tools/trypatch.sh "$DIFF" $id 2>&1 | head -1)
  echo "  check: $r" | cut -c1-200
  det="$det $id:$(echo "$r" | sed -n 's/.* rc=\([0-9]*\).*/\1/p')"
done
D=/verif/seeded/$P-$V
mkdir -p "$D"
cp "$DIFF" "$D/patch.diff"; rm -rf "$D/demo"; cp -r "$DEMO" "$D/demo"
python3 - "$P" "$V" "$build" "$tests" "$res_clean" "$res_mut" "$det" <<'PY'
import json,sys,re,os
P,V,build,tests,clean,mut,det=sys.argv[1:8]
notes=open('/tmp/wt/%s-out/notes.md'%P).read() if os.path.exists('/tmp/wt/%s-out/notes.md'%P) else ''
meta={"property":P,"variant":V,"source":"independent sub-agent given only the property text and its own worktree",
 "confirmed":{"builds":build=="0","suite_green":tests=="0","demo_passes_without_change":clean=="0","demo_fails_with_change":mut!="0"},
 "checks_run":{k:("detected" if v=="1" else "missed" if v=="0" else "inconclusive(rc=%s)"%v) for k,v in (x.split(':') for x in det.split())},
 "ran":"tools/evalseed.sh %s %s"%(P,V),"notes":notes[:6000]}
json.dump(meta,open('/verif/seeded/%s-%s/meta.json'%(P,V),'w'),indent=1)
print(json.dumps(meta["confirmed"]), meta["checks_run"])
PY
