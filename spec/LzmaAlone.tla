------------------------------ MODULE LzmaAlone ------------------------------
(* M4: the classic .lzma writer contract (lzma.WriterConfig / lzma.Writer)   *)
(* and what a .lzma header must say.                                         *)
(*                                                                           *)
(* Configuration after default filling (as documented for WriterConfig):     *)
(*   Size > 0 implies an explicit size; without explicit size the end marker *)
(*   is always written.  An explicit size may be 0.                          *)
(* Contract: with an explicit size exactly Size bytes are accepted: a Write  *)
(* that would exceed it accepts what fits and reports "nospace"; Close fails *)
(* ("size") if fewer bytes were written.  The header states the properties   *)
(* byte, the dictionary capacity and the size, or all-ones iff there is no   *)
(* explicit size (so Size = 0 is written as 0).                              *)
EXTENDS Integers, Sequences, TLC, Json

CONSTANTS Sizes,        \* candidate values of WriterConfig.Size
          WriteLens,    \* candidate lengths of a Write
          MaxCalls

PropCode(lc, lp, pb) == (pb * 5 + lp) * 9 + lc
ValidProps(lc, lp, pb) == lc \in 0..8 /\ lp \in 0..4 /\ pb \in 0..4

(* Effective configuration. *)
Explicit(sih, size) == sih \/ size > 0
Marker(sih, size, eos) == eos \/ ~Explicit(sih, size)
ConfigValid(sih, size, eos) == Explicit(sih, size) => size >= 0
HeaderSize(sih, size) == IF Explicit(sih, size) THEN size ELSE -1     \* -1 = all ones

VARIABLES sih, size, eos,   \* configuration (constant during a behaviour)
          accepted,         \* bytes accepted so far
          closed,           \* Close was called and succeeded / failed ("ok" | "size" | "no")
          hist              \* calls with predicted results
avars == <<sih, size, eos, accepted, closed, hist>>

AInit == /\ sih \in BOOLEAN /\ size \in Sizes /\ eos \in BOOLEAN
         /\ ConfigValid(sih, size, eos)
         /\ accepted = 0 /\ closed = "no" /\ hist = <<>>

Room == IF Explicit(sih, size) THEN size - accepted ELSE 1000000000

Write(n) == /\ closed = "no" /\ Len(hist) < MaxCalls
            /\ LET take == IF n <= Room THEN n ELSE Room IN
               /\ accepted' = accepted + take
               /\ hist' = Append(hist, [op |-> "W", n |-> n, ret |-> take, err |-> IF n > Room THEN "nospace" ELSE "nil"])
            /\ UNCHANGED <<sih, size, eos, closed>>

Close == /\ closed = "no"
         /\ closed' = IF Explicit(sih, size) /\ accepted # size THEN "size" ELSE "ok"
         /\ hist' = Append(hist, [op |-> "C", n |-> 0, ret |-> 0, err |-> IF Explicit(sih, size) /\ accepted # size THEN "size" ELSE "nil"])
         /\ UNCHANGED <<sih, size, eos, accepted>>

ANext == (\E n \in WriteLens : Write(n)) \/ Close
ASpec == AInit /\ [][ANext]_avars

NeverMoreThanSize == Explicit(sih, size) => accepted <= size
HeaderTruthful == closed = "ok" /\ Explicit(sih, size) => accepted = HeaderSize(sih, size)
Emit == closed # "no" => PrintT(ToJson([sih |-> sih, size |-> size, eos |-> eos, hist |-> hist, closed |-> closed,
                                        hdrSize |-> HeaderSize(sih, size), marker |-> Marker(sih, size, eos), total |-> accepted]))
=============================================================================
