------------------------------ MODULE XzReader ------------------------------
(* The reader-side grammar of the three formats at the granularity of byte  *)
(* regions, with end-of-input possible at every point (C05): end of input   *)
(* is a clean end only after a complete stream (.xz: after a footer, or     *)
(* inside stream padding at a multiple of four bytes; LZMA2: after the end  *)
(* chunk; .lzma: after the end marker or the declared size).  Everything    *)
(* else must surface as an error.                                           *)
(* Region kinds (.xz): SHDR BHDR DATA BPAD BCHECK BEND INDEX FOOTER SPAD    *)
(*  (LZMA2): CHDR CDATA EOS     (.lzma): AHDR ADATA AEND                    *)
EXTENDS Integers, Sequences, SequencesExt, TLC, Json

NextPhase(ph, k) ==
  CASE ph = "start"   /\ k = "SHDR"   -> "blocks"
    [] ph = "blocks"  /\ k = "BHDR"   -> "inblock"
    [] ph = "inblock" /\ k \in {"DATA", "BPAD", "BCHECK"} -> "inblock"
    [] ph = "inblock" /\ k = "BEND"   -> "blocks"
    [] ph = "blocks"  /\ k = "INDEX"  -> "footer"
    [] ph = "footer"  /\ k = "FOOTER" -> "end"
    [] ph = "end"     /\ k = "SPAD"   -> "end"
    [] ph = "end"     /\ k = "SHDR"   -> "blocks"
    (* LZMA2 *)
    [] ph = "l2"      /\ k = "CHDR"   -> "l2data"
    [] ph = "l2data"  /\ k = "CDATA"  -> "l2"
    [] ph = "l2"      /\ k = "EOS"    -> "end"
    (* .lzma *)
    [] ph = "alone"   /\ k = "AHDR"   -> "adata"
    [] ph = "adata"   /\ k = "ADATA"  -> "adata"
    [] ph = "adata"   /\ k = "AEND"   -> "end"
    [] OTHER -> "illegal"

PhaseAfter(ph0, regions) == FoldLeft(LAMBDA ph, k : NextPhase(ph, k), ph0, regions)

(* partial = kind of the region the cut falls into ("none" at a boundary);  *)
(* padBytes = bytes of the partial SPAD region present.                     *)
EofOk(ph, partial, padBytes) ==
  /\ ph = "end"
  /\ \/ partial = "none"
     \/ partial = "SPAD" /\ padBytes % 4 = 0

Obs == ndJsonDeserialize("cuts.ndjson")
(* An observed outcome "clean" where the grammar forbids a clean end, or an *)
(* error where the prefix is a complete file, contradicts the model.        *)
Consistent(o) == LET ph == PhaseAfter(o.start, o.regions) IN
                 /\ ph # "illegal"
                 /\ (o.outcome = "clean") = EofOk(ph, o.partial, o.padBytes)
Bad == { i \in 1..Len(Obs) : ~Consistent(Obs[i]) }
ASSUME PrintT(ToJson([kind |-> "obs", n |-> Len(Obs), bad |-> Bad]))
VARIABLE x
Spec == x = 0 /\ [][UNCHANGED x]_x
=============================================================================
