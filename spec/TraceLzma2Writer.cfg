SPECIFICATION Spec
INVARIANTS NeverAhead ClosedComplete
POSTCONDITION Accepted
CHECK_DEADLOCK FALSE
