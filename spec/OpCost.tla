------------------------------- MODULE OpCost -------------------------------
(***************************************************************************)
(* A quantitative design lemma of the LZMA2 writer.  Before every           *)
(* operation the encoder checks that Margin bytes of the chunk's compressed  *)
(* budget are still available; the operation is then coded without further   *)
(* checks and the range encoder must afterwards still be able to close the   *)
(* chunk.  So the reserve must cover the most expensive operation plus what  *)
(* closing needs:                                                            *)
(*        Margin >= WorstOpBytes + CloseNeeds.                               *)
(* The cost of an operation follows from the structure of the coder          *)
(* (Lzma.tla's operations at bit level): every adaptively coded bit costs at *)
(* most -log2(MinProb / 2^ProbBits) bits, where MinProb is the fixed point   *)
(* of the probability update p - (p >> MoveBits); directly coded bits cost   *)
(* exactly one bit.  Margin, ProbBits and MoveBits are read from the code    *)
(* (lzma/export_verif.go, build tag verif); this module decides.             *)
(* Found necessary by the bug-hunting round (DESIGN 10.11): with Margin = 16 *)
(* the lemma is false, and inputs exist that make Flush/Close fail.          *)
(***************************************************************************)
EXTENDS Integers, TLC, Json

CONSTANTS Margin, ProbBits, MoveBits

(* structure of the coder *)
LenChoiceBits == 2      \* choice, choice2
LenHighBits   == 8      \* the 'high' length tree
SlotBits      == 6      \* distance slot tree
AlignBits     == 4      \* lowest four distance bits, reverse tree
MaxSlot       == 63
MaxFooterBits == (MaxSlot \div 2) - 1            \* 30 bits follow slot 63
MaxDirectBits == MaxFooterBits - AlignBits       \* 26 of them coded directly
MaxModelBits  == 5      \* slots 4..13: up to 5 footer bits, all adaptively coded

Adaptive == [lit      |-> 1 + 8,                                            \* isMatch + eight (matched) literal bits
             match    |-> 2 + LenChoiceBits + LenHighBits + SlotBits + AlignBits,
             matchNear |-> 2 + LenChoiceBits + LenHighBits + SlotBits + MaxModelBits,
             rep      |-> 5 + LenChoiceBits + LenHighBits,                  \* isMatch isRep isRepG0 isRepG1 isRepG2 + length
             shortrep |-> 4]
Direct   == [lit |-> 0, match |-> MaxDirectBits, matchNear |-> 0, rep |-> 0, shortrep |-> 0]
Kinds == DOMAIN Adaptive

(* The least probability the update rule can reach: p - (p >> MoveBits) = p. *)
MinProb == (2 ^ MoveBits) - 1
(* -log2(31/2048) = 6.046 bits; in thousandths of a bit.  Only the values of  *)
(* the LZMA format are tabulated; any other model is answered pessimistically *)
(* with ProbBits whole bits.                                                  *)
WorstBitMilli == IF ProbBits = 11 /\ MoveBits = 5 THEN 6046 ELSE ProbBits * 1000

CostMilli(k) == Adaptive[k] * WorstBitMilli + Direct[k] * 1000
CeilDiv(a, b) == (a + b - 1) \div b
(* The budget shrinks by one byte per normalisation; a range that starts at   *)
(* 2^24 needs ceil(bits / 8) of them; one more for the precision the bound    *)
(* computation (range >> ProbBits) * p gives away.                            *)
OpBytes(k) == CeilDiv(CostMilli(k), 8000) + 1
WorstOpBytes == CHOOSE b \in {OpBytes(k) : k \in Kinds} : \A k \in Kinds : OpBytes(k) <= b
(* rangeEncoder.Close writes cacheLen + 4 bytes, which Available() has already *)
(* subtracted - but every one of its writes asks for Available() >= 1 while    *)
(* the count goes down: five bytes must be available when it starts.           *)
CloseNeeds == 5
Need == WorstOpBytes + CloseNeeds
MarginOk == Margin >= Need

ASSUME MinProb = 31 => WorstBitMilli = 6046
ASSUME \A k \in Kinds : OpBytes(k) <= OpBytes("match")     \* the far match is the expensive one
ASSUME PrintT(ToJson([kind |-> "opcost", margin |-> Margin, need |-> Need, worstOpBytes |-> WorstOpBytes,
                      costMilli |-> [k \in Kinds |-> CostMilli(k)], ok |-> MarginOk]))
VARIABLE x
Spec == x = 0 /\ [][UNCHANGED x]_x
=============================================================================
