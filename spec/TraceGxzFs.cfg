SPECIFICATION Spec
INVARIANTS DataSafe NoPartialTarget FailClean NoTmpAtExit SuccessMeansDone StdoutTouchesNothing
POSTCONDITION Accepted
CHECK_DEADLOCK FALSE
