SPECIFICATION Spec
CONSTANTS Lens <- LensDef
INVARIANTS Independent PrefixIndependent Emit
CHECK_DEADLOCK FALSE
