SPECIFICATION Spec
INVARIANTS TypeOK FrontInWindow
POSTCONDITION Accepted
CHECK_DEADLOCK FALSE
