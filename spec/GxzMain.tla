------------------------------- MODULE GxzMain -------------------------------
(***************************************************************************)
(* M7c: the process-level behaviour of gxz (cmd/gxz/main.go and the        *)
(* operand handling of file.go) that GxzCli leaves out:                    *)
(*   - personalities selected by the program name (unxz, xzcat, lzma,      *)
(*     unlzma, lzcat): default operation, format and output;               *)
(*   - information options -h/-L/-V: exit 0, nothing is processed;         *)
(*   - an unsupported -F value: fatal, nothing is processed;               *)
(*   - standard input: no operand at all, or the operand "-" with -c;      *)
(*   - operands that are not plain regular files: directory, missing name, *)
(*     symbolic link (processed only with -f, the link - not its target -  *)
(*     is replaced), dangling link, file with a setgid bit (only with -f). *)
(* Generation mode: an invocation is built step by step and printed with   *)
(* the predicted exit status, per-operand outcome and what standard output *)
(* carries.  Names carry the suffix of their content's format, so the      *)
(* suffix rules (GxzCli) are not re-examined here.                         *)
(***************************************************************************)
EXTENDS Integers, Sequences, FiniteSets, TLC, Json

CONSTANTS Pers,       \* subset of {"gxz", "unxz", "xzcat", "lzma", "unlzma", "lzcat"}
          Ops,        \* subset of {"none", "z", "d"}
          Infos,      \* subset of {"none", "h", "L", "V"}
          Fmts,       \* subset of {"none", "xz", "lzma", "alone", "auto", "bogus"}
          FlagPool,   \* subset of {"k", "c", "f"}
          Usages,     \* subset of {"none", "short", "long", "noarg", "argnotallowed"}: a malformed command line
          Kinds,      \* subset of {"reg", "dir", "missing", "symlink", "dangling", "setgid", "dash"}
          Contents,   \* subset of {"text", "xzdata", "lzmadata"}
          MaxFiles

VARIABLES pers, op, info, fmt, flags, files, stdin, phase, usage
mvars == <<pers, op, info, fmt, flags, files, stdin, phase, usage>>

Init == /\ pers = "gxz" /\ op = "none" /\ info = "none" /\ fmt = "none" /\ flags = {}
        /\ files = <<>> /\ stdin = "text" /\ phase = "pers" /\ usage = "none"

ChoosePers == /\ phase = "pers" /\ pers' \in Pers /\ op' \in Ops /\ info' \in Infos /\ phase' = "opts"
              /\ usage' \in Usages
              /\ UNCHANGED <<fmt, flags, files, stdin>>
ChooseOpts == /\ phase = "opts" /\ fmt' \in Fmts /\ flags' \in SUBSET FlagPool /\ stdin' \in Contents
              /\ phase' = "files" /\ UNCHANGED <<pers, op, info, files, usage>>

(*---------------------------- effective options --------------------------*)
PersDecompress(p) == p \in {"unxz", "xzcat", "unlzma", "lzcat"}
PersStdout(p)     == p \in {"xzcat", "lzcat"}
PersFormat(p)     == IF p \in {"lzma", "unlzma", "lzcat"} THEN "lzma" ELSE "auto"

Dec(p, o)      == IF o = "z" THEN FALSE ELSE o = "d" \/ PersDecompress(p)     \* -z forces compression, also for unxz
RawFmt(p, f)   == IF f = "none" THEN PersFormat(p) ELSE f
BadFmt(p, f)   == RawFmt(p, f) = "bogus"
EffFmt(p, o, f) == LET r == RawFmt(p, f) IN
                   IF r = "alone" THEN "lzma"
                   ELSE IF r = "auto" /\ ~Dec(p, o) THEN "xz" ELSE r            \* "auto" survives only for decompression
Force == "f" \in flags
HasDash == \E i \in 1..Len(files) : files[i].kind = "dash"

(* "-" reads standard input and writes standard output whatever the flags; at most one *)
AddFile == /\ phase = "files" /\ Len(files) < MaxFiles
           /\ \E kd \in Kinds, ct \in Contents :
                /\ (kd = "dash" => ~HasDash)
                /\ files' = Append(files, [kind |-> kd, content |-> ct])
           /\ UNCHANGED <<pers, op, info, fmt, flags, stdin, phase, usage>>
Finish == phase = "files" /\ phase' = "done" /\ UNCHANGED <<pers, op, info, fmt, flags, files, stdin, usage>>
Next == ChoosePers \/ ChooseOpts \/ AddFile \/ Finish
Spec == Init /\ [][Next]_mvars

(*------------------------------- semantics -------------------------------*)
D == Dec(pers, op)
F == EffFmt(pers, op, fmt)
NoOperands == Len(files) = 0
Stdout == "c" \in flags \/ PersStdout(pers) \/ NoOperands
Keep == "k" \in flags \/ Stdout

ContentFormat(ct) == IF ct = "xzdata" THEN "xz" ELSE IF ct = "lzmadata" THEN "lzma" ELSE "none"
(* format a stream of content ct is decoded with; "none" = not recognised *)
DecFormat(ct) == IF F = "auto" THEN ContentFormat(ct)
                 ELSE IF ContentFormat(ct) = F THEN F ELSE "none"

(* what the data of one source becomes: [ok, fmt] *)
Transform(ct) == IF D THEN [ok |-> DecFormat(ct) # "none", fmt |-> DecFormat(ct)]
                 ELSE [ok |-> TRUE, fmt |-> F]

(* Outcome of one operand.                                                 *)
(*   ok          the file counts as processed                              *)
(*   out         "stdout" | "file" | "none"                                *)
(*   target      "append" (name + suffix of fmt) | "strip" | "none"        *)
(*   removeInput the name given on the command line disappears             *)
Fail == [ok |-> FALSE, out |-> "none", target |-> "none", fmt |-> "none", removeInput |-> FALSE]
Outcome(f) ==
  IF f.kind \in {"dir", "missing", "dangling"} THEN Fail
  ELSE IF f.kind \in {"symlink", "setgid"} /\ ~Force THEN Fail
  ELSE LET ct == IF f.kind = "dash" THEN stdin ELSE f.content
           t == Transform(ct) IN
       IF ~t.ok THEN Fail
       ELSE IF Stdout \/ f.kind = "dash" THEN [ok |-> TRUE, out |-> "stdout", target |-> "none", fmt |-> t.fmt, removeInput |-> FALSE]
       ELSE IF ~D /\ ContentFormat(ct) = F THEN Fail          \* compressing a name that already carries the suffix
       ELSE [ok |-> TRUE, out |-> "file", target |-> IF D THEN "strip" ELSE "append", fmt |-> t.fmt, removeInput |-> ~Keep]

(* The whole run. *)
(* A malformed command line (unknown short or long option, option argument missing, argument   *)
(* given to a switch) is rejected while parsing, before anything else is looked at - also      *)
(* before -h/-L/-V.                                                                            *)
Mode == IF usage # "none" THEN "usage"
        ELSE IF info # "none" THEN "info"
        ELSE IF BadFmt(pers, fmt) THEN "fatal"
        ELSE IF NoOperands THEN "filter"
        ELSE "files"
(* operands are looked at only in mode "files"; otherwise none of them is touched *)
Outcomes == [i \in 1..Len(files) |-> IF Mode = "files" THEN Outcome(files[i]) ELSE Fail]
FilterOk == Transform(stdin).ok
Exit == CASE Mode = "info" -> 0
          [] Mode \in {"fatal", "usage"} -> 1
          [] Mode = "filter" -> IF FilterOk THEN 0 ELSE 1
          [] OTHER -> IF \E i \in 1..Len(files) : ~Outcomes[i].ok THEN 1 ELSE 0
(* sources whose transformed data appear on standard output, in order: 0 = standard input (filter mode) *)
StdoutSources == CASE Mode = "filter" -> IF FilterOk THEN <<0>> ELSE <<>>
                   [] Mode = "files" -> SelectSeq([i \in 1..Len(files) |-> i], LAMBDA i : Outcomes[i].ok /\ Outcomes[i].out = "stdout")
                   [] OTHER -> <<>>
StdoutFmt == IF D THEN "plain" ELSE F
(* only -h and -L print to standard output; nothing else may without -c / filter mode *)
InfoOnStdout == Mode = "info" /\ info \in {"h", "L"}

(*------------------------------ design checks ----------------------------*)
(* Nothing is ever removed unless a complete output file replaces it. *)
RemoveOnlyWithFile == phase = "done" => \A i \in 1..Len(files) :
                        Outcomes[i].removeInput => Outcomes[i].ok /\ Outcomes[i].out = "file" /\ Mode = "files"
(* Information options and fatal option errors touch no operand. *)
InfoTouchesNothing == phase = "done" /\ Mode \in {"info", "fatal", "usage"} => StdoutSources = <<>>
(* -z wins over a decompressing personality; cat personalities never create files. *)
ZForces == phase = "done" /\ op = "z" => ~D
CatNeverWritesFiles == phase = "done" /\ PersStdout(pers) => \A i \in 1..Len(files) : Outcomes[i].out # "file"
(* files are judged independently of each other *)
Independent == phase = "done" /\ Mode = "files" => \A i \in 1..Len(files) : Outcomes[i] = Outcome(files[i])

Emit == phase = "done" =>
          PrintT(ToJson([kind |-> "main", pers |-> pers, op |-> op, info |-> info, fmt |-> fmt, flags |-> flags, usage |-> usage,
                         files |-> files, stdin |-> stdin, mode |-> Mode, dec |-> D, efmt |-> F,
                         outcomes |-> Outcomes, exit |-> Exit, stdoutSources |-> StdoutSources,
                         stdoutFmt |-> StdoutFmt, infoOnStdout |-> InfoOnStdout]))
=============================================================================
