SPECIFICATION PSpec
INVARIANTS DataSafe NoPartialTarget FailClean NoTmpAtExit SuccessMeansDone StdoutTouchesNothing
PROPERTY Terminates
CHECK_DEADLOCK FALSE
