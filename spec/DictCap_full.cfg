SPECIFICATION Spec
CONSTANTS MaxU = 2097152
          BoundaryOnly = FALSE
INVARIANTS ProbeInRange Correct
CHECK_DEADLOCK FALSE
