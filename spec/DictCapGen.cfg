SPECIFICATION Spec
CONSTANTS MaxU = 2097152
          BoundaryOnly = TRUE
CHECK_DEADLOCK FALSE
