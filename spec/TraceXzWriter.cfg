SPECIFICATION Spec
POSTCONDITION Accepted
CHECK_DEADLOCK FALSE
