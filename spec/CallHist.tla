------------------------------ MODULE CallHist ------------------------------
(* Generator of public-call histories for the three writers (C01, C06, C08, *)
(* C09): all sequences over a token alphabet up to a length bound, with a   *)
(* weight budget for expensive payloads and at most AfterClose calls after   *)
(* the first Close.  Each finished history is printed with the result the    *)
(* writer contract predicts for every call: "ok" or "closed".                *)
EXTENDS Integers, Sequences, TLC, Json
CONSTANTS Tokens,      \* set of records [t |-> name, w |-> weight]; names "F" = Flush, "C" = Close, others = Write(payload class)
          MaxLen, Budget, AfterClose
VARIABLES hist, weight, closedAt
vars == <<hist, weight, closedAt>>
Init == hist = <<>> /\ weight = 0 /\ closedAt = 0
Call(tok) == /\ Len(hist) < MaxLen
             /\ weight + tok.w <= Budget
             /\ closedAt = 0 \/ Len(hist) < closedAt + AfterClose
             /\ hist' = Append(hist, tok.t)
             /\ weight' = weight + tok.w
             /\ closedAt' = IF closedAt = 0 /\ tok.t = "C" THEN Len(hist) + 1 ELSE closedAt
Next == \E tok \in Tokens : Call(tok)
Spec == Init /\ [][Next]_vars
Expect == [i \in 1..Len(hist) |-> IF closedAt # 0 /\ i > closedAt THEN "closed" ELSE "ok"]
(* A history is emitted when it cannot or need not be extended: it has a Close. *)
Done == closedAt # 0
Emit == Done => PrintT(ToJson([hist |-> hist, expect |-> Expect]))
ClosedIsSticky == \A i \in 1..Len(hist) : (closedAt # 0 /\ i > closedAt) => Expect[i] = "closed"
=============================================================================
