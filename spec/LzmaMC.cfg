SPECIFICATION Spec
CONSTANTS DictCap = 4
          MaxPos = 7
          MaxLen = 4
INVARIANTS TypeOK FrontInWindow
PROPERTIES AppendOnlyOrReset
CHECK_DEADLOCK FALSE
