SPECIFICATION Spec
CONSTANTS BlockSize = 3
          MaxTotal = 10
          WriteSizes = {0, 1, 2, 3, 4, 7}
INVARIANTS TypeOK Conservation OnlyLastShort NoEmptyBlockUnlessEmptyStream HeaderBeforeData BlockSplit LazyRoll
PROPERTIES ClosedIsFinal TailOrder CallsEnd
CHECK_DEADLOCK FALSE
