SPECIFICATION Spec
CONSTANTS Ops = {"none", "z", "d"}
          FlagPool = {"k", "c", "f"}
          Fmts = {"none", "lzma", "auto"}
          Forms = {"short", "eq"}
          Presets = {"none", "9"}
          Layouts = {"first", "last", "ddash"}
          Names = {"plain", "dash", "xz", "lzma", "txz", "other"}
          Contents = {"text", "xzdata", "lzmadata", "garbage"}
          MaxFiles = 1
INVARIANTS Independent NeverRemoveWithoutTarget
CHECK_DEADLOCK FALSE
