------------------------------ MODULE LzmaGen -------------------------------
(* Generation mode of Lzma (run with -simulate): a behaviour is the content *)
(* of one LZMA2 stream at operation level: operations interleaved with the  *)
(* chunk-level events of M2 (chunk cut, state reset with or without new     *)
(* properties, dictionary reset, raw chunks).  Parameters are drawn with    *)
(* RandomElement from sets that over-weight the edges.  Each behaviour is   *)
(* printed as JSON and realised as a concrete stream by the reference       *)
(* serialiser; the first event is always a dictionary reset.                *)
EXTENDS Lzma, Json
CONSTANTS DictCap, Depth,
          ChunkEvents   \* FALSE: pure operation sequences (classic .lzma), no chunk layer
VARIABLES hist
gvars == <<cap, pos, st, rep, np, hist>>

(* Distances: the edges of the window, the distances already in the repetition queue (coded  *)
(* as a simple match they make two queue entries equal), and the classes the distance coder  *)
(* distinguishes: slot boundaries 2^e / 2^e+1 / 3*2^(e-1) (+1), and distances whose four      *)
(* 'align' bits are all ones or all zeros (d-1 = 15, 16 mod 16) from slot 14 on.             *)
CoderDist == {4, 5, 6, 7, 8, 9, 12, 13, 16, 17, 24, 25, 32, 33, 48, 49, 64, 65, 96, 97, 128, 129, 144, 145, 192, 193,
              256, 257, 272, 384, 385, 512, 513, 1024, 1025, 1536, 1537, 2048, 2049, 4096}
DistSet == {1, Avail} \cup (IF Avail >= 2 THEN {2, Avail - 1, (Avail + 1) \div 2} ELSE {}) \cup {RandomElement(1..Avail)}
           \cup {rep[g] : g \in {k \in 1..4 : rep[k] <= Avail}}
           \cup (LET c == {d \in CoderDist : d <= Avail} IN IF c = {} THEN {} ELSE {RandomElement(c), RandomElement(c)})
(* What the distance coder distinguishes, as the format defines it (d0 = distance - 1):       *)
(* slots 0..3 are d0 itself; otherwise slot = 2*e + (bit e-1 of d0) with e = floor(log2 d0).  *)
RECURSIVE Log2(_)
Log2(x) == IF x <= 1 THEN 0 ELSE 1 + Log2(x \div 2)
Slot(d0) == IF d0 < 4 THEN d0 ELSE LET e == Log2(d0) IN 2 * e + ((d0 \div (2 ^ (e - 1))) % 2)
AlignBits(d0) == d0 % 16                         \* coded with the align tree from slot 14 on
(* the generator's classes reach every slot up to 4096, and both extreme align values *)
ASSUME \A sl \in 4..23 : \E d \in CoderDist : Slot(d - 1) = sl
ASSUME \E d \in CoderDist : Slot(d - 1) >= 14 /\ AlignBits(d - 1) = 15
ASSUME \E d \in CoderDist : Slot(d - 1) >= 14 /\ AlignBits(d - 1) = 0
(* Lengths: both sides of the length coder's bucket boundaries (2..9 | 10..17 | 18..273).    *)
LenSet  == {2, 3, 4, 8, 9, 10, 11, 17, 18, 19, 272, 273, RandomElement(2..273), RandomElement(2..40)}
(* Logged parameters are read back from the state change, because TLC may  *)
(* evaluate a RandomElement inside a LET more than once.                  *)
Log(k) == hist' = Append(hist, [k |-> k, d |-> IF k = "M" THEN rep'[1] ELSE 0, n |-> IF k = "UD" THEN pos' ELSE pos' - pos])
LogR(g) == hist' = Append(hist, [k |-> "R", d |-> g, n |-> pos' - pos])
Started == Len(hist) > 0 \/ ~ChunkEvents
LastK == IF Started THEN hist[Len(hist)].k ELSE "none"
Boundary == LastK \in {"CUT", "SR", "SRN", "DRL", "UD", "U", "none"}   \* no operation coded since the last chunk boundary

GLit == Started /\ Lit /\ Log("L")
GMatch == Started /\ Avail >= 1 /\ LET d == RandomElement(DistSet) n == RandomElement(LenSet) IN Match(d, n) /\ Log("M")
GRep(g) == Started /\ LET n == RandomElement(LenSet) IN Rep(g, n) /\ LogR(g)
GShort == Started /\ ShortRep /\ Log("S")
(* chunk-level events; an LZMA chunk must not be empty, so boundaries do not repeat *)
GCut == Started /\ ~np /\ ~Boundary /\ UNCHANGED lvars /\ Log("CUT")
GStateReset == Started /\ ~Boundary /\ StateReset /\ (Log("SR") \/ Log("SRN"))
GNewProps == Started /\ np /\ LastK \in {"UD", "U"} /\ StateReset /\ Log("SRN")
GDictResetL == (~Boundary \/ ~Started \/ LastK \in {"UD", "U"}) /\ pos' = 0 /\ st' = 0 /\ rep' = <<1, 1, 1, 1>> /\ np' = FALSE /\ UNCHANGED cap /\ Log("DRL")
GRawD == (~Boundary \/ ~Started \/ LastK \in {"UD", "U"}) /\ LET n == RandomElement(1..40) IN pos' = n /\ np' = TRUE /\ UNCHANGED <<st, rep, cap>> /\ Log("UD")
GRaw == Started /\ (~Boundary \/ LastK \in {"UD", "U"}) /\ LET n == RandomElement(1..40) IN Raw(n) /\ Log("U")

GNext == Len(hist) < Depth /\
         (GLit \/ GMatch \/ GLit \/ GMatch \/ GShort \/ (\E g \in 1..4 : GRep(g))
          \/ (ChunkEvents /\ (GCut \/ GStateReset \/ GNewProps \/ GDictResetL \/ GRawD \/ GRaw)))
GSpec == LInit(DictCap) /\ hist = <<>> /\ [][GNext]_gvars
Emit == Len(hist) = Depth => PrintT(ToJson(hist))
=============================================================================
