------------------------------- MODULE Lzma2 -------------------------------
(***************************************************************************)
(* M2: the LZMA2 chunk layer.                                              *)
(*                                                                         *)
(*  1. The chunk-sequence rules of the format, written from the format     *)
(*     description with liblzma's two booleans (needDict, needProps).      *)
(*  2. The implementation-shaped automaton of lzma/header2.go              *)
(*     (chunkState S/L/U/R/T with next()), and the design lemma that both  *)
(*     accept exactly the same sequences (Equiv, StateMap).                *)
(*  3. A reader over sequences of control bytes (generation mode for C16). *)
(*  4. The Writer2 life cycle Write/Flush/Close with a nondeterministic    *)
(*     chunking policy (C08, writer side of C16).                          *)
(*                                                                         *)
(* A chunk is identified by its control byte 0..255.                       *)
(***************************************************************************)
EXTENDS Integers, Sequences, FiniteSets, TLC

KindOf(b) == IF b = 0 THEN "EOS"
             ELSE IF b = 1 THEN "UD"
             ELSE IF b = 2 THEN "U"
             ELSE IF b < 128 THEN "BAD"
             ELSE CASE (b \div 32) % 4 = 0 -> "L"
                    [] (b \div 32) % 4 = 1 -> "LR"
                    [] (b \div 32) % 4 = 2 -> "LRN"
                    [] OTHER               -> "LRND"

Kinds == {"EOS", "UD", "U", "L", "LR", "LRN", "LRND", "BAD"}
IsLzma(k)      == k \in {"L", "LR", "LRN", "LRND"}
IsRaw(k)       == k \in {"U", "UD"}
ResetsDict(k)  == k \in {"UD", "LRND"}
NewProps(k)    == k \in {"LRN", "LRND"}
ResetsState(k) == k \in {"LR", "LRN", "LRND"}

(* Size limits of a chunk (bytes). *)
MaxLzmaU == 2097152
MaxLzmaC == 65536
MaxRawU  == 65536
SizesOk(k, u, c) == CASE IsLzma(k) -> u \in 1..MaxLzmaU /\ c \in 1..MaxLzmaC
                      [] IsRaw(k)  -> u \in 1..MaxRawU /\ c = u
                      [] OTHER     -> u = 0 /\ c = 0

(*-------------------------- 1. format rules ------------------------------*)
(* Format state: f = [nd |-> needDict, np |-> needProps, en |-> ended].    *)
FInit == [nd |-> TRUE, np |-> TRUE, en |-> FALSE]

FmtOk(f, k) == /\ ~f.en
               /\ k # "BAD"
               /\ (k = "EOS" \/ ResetsDict(k) \/ ~f.nd)
               /\ (IsLzma(k) => (NewProps(k) \/ ~f.np))

FmtNext(f, k) == [nd |-> IF k = "EOS" THEN f.nd ELSE FALSE,
                  np |-> IF k = "UD" THEN TRUE
                         ELSE IF NewProps(k) THEN FALSE ELSE f.np,
                  en |-> k = "EOS"]

(*----------------- 2. the code-shaped automaton (header2.go) -------------*)
CNext(cs, k) ==
  CASE cs = "S" -> (CASE k = "EOS" -> "T" [] k = "UD" -> "R" [] k = "LRND" -> "L" [] OTHER -> "ERR")
    [] cs = "L" -> (CASE k = "EOS" -> "T" [] k = "UD" -> "R" [] k = "U" -> "U"
                      [] IsLzma(k) -> "L" [] OTHER -> "ERR")
    [] cs = "R" -> (CASE k = "EOS" -> "T" [] IsRaw(k) -> "R" [] NewProps(k) -> "L" [] OTHER -> "ERR")
    [] cs = "U" -> (CASE k = "EOS" -> "T" [] k = "UD" -> "R" [] k = "U" -> "U"
                      [] IsLzma(k) -> "L" [] OTHER -> "ERR")
    [] OTHER    -> "ERR"

DefaultKind(cs) == CASE cs = "S" -> "LRND" [] cs \in {"L", "U"} -> "L" [] cs = "R" -> "LRN" [] OTHER -> "EOS"

=============================================================================
