---------------------------- MODULE Lzma2Reader -----------------------------
(* Reader over sequences of LZMA2 control bytes; product of the format     *)
(* rules and the implementation-shaped automaton (C16).                    *)
EXTENDS Lzma2, Json

(*------------------------ 3. reader over sequences -----------------------*)
CONSTANTS Alphabet,   \* control bytes used for the free part of a sequence
          MaxLen,     \* length of the free part
          LastAny     \* TRUE: one more chunk with any control byte 0..255 follows

VARIABLES seq,        \* control bytes consumed so far (history)
          f,          \* format state
          cs,         \* code-shaped state
          bad,        \* format rules rejected at chunk #bad (0 = none)
          cbad        \* code-shaped automaton rejected at chunk #cbad
rvars == <<seq, f, cs, bad, cbad>>

RInit == seq = <<>> /\ f = FInit /\ cs = "S" /\ bad = 0 /\ cbad = 0

Step(b) == LET k == KindOf(b) IN
  /\ bad = 0 /\ cbad = 0 /\ ~f.en
  /\ seq' = Append(seq, b)
  /\ IF FmtOk(f, k) THEN f' = FmtNext(f, k) /\ bad' = 0
                    ELSE f' = f /\ bad' = Len(seq) + 1
  /\ IF CNext(cs, k) # "ERR" THEN cs' = CNext(cs, k) /\ cbad' = 0
                             ELSE cs' = cs /\ cbad' = Len(seq) + 1

RNext == \/ Len(seq) < MaxLen /\ \E b \in Alphabet : Step(b)
         \/ LastAny /\ Len(seq) = MaxLen /\ \E b \in 0..255 : Step(b)
RSpec == RInit /\ [][RNext]_rvars

(* Design lemma: same verdict at the same chunk, and the state map. *)
Equiv    == bad = cbad
StateMap == bad = 0 => \/ cs = "S" /\ f.nd /\ f.np /\ ~f.en
                       \/ cs = "T" /\ f.en
                       \/ cs = "R" /\ ~f.nd /\ f.np /\ ~f.en
                       \/ cs \in {"L", "U"} /\ ~f.nd /\ ~f.np /\ ~f.en
(* The writer's default chunk kind is always legal in the current state. *)
DefaultLegal == bad = 0 /\ ~f.en => FmtOk(f, DefaultKind(cs)) \/ cs = "T"
FirstMustResetDict == Len(seq) >= 1 /\ bad # 1 => KindOf(seq[1]) \in {"EOS", "UD", "LRND"}

RDone == bad # 0 \/ f.en \/ Len(seq) = MaxLen + (IF LastAny THEN 1 ELSE 0)


(* Generation: one JSON line per finished sequence (collected by the driver). *)
Emit == RDone => PrintT(ToJson([seq |-> seq, rejectAt |-> bad, ended |-> f.en]))
=============================================================================
