--------------------------- MODULE TraceXzWriter ----------------------------
(* Validates recorded call histories of the real xz.Writer against the      *)
(* XzWriter life cycle.  One logged public call = the composition of the    *)
(* module's steps from "idle" to "idle" (BeginWrite . (Fill . Roll .        *)
(* NewBlk)^k . Fill, or BeginClose . Index . Footer); by XzWriter's checked *)
(* lemmas Conservation/BlockSplit the composite effect is total' = total+n  *)
(* and, after Close, the block list NBlocks/BlockUSize(total, BlockSize).   *)
(* The block list of a Close line is what the independent reference parser  *)
(* found in the bytes of the sink.  Cases are separated by "Reset" lines    *)
(* that carry the case's BlockSize (0 = one block).                         *)
EXTENDS XzFormat, Json, TLCExt
Tr == ndJsonDeserialize("trace.ndjson")
VARIABLES l, total, closed, bs
vars == <<l, total, closed, bs>>
Init == l = 1 /\ total = 0 /\ closed = FALSE /\ bs = 0
E == Tr[l]
Is(ev) == l <= Len(Tr) /\ E.ev = ev /\ l' = l + 1
EffBS == IF bs = 0 THEN 2000000000 ELSE bs

TReset == Is("Reset") /\ total' = 0 /\ closed' = FALSE /\ bs' = E.bs

AfterClose == closed /\ E.err = "closed" /\ E.delta = 0 /\ UNCHANGED <<total, closed, bs>>

TWrite == /\ Is("Write")
          /\ \/ AfterClose /\ E.ret = 0
             \/ /\ ~closed /\ E.err = "nil" /\ E.ret = E.n
                /\ total' = total + E.n /\ UNCHANGED <<closed, bs>>

TClose == /\ Is("Close")
          /\ \/ AfterClose
             \/ /\ ~closed /\ E.err = "nil"
                /\ E.delta >= 20                               \* at least index (8) + footer (12)
                /\ E.parsed => /\ Len(E.blocks) = NBlocks(total, EffBS)          \* BlockSplit
                               /\ \A i \in 1..Len(E.blocks) : E.blocks[i] = BlockUSize(total, EffBS, i)
                /\ closed' = TRUE /\ UNCHANGED <<total, bs>>

Next == TReset \/ TWrite \/ TClose
Spec == Init /\ [][Next]_vars
Accepted == /\ PrintT(ToJson([kind |-> "depth", depth |-> TLCGet("stats").diameter, len |-> Len(Tr)]))
            /\ TLCGet("stats").diameter = Len(Tr) + 1
=============================================================================
