------------------------------ MODULE DictCap ------------------------------
(***************************************************************************)
(* The LZMA2 dictionary-size code of the .xz block header (M6).            *)
(*                                                                         *)
(* Sizes are kept in units of 2 KiB (2048 bytes) because TLC integers are  *)
(* 32 bit: Size(c) bytes = U(c) * 2048 for c < 40 and Size(40) = 2^32 - 1  *)
(* bytes, which is "2^21 units minus one byte".  A capacity n (bytes,      *)
(* 1 <= n <= 2^32-1) is abstracted to <<u, exact>> with u = ceil(n/2048)   *)
(* and exact = (n = u*2048).  Then   n <= Size(c)  <=>  u <= U(c)   and    *)
(* n = Size(c) <=> u = U(c) /\ exact   (for c < 40), so the abstraction is *)
(* exact for everything EncodeDictCap computes.                            *)
(***************************************************************************)
EXTENDS Integers, TLC

CONSTANTS MaxU,        \* explore u in 1..MaxU (2^21 = all capacities)
          BoundaryOnly \* TRUE: only the neighbours of the 41 boundaries

Codes == 0..40
U(c) == IF c = 40 THEN 2097152 ELSE (2 + (c % 2)) * (2^(c \div 2))

StrictlyIncreasing == \A c \in 0..39 : U(c) < U(c+1)
DecodeOk(byte) == byte \in Codes            \* for byte \in 0..255

(* Declarative meaning: the least representable size >= the capacity. *)
Least(u) == CHOOSE c \in Codes : U(c) >= u /\ \A d \in Codes : d < c => U(d) < u

Boundary == { v \in UNION { {U(c) - 1, U(c), U(c) + 1} : c \in Codes } : v >= 1 /\ v <= MaxU }
Inputs == IF BoundaryOnly THEN Boundary ELSE 1..MaxU

(* The binary search of lzma.EncodeDictCap, one action per loop iteration. *)
VARIABLES u, exact, a, b, pc, ret
vars == <<u, exact, a, b, pc, ret>>

Init == /\ u \in Inputs /\ exact \in BOOLEAN
        /\ a = 0 /\ b = 40 /\ pc = "loop" /\ ret = -1

Probe == /\ pc = "loop" /\ a < b
         /\ LET c == a + (b - a) \div 2
                m == U(c)
            IN IF u <= m
               THEN IF u = m /\ exact
                    THEN /\ ret' = c /\ pc' = "done" /\ UNCHANGED <<a, b>>
                    ELSE /\ b' = c /\ UNCHANGED <<a, pc, ret>>
               ELSE /\ a' = c + 1 /\ UNCHANGED <<b, pc, ret>>
         /\ UNCHANGED <<u, exact>>

Exit == /\ pc = "loop" /\ ~(a < b)
        /\ ret' = a /\ pc' = "done"
        /\ UNCHANGED <<u, exact, a, b>>

Next == Probe \/ Exit
Spec == Init /\ [][Next]_vars /\ WF_vars(Next)

TypeOK == a \in 0..40 /\ b \in 0..40 /\ ret \in -1..40 /\ pc \in {"loop", "done"}
ProbeInRange == pc = "loop" /\ a < b => a + (b - a) \div 2 \in 0..39   \* decodeDictCap never sees code 40
LoopInv == pc = "loop" => Least(u) \in a..b
Correct == pc = "done" => /\ ret = Least(u)
                          /\ U(ret) >= u
                          /\ \A d \in Codes : d < ret => U(d) < u
Terminates == <>(pc = "done")
=============================================================================
