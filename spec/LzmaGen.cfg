SPECIFICATION GSpec
CONSTANTS DictCap = 4096
          Depth = 40
INVARIANTS Emit TypeOK FrontInWindow
CHECK_DEADLOCK FALSE
