SPECIFICATION GSpec
CONSTANTS DictCap = 4096
          Depth = 40
          ChunkEvents = TRUE
INVARIANTS Emit TypeOK FrontInWindow
CHECK_DEADLOCK FALSE
