SPECIFICATION WSpec
CONSTANTS Cap = 4
          WriteSizes = {0, 1, 2}
INVARIANTS NeverAhead ClosedComplete NoIllegalChunk
PROPERTIES FlushNoop AppendOnly FlushDrains CloseEnds
CHECK_DEADLOCK FALSE
