SPECIFICATION PSpec
INVARIANTS FaultFreeMatches
CHECK_DEADLOCK FALSE
