-------------------------------- MODULE GxzFs --------------------------------
(***************************************************************************)
(* M7a: the file protocol of gxz for one input file (C10).                 *)
(*                                                                         *)
(* Paths: IN (the input), TMP (the temporary output), TGT (the final name;  *)
(* Alias = TRUE means the computed target name equals the input name).      *)
(* fs maps each path to an abstract content:                                *)
(*   "absent" | "orig" (the user's input) | "out" (the complete output)     *)
(*   | "partial" (incomplete output) | "other" (a pre-existing target).     *)
(*                                                                         *)
(* Part 1 is a safety automaton over the *mutating* system calls: each      *)
(* action has the guard that makes it harmless.  Recorded system-call       *)
(* traces of the real binary are validated against it (TraceGxzFs); calls   *)
(* that do not change the directory (stat, read, close of the input) are    *)
(* not constrained, so refactorings that keep the protocol safe are         *)
(* accepted.                                                                *)
(* Part 2 is the intended gxz process, step by step, with a crash possible  *)
(* after every step and every step allowed to fail; TLC checks that it      *)
(* only takes automaton actions and that the data-safety invariants hold    *)
(* in every reachable state.                                                *)
(***************************************************************************)
EXTENDS Integers, Sequences, TLC

(* The scenario is a record chosen in the initial state and never changed,   *)
(* so that one TLC run covers all scenarios.                                 *)
VARIABLE cfg
Alias     == cfg.alias      \* target name = input name
Keep      == cfg.keep       \* -k : never remove the input
Force     == cfg.force      \* -f
TgtExists == cfg.tgtExists  \* a file already exists under the target name
InputOk   == cfg.inputOk    \* the input can be processed completely
Stdout    == cfg.stdout     \* -c : output goes to standard output, no file is created
CfgSet == [alias : BOOLEAN, keep : BOOLEAN, force : BOOLEAN, tgtExists : BOOLEAN, inputOk : BOOLEAN, stdout : BOOLEAN]

VARIABLES fs,         \* [IN, TMP, TGT] -> content  (TGT entry unused when Alias)
          tmpOpen,    \* TMP is open for writing
          tmpDone,    \* TMP was written completely and closed successfully
          broken,     \* a read/write/close of the copy failed or the input is bad
          renamed,    \* rename(TMP, TGT) succeeded
          tmpStuck,   \* the environment refused to remove TMP (unlink failed): nothing can be done
          exit        \* -1 running, else the exit status
svars == <<fs, tmpOpen, tmpDone, broken, renamed, tmpStuck, exit>>

T == IF Alias THEN "IN" ELSE "TGT"            \* the key the target name refers to
InitTgt == IF Alias THEN "orig" ELSE IF TgtExists THEN "other" ELSE "absent"

SInit == /\ cfg \in CfgSet
         /\ fs = [IN |-> "orig", TMP |-> "absent", TGT |-> IF TgtExists /\ ~Alias THEN "other" ELSE "absent"]
         /\ tmpOpen = FALSE /\ tmpDone = FALSE /\ broken = FALSE /\ renamed = FALSE /\ tmpStuck = FALSE /\ exit = -1

(*------------------------- 1. safety automaton ---------------------------*)
(* open(TMP, O_CREAT|O_EXCL) *)
CreateTmp(ok) == /\ exit = -1 /\ ~tmpOpen
                 /\ IF ok THEN /\ fs["TMP"] = "absent"
                               /\ fs' = [fs EXCEPT !["TMP"] = "partial"] /\ tmpOpen' = TRUE /\ tmpDone' = FALSE
                          ELSE UNCHANGED <<fs, tmpOpen, tmpDone>>
                 /\ UNCHANGED <<broken, renamed, tmpStuck, exit>>
(* write(TMP) : content stays partial until the final successful close *)
WriteTmp(ok) == /\ exit = -1 /\ tmpOpen
                /\ broken' = (broken \/ ~ok)
                /\ UNCHANGED <<fs, tmpOpen, tmpDone, renamed, tmpStuck, exit>>
(* a failing read of the input or a decoder error *)
InputFails == exit = -1 /\ broken' = TRUE /\ UNCHANGED <<fs, tmpOpen, tmpDone, renamed, tmpStuck, exit>>
(* close(TMP): complete iff nothing failed; complete = all input consumed *)
CloseTmp(ok, complete) ==
             /\ exit = -1 /\ tmpOpen /\ tmpOpen' = FALSE
             /\ IF ok /\ complete /\ ~broken
                THEN fs' = [fs EXCEPT !["TMP"] = "out"] /\ tmpDone' = TRUE /\ UNCHANGED broken
                ELSE UNCHANGED fs /\ tmpDone' = FALSE /\ broken' = TRUE
             /\ UNCHANGED <<renamed, tmpStuck, exit>>
(* rename(TMP, TGT): only a complete, closed output may get the final name, *)
(* and the final name must not be the input's name.                         *)
(* A rename that fails changes nothing and is therefore always harmless.     *)
Rename(ok) == /\ exit = -1
              /\ (ok => tmpDone /\ ~Alias /\ (fs[T] = "absent" \/ Force))
              /\ IF ok THEN /\ fs' = [fs EXCEPT ![T] = "out", !["TMP"] = "absent"] /\ renamed' = TRUE
                       ELSE UNCHANGED <<fs, renamed>>
              /\ UNCHANGED <<tmpOpen, tmpDone, broken, tmpStuck, exit>>
(* unlink(IN): only after the complete output is in place under another name *)
UnlinkIn(ok) == /\ exit = -1
                /\ renamed /\ ~Alias /\ ~Keep /\ fs["TGT"] = "out"
                /\ IF ok THEN fs' = [fs EXCEPT !["IN"] = "absent"] ELSE UNCHANGED fs
                /\ UNCHANGED <<tmpOpen, tmpDone, broken, renamed, tmpStuck, exit>>
(* unlink(TMP): cleanup *)
UnlinkTmp(ok) == /\ exit = -1 /\ ~tmpOpen
                 /\ IF ok THEN fs' = [fs EXCEPT !["TMP"] = "absent"] /\ tmpDone' = FALSE /\ UNCHANGED tmpStuck
                          ELSE UNCHANGED <<fs, tmpDone>> /\ tmpStuck' = TRUE
                 /\ UNCHANGED <<tmpOpen, broken, renamed, exit>>
(* unlink(TMP) while it is still open for writing: what the signal handler does when the run   *)
(* is interrupted during the copy.  The descriptor stays usable (writes go nowhere), the output *)
(* can no longer become complete.                                                              *)
UnlinkOpenTmp(ok) == /\ exit = -1 /\ tmpOpen
                     /\ IF ok THEN fs' = [fs EXCEPT !["TMP"] = "absent"] /\ UNCHANGED tmpStuck
                              ELSE UNCHANGED fs /\ tmpStuck' = TRUE
                     /\ broken' = TRUE
                     /\ UNCHANGED <<tmpOpen, tmpDone, renamed, exit>>
(* process exit; the status must tell the truth *)
Exit(code) == /\ exit = -1 /\ exit' = code
              /\ (code = 0 => ~broken /\ (renamed \/ Stdout))
              /\ UNCHANGED <<fs, tmpOpen, tmpDone, broken, renamed, tmpStuck>>

(*------------------------------ invariants -------------------------------*)
(* at every instant the data exists in one complete form *)
DataSafe == fs["IN"] = "orig" \/ (~Alias /\ fs["TGT"] = "out")
(* nothing partial ever carries the final name *)
NoPartialTarget == ~Alias => fs["TGT"] \in {"absent", "other", "out"}
(* a failing run leaves the input untouched and the target name unharmed *)
(* (status 7 is the interrupt handler's exit: it runs concurrently with the rest of the program, *)
(* which may have completed the job in the meantime - for that status only DataSafe and          *)
(* NoTmpAtExit are demanded)                                                                    *)
FailClean == exit > 0 /\ exit # 7 => /\ fs["IN"] = "orig"
                         /\ (~Alias => fs["TGT"] \in {InitTgt, "out"})
(* no temporary file after a run that was not killed *)
NoTmpAtExit == exit >= 0 /\ ~tmpStuck => fs["TMP"] = "absent"
SuccessMeansDone == exit = 0 /\ ~Stdout => /\ ~Alias /\ fs["TGT"] = "out"
                                            /\ (Keep => fs["IN"] = "orig") /\ (~Keep => fs["IN"] = "absent")
StdoutTouchesNothing == Stdout => fs["IN"] = "orig" /\ fs["TMP"] = "absent" /\ (~Alias => fs["TGT"] = InitTgt)

=============================================================================
