------------------------------ MODULE XzDamage ------------------------------
(* Single-field edits of valid stream layouts, each followed by re-sealing  *)
(* of the enclosing CRC-32 (so only the targeted cross-check can object).   *)
(* TLC classifies every edit of every base layout with the XzFormat         *)
(* acceptor: "MustReject" (no valid reading exists), "Benign" (another      *)
(* valid stream with the same content) or "Weak" (invalid per the format,   *)
(* but outside the list of inconsistencies the property obliges a reader to *)
(* report: judged by "error or identical content" only).                    *)
EXTENDS XzFormat, Json

(* Base layouts: with and without size fields, each check type, 1-3 blocks. *)
Bases == [ plain2   |-> Strm(1, <<Blk(30, 100, FALSE, FALSE, 0, 50), Blk(17, 5, FALSE, FALSE, 0, 3)>>),
           sized2   |-> Strm(4, <<Blk(30, 100, TRUE, TRUE, 2, 5000), Blk(200, 129, TRUE, TRUE, 2, 40)>>),
           sha1     |-> Strm(10, <<Blk(41, 300, TRUE, FALSE, 0, 7)>>),
           none3    |-> Strm(0, <<Blk(9, 1, FALSE, FALSE, 0, 0), Blk(130, 16384, FALSE, TRUE, 0, 1), Blk(5, 2, FALSE, FALSE, 0, 1)>>),
           empty    |-> Strm(4, <<>>) ]

OtherCheck(c) == IF c = 1 THEN 4 ELSE 1
SetB(s, i, b) == [s EXCEPT !.blocks = [s.blocks EXCEPT ![i] = b]]
SetR(s, i, r) == [s EXCEPT !.recs = [s.recs EXCEPT ![i] = r]]

StreamEdits == {"hmagic", "hcrc", "hflag0", "checkReserved", "checkOther", "indicator", "countPlus", "countMinus",
                "ipadNonzero", "ipadPlus4", "icrc", "backwardPlus", "backwardMinus", "fflag0", "fcheck", "fmagic", "fcrc",
                "dropLastRec", "dupLastRec",
                \* a change in a high-order bit only (bits 28/30/31 of the stored backward size, bit 32 of a
                \* count): TLC's integers are 32 bit wide, and the acceptor only compares for equality, so
                \* all of them are modelled as "+ 2^30"; the realisation sets the bit the name says
                "backwardHigh28", "backwardHigh30", "backwardHigh31", "countHigh",
                \* a multibyte integer written as value + 2^64 (ten bytes, bit 64 in the last one): the number
                \* in the file is not the right one, although arithmetic modulo 2^64 gives it back
                "countWrap"}
BlockEdits == {"sizeBytePlus", "sizeByteMinus", "resv", "nfilters", "filterId", "filterIdLow21", "propLen", "dict41", "dict255",
               "dictLarger", "dictSmaller", "hpadNonzero", "hpadPlus4", "hpadPlus4Nonzero", "hpadPlus8LastNonzero", "hcrcB", "addCsize", "addUsize",
               "csizeFPlus", "csizeFMinus", "usizeFPlus", "usizeFMinus", "padNonzero", "checkValue",
               "recUnpaddedPlus1", "recUnpaddedPlus4", "recUsizePlus", "recSwap",
               "recUnpaddedHigh", "recUsizeHigh", "csizeFHigh", "usizeFHigh",   \* bit 32 of the value
               "recUnpaddedWrap", "recUsizeWrap", "csizeFWrap", "usizeFWrap", "filterIdWrap", "propLenWrap"}   \* value + 2^64

ApplyS(e, s) ==
  CASE e = "hmagic"        -> [s EXCEPT !.magicOk = FALSE]
    [] e = "hcrc"          -> [s EXCEPT !.hcrcOk = FALSE]
    [] e = "hflag0"        -> [s EXCEPT !.hflag0 = 1]
    [] e = "checkReserved" -> [s EXCEPT !.check = 2]
    [] e = "checkOther"    -> [s EXCEPT !.check = OtherCheck(s.check)]
    [] e = "indicator"     -> [s EXCEPT !.indicator = 1]
    [] e = "countPlus"     -> [s EXCEPT !.count = s.count + 1]
    [] e = "countMinus"    -> [s EXCEPT !.count = s.count - 1]
    [] e = "ipadNonzero"   -> [s EXCEPT !.ipadZero = FALSE]
    [] e = "ipadPlus4"     -> [s EXCEPT !.ipadLen = s.ipadLen + 4, !.backward = s.backward + 4]
    [] e = "icrc"          -> [s EXCEPT !.icrcOk = FALSE]
    [] e = "backwardPlus"  -> [s EXCEPT !.backward = s.backward + 4]
    [] e = "backwardMinus" -> [s EXCEPT !.backward = s.backward - 4]
    [] e \in {"backwardHigh28", "backwardHigh30", "backwardHigh31"} -> [s EXCEPT !.backward = s.backward + 1073741824]
    [] e \in {"countHigh", "countWrap"} -> [s EXCEPT !.count = s.count + 1073741824]
    [] e = "fflag0"        -> [s EXCEPT !.fflag0 = 1]
    [] e = "fcheck"        -> [s EXCEPT !.fcheck = OtherCheck(s.check)]
    [] e = "fmagic"        -> [s EXCEPT !.fmagicOk = FALSE]
    [] e = "fcrc"          -> [s EXCEPT !.fcrcOk = FALSE]
    [] e = "dropLastRec"   -> [s EXCEPT !.recs = SubSeq(s.recs, 1, Len(s.recs) - 1), !.count = s.count - 1,
                                        !.backward = IndexSize(s.count - 1, SubSeq(s.recs, 1, Len(s.recs) - 1)),
                                        !.ipadLen = PadLen(IndexBodyLen(s.count - 1, SubSeq(s.recs, 1, Len(s.recs) - 1)))]
    [] e = "dupLastRec"    -> LET r2 == Append(s.recs, s.recs[Len(s.recs)]) IN
                              [s EXCEPT !.recs = r2, !.count = s.count + 1, !.backward = IndexSize(s.count + 1, r2),
                                        !.ipadLen = PadLen(IndexBodyLen(s.count + 1, r2))]

(* Re-derive the index record of block i after a benign header change. *)
Reindex(s, i) == LET r == [unpadded |-> Unpadded(s.blocks[i], s.check), usize |-> s.blocks[i].usize]
                     recs2 == [s.recs EXCEPT ![i] = r]
                 IN [s EXCEPT !.recs = recs2, !.backward = IndexSize(s.count, recs2),
                              !.ipadLen = PadLen(IndexBodyLen(s.count, recs2))]

ApplyB(e, s, i) ==
  LET b == s.blocks[i] IN
  CASE e = "sizeBytePlus"  -> SetB(s, i, [b EXCEPT !.sizeByte = b.sizeByte + 1, !.hcrcOk = FALSE])
    [] e = "sizeByteMinus" -> SetB(s, i, [b EXCEPT !.sizeByte = b.sizeByte - 1, !.hcrcOk = FALSE])
    [] e = "resv"          -> SetB(s, i, [b EXCEPT !.resv = 4])
    [] e = "nfilters"      -> SetB(s, i, [b EXCEPT !.nfilters = 2])
    [] e = "filterId"      -> SetB(s, i, [b EXCEPT !.filterId = 3])
    \* an unsupported multi-byte filter id whose low-order byte is that of LZMA2 (0x121, 0x2021, ...):
    \* the realisation tries several; the header grows by the id's additional bytes
    [] e = "filterIdLow21" -> SetB(s, i, [b EXCEPT !.filterId = 289])
    [] e = "propLen"       -> SetB(s, i, [b EXCEPT !.propLen = 2])
    \* a header longer than necessary (legal) whose additional padding carries a non-zero byte (not legal)
    [] e = "hpadPlus4Nonzero" -> Reindex(SetB(s, i, [b EXCEPT !.sizeByte = b.sizeByte + 1, !.hpadZero = FALSE]), i)
    [] e = "hpadPlus8LastNonzero" -> Reindex(SetB(s, i, [b EXCEPT !.sizeByte = b.sizeByte + 2, !.hpadZero = FALSE]), i)
    [] e = "dict41"        -> SetB(s, i, [b EXCEPT !.dictCode = 41])
    [] e = "dict255"       -> SetB(s, i, [b EXCEPT !.dictCode = 255])
    [] e = "dictLarger"    -> SetB(s, i, [b EXCEPT !.dictCode = b.dictCode + 3])
    [] e = "dictSmaller"   -> SetB(s, i, [b EXCEPT !.dictCode = 0, !.maxDist = 5000])
    [] e = "hpadNonzero"   -> SetB(s, i, [b EXCEPT !.hpadZero = FALSE])
    [] e = "hpadPlus4"     -> Reindex(SetB(s, i, [b EXCEPT !.sizeByte = b.sizeByte + 1]), i)
    [] e = "hcrcB"         -> SetB(s, i, [b EXCEPT !.hcrcOk = FALSE])
    [] e = "addCsize"      -> LET b2 == [b EXCEPT !.csizeF = b.csize] IN
                              Reindex(SetB(s, i, [b2 EXCEPT !.sizeByte = (BlockHeaderLen(b2.csizeF, b2.usizeF) \div 4) - 1]), i)
    [] e = "addUsize"      -> LET b2 == [b EXCEPT !.usizeF = b.usize] IN
                              Reindex(SetB(s, i, [b2 EXCEPT !.sizeByte = (BlockHeaderLen(b2.csizeF, b2.usizeF) \div 4) - 1]), i)
    [] e = "csizeFPlus"    -> SetB(s, i, [b EXCEPT !.csizeF = b.csizeF + 1])
    [] e = "csizeFMinus"   -> SetB(s, i, [b EXCEPT !.csizeF = b.csizeF - 1])
    [] e = "usizeFPlus"    -> SetB(s, i, [b EXCEPT !.usizeF = b.usizeF + 1])
    [] e = "usizeFMinus"   -> SetB(s, i, [b EXCEPT !.usizeF = b.usizeF - 1])
    [] e = "padNonzero"    -> SetB(s, i, [b EXCEPT !.padZero = FALSE])
    [] e = "checkValue"    -> SetB(s, i, [b EXCEPT !.checkOk = FALSE])
    [] e = "recUnpaddedPlus1" -> SetR(s, i, [s.recs[i] EXCEPT !.unpadded = s.recs[i].unpadded + 1])
    [] e = "recUnpaddedPlus4" -> SetR(s, i, [s.recs[i] EXCEPT !.unpadded = s.recs[i].unpadded + 4])
    [] e = "recUsizePlus"  -> SetR(s, i, [s.recs[i] EXCEPT !.usize = s.recs[i].usize + 1])
    [] e \in {"recUnpaddedHigh", "recUnpaddedWrap"} -> SetR(s, i, [s.recs[i] EXCEPT !.unpadded = s.recs[i].unpadded + 1073741824])
    [] e \in {"recUsizeHigh", "recUsizeWrap"}  -> SetR(s, i, [s.recs[i] EXCEPT !.usize = s.recs[i].usize + 1073741824])
    [] e = "filterIdWrap"  -> SetB(s, i, [b EXCEPT !.filterId = b.filterId + 1073741824])
    [] e = "propLenWrap"   -> SetB(s, i, [b EXCEPT !.propLen = b.propLen + 1073741824])
    [] e \in {"csizeFHigh", "csizeFWrap"}    -> SetB(s, i, [b EXCEPT !.csizeF = b.csizeF + 1073741824])
    [] e \in {"usizeFHigh", "usizeFWrap"}    -> SetB(s, i, [b EXCEPT !.usizeF = b.usizeF + 1073741824])
    [] e = "recSwap"       -> LET j == IF i < Len(s.recs) THEN i + 1 ELSE 1 IN
                              [s EXCEPT !.recs = [s.recs EXCEPT ![i] = s.recs[j], ![j] = s.recs[i]]]

(* An edit applies only where the field exists / the change is visible. *)
ApplicableS(e, s) == CASE e \in {"countMinus", "dropLastRec", "dupLastRec"} -> s.count >= 1
                       [] OTHER -> TRUE
ApplicableB(e, s, i) ==
  LET b == s.blocks[i] IN
  CASE e \in {"csizeFPlus", "csizeFMinus", "csizeFHigh", "csizeFWrap"} -> b.csizeF >= 0
    [] e \in {"usizeFPlus", "usizeFMinus", "usizeFHigh", "usizeFWrap"} -> b.usizeF >= 0
    [] e = "addCsize" -> b.csizeF < 0
    [] e = "addUsize" -> b.usizeF < 0
    [] e = "padNonzero" -> b.padLen > 0
    [] e = "checkValue" -> s.check # 0
    [] e = "hpadNonzero" -> (2 + (IF b.csizeF >= 0 THEN UvarintLen(b.csizeF) ELSE 0) + (IF b.usizeF >= 0 THEN UvarintLen(b.usizeF) ELSE 0) + 3) % 4 # 0
    [] e = "recSwap" -> Len(s.recs) >= 2 /\ s.recs[i] # s.recs[IF i < Len(s.recs) THEN i + 1 ELSE 1]
    [] e = "dictLarger" -> b.dictCode + 3 <= 40
    [] OTHER -> TRUE

WeakEdits == {"dictSmaller"}
Class(e, s2) == IF e \in WeakEdits THEN "Weak" ELSE IF ValidStream(s2) THEN "Benign" ELSE "MustReject"

CasesS == { c \in [base : DOMAIN Bases, edit : StreamEdits, block : {0}, class : {"MustReject", "Benign", "Weak"}] :
              /\ ApplicableS(c.edit, Bases[c.base])
              /\ c.class = Class(c.edit, ApplyS(c.edit, Bases[c.base])) }
CasesB == { c \in [base : DOMAIN Bases, edit : BlockEdits, block : 1..3, class : {"MustReject", "Benign", "Weak"}] :
              /\ c.block <= Len(Bases[c.base].blocks)
              /\ ApplicableB(c.edit, Bases[c.base], c.block)
              /\ c.class = Class(c.edit, ApplyB(c.edit, Bases[c.base], c.block)) }

(* Design-level facts about the format's redundancy. *)
ASSUME \A n \in DOMAIN Bases : ValidStream(Bases[n])
ASSUME \A c \in CasesS \cup CasesB :
         c.class = "Benign" <=> c.edit \in {"hpadPlus4", "addCsize", "addUsize", "dictLarger"}
ASSUME PrintT(ToJson([kind |-> "cases", cases |-> CasesS \cup CasesB]))
VARIABLE x
Spec == x = 0 /\ [][UNCHANGED x]_x
=============================================================================
