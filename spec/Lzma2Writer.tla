---------------------------- MODULE Lzma2Writer -----------------------------
(* Writer2 life cycle with a free chunking policy (C08, writer side C16).   *)
EXTENDS Lzma2

(*------------------------ 4. Writer2 life cycle --------------------------*)
(* Sizes are in abstract units; Cap is the bound for the exhaustive check. *)
CONSTANTS Cap, WriteSizes
VARIABLES total,     \* bytes accepted by Write so far
          emitted,   \* sum of uncompressed sizes of emitted chunks
          closed,    \* Close returned successfully
          wf,        \* format state of the emitted chunk sequence
          wbad,      \* TRUE if an illegal chunk was emitted
          call,      \* "idle" | "write" | "flush" | "close" : call in progress
          sinceCall  \* chunks emitted during the current call
wvars == <<total, emitted, closed, wf, wbad, call, sinceCall>>

WInit == total = 0 /\ emitted = 0 /\ closed = FALSE /\ wf = FInit /\ wbad = FALSE
         /\ call = "idle" /\ sinceCall = 0

BeginWrite(n) == /\ call = "idle" /\ ~closed /\ total + n <= Cap
                 /\ total' = total + n /\ call' = "write" /\ sinceCall' = 0
                 /\ UNCHANGED <<emitted, closed, wf, wbad>>
BeginFlush == /\ call = "idle" /\ ~closed /\ call' = "flush" /\ sinceCall' = 0
              /\ UNCHANGED <<total, emitted, closed, wf, wbad>>
BeginClose == /\ call = "idle" /\ ~closed /\ call' = "close" /\ sinceCall' = 0
              /\ UNCHANGED <<total, emitted, closed, wf, wbad>>

(* The chunking policy is free: any legal kind, any size up to what is pending. *)
EmitChunk(k, u) ==
  /\ call \in {"write", "flush", "close"} /\ u >= 1 /\ emitted + u <= total
  /\ k \in {"UD", "U", "L", "LR", "LRN", "LRND"}
  /\ FmtOk(wf, k)
  /\ wf' = FmtNext(wf, k) /\ emitted' = emitted + u /\ sinceCall' = sinceCall + 1
  /\ UNCHANGED <<total, closed, wbad, call>>

EndWrite == call = "write" /\ call' = "idle" /\ UNCHANGED <<total, emitted, closed, wf, wbad, sinceCall>>
EndFlush == call = "flush" /\ emitted = total /\ call' = "idle"
            /\ UNCHANGED <<total, emitted, closed, wf, wbad, sinceCall>>
EndClose == /\ call = "close" /\ emitted = total
            /\ FmtOk(wf, "EOS") /\ wf' = FmtNext(wf, "EOS")
            /\ closed' = TRUE /\ call' = "idle"
            /\ UNCHANGED <<total, emitted, wbad, sinceCall>>

WNext == \/ \E n \in WriteSizes : BeginWrite(n)
         \/ BeginFlush \/ BeginClose
         \/ \E k \in Kinds, u \in 1..Cap : EmitChunk(k, u)
         \/ EndWrite \/ EndFlush \/ EndClose
WSpec == WInit /\ [][WNext]_wvars /\ WF_wvars(\E k \in Kinds, u \in 1..Cap : EmitChunk(k, u))
                                  /\ WF_wvars(EndFlush) /\ WF_wvars(EndClose) /\ WF_wvars(EndWrite)

NeverAhead     == emitted <= total
IdleAfterFlush == TRUE
ClosedComplete == closed => emitted = total /\ wf.en
NoIllegalChunk == ~wbad
(* A flush with nothing pending emits nothing: EmitChunk needs emitted+u <= total. *)
FlushNoop == [][call = "flush" /\ emitted = total => emitted' = emitted /\ wf' = wf]_wvars
AppendOnly == [][emitted' >= emitted /\ total' >= total]_wvars
FlushDrains == (call = "flush") ~> (call = "idle")
CloseEnds   == (call = "close") ~> closed
=============================================================================
