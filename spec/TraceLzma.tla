------------------------------ MODULE TraceLzma ------------------------------
(* Validates operation-level traces (produced by the reference decoder from *)
(* real compressed bytes) against Lzma: every operation must be enabled in  *)
(* the state the specification is in, reproduce the plaintext (a constant,  *)
(* loaded from data.json, never part of the state) and leave the state the  *)
(* next event reports.  Events:                                             *)
(*  {"ev":"Reset","dict":D,"base":B}  new stream; B = offset of its data    *)
(*  {"ev":"L","pos","st","rep","b"} {"ev":"M","d","n",...} {"ev":"R","g","n",...} *)
(*  {"ev":"S",...} {"ev":"StateReset"} {"ev":"DictReset"} {"ev":"Raw","n":k} *)
EXTENDS Lzma, Json, TLCExt
Data == JsonDeserialize("data.json")        \* sequence of byte values
Tr   == ndJsonDeserialize("ops.ndjson")

VARIABLES l, base, off
(* off = bytes of the current stream produced so far (position in Data = base+off) *)
vars == <<l, base, off, cap, pos, st, rep, np>>

Init == l = 1 /\ cap = 1 /\ base = 0 /\ off = 0 /\ pos = 0 /\ st = 0 /\ rep = <<1, 1, 1, 1>> /\ np = FALSE
E == Tr[l]
Is(ev) == l <= Len(Tr) /\ E.ev = ev /\ l' = l + 1
Same == E.pos = pos /\ E.st = st /\ E.rep = rep     \* the decoder's view equals the specification's
At(i) == Data[base + i]                             \* i-th byte (1-based) of the current stream

TReset == /\ Is("Reset") /\ cap' = E.dict /\ base' = E.base /\ off' = 0
          /\ pos' = 0 /\ st' = 0 /\ rep' = <<1, 1, 1, 1>> /\ np' = FALSE
TLit == /\ Is("L") /\ Same /\ At(off + 1) = E.b /\ Lit /\ off' = off + 1 /\ UNCHANGED base
Copies(d, n) == \A i \in 1..n : At(off + i) = At(off + i - d)
TMatch == /\ Is("M") /\ Same /\ Match(E.d, E.n) /\ Copies(E.d, E.n)
          /\ off' = off + E.n /\ UNCHANGED base
TRep == /\ Is("R") /\ Same /\ Rep(E.g, E.n) /\ Copies(rep[E.g], E.n)
        /\ off' = off + E.n /\ UNCHANGED base
TShort == /\ Is("S") /\ Same /\ ShortRep /\ Copies(rep[1], 1)
          /\ off' = off + 1 /\ UNCHANGED base
TStateReset == Is("StateReset") /\ StateReset /\ UNCHANGED <<base, off>>
TDictReset == Is("DictReset") /\ DictReset /\ UNCHANGED <<base, off>>
TRaw == Is("Raw") /\ Raw(E.n) /\ off' = off + E.n /\ UNCHANGED base
TEnd == Is("End") /\ E.total = off /\ UNCHANGED <<base, off, cap, pos, st, rep, np>>

Next == TReset \/ TLit \/ TMatch \/ TRep \/ TShort \/ TStateReset \/ TDictReset \/ TRaw \/ TEnd
Spec == Init /\ [][Next]_vars
Accepted == /\ PrintT(ToJson([kind |-> "depth", depth |-> TLCGet("stats").diameter, len |-> Len(Tr)]))
            /\ TLCGet("stats").diameter = Len(Tr) + 1
=============================================================================
