----------------------------- MODULE TraceGxzFs ------------------------------
(* System-call traces of the real gxz binary (recorded with ptrace; paths     *)
(* already mapped to IN / TMP / TGT) validated against the safety automaton   *)
(* of GxzFs.  Non-mutating calls stutter.  The final directory of the real    *)
(* run (also after a kill) must be the automaton's fs.                        *)
(*  {"ev":"Reset","alias":..,"keep":..,"force":..,"tgtExists":..,"inputOk":..,"stdout":..}  *)
(*  {"ev":"Sys","name":..,"a":"IN|TMP|TGT","b":"..","ret":n,"creat":bool,"eofSeen":bool,"unfinished":bool} *)
(*  {"ev":"Exit","code":n} | {"ev":"Killed"}                                             *)
(*  {"ev":"Dir","din":c,"dtgt":c,"dtmp":c}                                                   *)
EXTENDS GxzFs, Json, TLCExt
Tr == ndJsonDeserialize("trace.ndjson")
VARIABLES l, dead
vars == <<l, dead, cfg, fs, tmpOpen, tmpDone, broken, renamed, tmpStuck, exit>>
NoCfg == [alias |-> FALSE, keep |-> FALSE, force |-> FALSE, tgtExists |-> FALSE, inputOk |-> TRUE, stdout |-> FALSE]
Init == /\ l = 1 /\ dead = FALSE /\ cfg = NoCfg
        /\ fs = [IN |-> "orig", TMP |-> "absent", TGT |-> "absent"]
        /\ tmpOpen = FALSE /\ tmpDone = FALSE /\ broken = FALSE /\ renamed = FALSE /\ tmpStuck = FALSE /\ exit = -1
E == Tr[l]
Is(ev) == l <= Len(Tr) /\ E.ev = ev /\ l' = l + 1
Same == UNCHANGED <<cfg, fs, tmpOpen, tmpDone, broken, renamed, tmpStuck, exit>>

TReset == /\ Is("Reset") /\ dead' = FALSE
          /\ cfg' = [alias |-> E.alias, keep |-> E.keep, force |-> E.force, tgtExists |-> E.tgtExists, inputOk |-> E.inputOk, stdout |-> E.stdout]
          /\ fs' = [IN |-> "orig", TMP |-> "absent", TGT |-> IF E.tgtExists /\ ~E.alias THEN "other" ELSE "absent"]
          /\ tmpOpen' = FALSE /\ tmpDone' = FALSE /\ broken' = FALSE /\ renamed' = FALSE /\ tmpStuck' = FALSE /\ exit' = -1

Mutating(e) == \/ e.name = "openat" /\ e.creat
               \/ e.name \in {"write", "renameat", "unlinkat"}
               \/ e.name = "close" /\ e.a = "TMP"

(* A call that was entered when the process ended (interrupt) was not seen to return: whether  *)
(* it took effect is left to TLC - both outcomes are tried, the final directory decides.        *)
Outcome(b) == IF E.unfinished THEN BOOLEAN ELSE {b}
TSys == /\ Is("Sys") /\ ~dead /\ UNCHANGED <<dead, cfg>>
        /\ IF ~Mutating(E) THEN UNCHANGED svars
           ELSE CASE E.name = "openat" /\ E.a = "TMP" -> \E ok \in Outcome(E.ret >= 0) : CreateTmp(ok)
                  [] E.name = "write" /\ E.a = "TMP"  -> \E ok \in Outcome(E.ret >= 0) : WriteTmp(ok)
                  [] E.name = "close" /\ E.a = "TMP"  -> \E ok \in Outcome(E.ret = 0) : CloseTmp(ok, InputOk)
                  [] E.name = "renameat" /\ E.a = "TMP" /\ E.b = "TGT" -> \E ok \in Outcome(E.ret = 0) : Rename(ok)
                  [] E.name = "unlinkat" /\ E.a = "IN"  -> \E ok \in Outcome(E.ret = 0) : UnlinkIn(ok)
                  [] E.name = "unlinkat" /\ E.a = "TMP" -> \E ok \in Outcome(E.ret = 0) : IF tmpOpen THEN UnlinkOpenTmp(ok) ELSE UnlinkTmp(ok)
                  [] OTHER -> FALSE          \* e.g. creating/writing/unlinking the target name directly
TExit == Is("Exit") /\ ~dead /\ Exit(IF E.code \in {0, 7} THEN E.code ELSE 1) /\ UNCHANGED <<dead, cfg>>
TKilled == Is("Killed") /\ dead' = TRUE /\ Same
TDir == /\ Is("Dir") /\ Same /\ UNCHANGED dead
        /\ fs["IN"] = E.din /\ ((fs["TMP"] = "absent") = (E.dtmp = "absent")) /\ (~Alias => fs["TGT"] = E.dtgt)

Next == TReset \/ TSys \/ TExit \/ TKilled \/ TDir
Spec == Init /\ [][Next]_vars
Accepted == /\ PrintT(ToJson([kind |-> "depth", depth |-> TLCGet("stats").diameter, len |-> Len(Tr)]))
            /\ TLCGet("stats").diameter = Len(Tr) + 1
=============================================================================
