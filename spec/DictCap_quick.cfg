SPECIFICATION Spec
CONSTANTS MaxU = 2097152
          BoundaryOnly = TRUE
INVARIANTS TypeOK ProbeInRange LoopInv Correct
PROPERTY Terminates
CHECK_DEADLOCK FALSE
