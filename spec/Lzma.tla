-------------------------------- MODULE Lzma --------------------------------
(***************************************************************************)
(* M1: the LZMA operation layer.  State: bytes produced since the last     *)
(* dictionary reset (pos), the 12-state context machine (st) and the queue *)
(* of the four most recent match distances (rep, real distances >= 1).     *)
(* Range coding and probabilities are below this level (see DESIGN 1.1).   *)
(***************************************************************************)
EXTENDS Integers, Sequences, TLC

VARIABLES cap,        \* addressable window in bytes (fixed per stream)
          pos, st, rep,
          np          \* a dictionary reset happened and no state reset (new properties) yet: no operation may be coded
lvars == <<cap, pos, st, rep, np>>

MinOf2(a, b) == IF a < b THEN a ELSE b
Avail == MinOf2(pos, cap)          \* how far back a distance may reach

(* The state transition table of the LZMA specification. *)
StLit(s)      == IF s < 4 THEN 0 ELSE IF s < 10 THEN s - 3 ELSE s - 6
StMatch(s)    == IF s < 7 THEN 7 ELSE 10
StRep(s)      == IF s < 7 THEN 8 ELSE 11
StShortRep(s) == IF s < 7 THEN 9 ELSE 11
MatchedLiteral(s) == s >= 7           \* literal is coded against the byte at rep[1]

LInit(c) == cap = c /\ pos = 0 /\ st = 0 /\ rep = <<1, 1, 1, 1>> /\ np = FALSE

Lit == /\ ~np /\ pos' = pos + 1 /\ st' = StLit(st) /\ UNCHANGED <<rep, np, cap>>

Match(d, n) == /\ ~np /\ UNCHANGED <<np, cap>>
               /\ d >= 1 /\ d <= Avail /\ n \in 2..273
               /\ pos' = pos + n /\ st' = StMatch(st)
               /\ rep' = <<d, rep[1], rep[2], rep[3]>>

(* rep match with queue index g (1..4): the chosen distance moves to the front *)
Rep(g, n) == /\ ~np /\ UNCHANGED <<np, cap>>
             /\ g \in 1..4 /\ rep[g] <= Avail /\ n \in 2..273
             /\ pos' = pos + n /\ st' = StRep(st)
             /\ rep' = CASE g = 1 -> rep
                         [] g = 2 -> <<rep[2], rep[1], rep[3], rep[4]>>
                         [] g = 3 -> <<rep[3], rep[1], rep[2], rep[4]>>
                         [] g = 4 -> <<rep[4], rep[1], rep[2], rep[3]>>

ShortRep == /\ ~np /\ rep[1] <= Avail
            /\ pos' = pos + 1 /\ st' = StShortRep(st) /\ UNCHANGED <<rep, np, cap>>

(* LZMA2 chunk-level effects on this layer. *)
StateReset == st' = 0 /\ rep' = <<1, 1, 1, 1>> /\ np' = FALSE /\ UNCHANGED <<pos, cap>>
DictReset  == pos' = 0 /\ np' = TRUE /\ UNCHANGED <<st, rep, cap>>
Raw(n)     == n >= 1 /\ pos' = pos + n /\ UNCHANGED <<st, rep, np, cap>>

TypeOK == st \in 0..11 /\ pos >= 0 /\ \A i \in 1..4 : rep[i] >= 1
(* After any match-type operation the front of the queue is inside the window. *)
FrontInWindow == ~np /\ st >= 7 => rep[1] <= Avail
AppendOnlyOrReset == [][pos' >= pos \/ pos' = 0]_lvars
=============================================================================
