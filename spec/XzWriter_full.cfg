SPECIFICATION Spec
CONSTANTS BlockSize = 5
          MaxTotal = 23
          WriteSizes = {0, 1, 2, 4, 5, 6, 10, 11, 16}
INVARIANTS TypeOK Conservation OnlyLastShort NoEmptyBlockUnlessEmptyStream HeaderBeforeData BlockSplit LazyRoll
PROPERTIES ClosedIsFinal TailOrder CallsEnd
CHECK_DEADLOCK FALSE
