--------------------------- MODULE TraceDictCap ----------------------------
(* Observations of the real lzma.EncodeDictCap / lzma.DecodeDictCap /      *)
(* emitted block headers, checked against the declarative DictCap module.  *)
(* obs.ndjson lines:                                                       *)
(*   {"ev":"enc","u":<ceil(n/2048)>,"exact":<bool>,"code":<byte>}          *)
(*   {"ev":"dec","byte":b,"ok":<bool>,"units":<size/2048 rounded up>}      *)
(*   {"ev":"hdr","u":<ceil(DictCap/2048)>,"code":<dict byte in header>}    *)
EXTENDS DictCap, Json, Sequences
Obs == ndJsonDeserialize("obs.ndjson")
EncOk(o) == o.code = Least(o.u)
DecOk(o) == /\ o.ok = DecodeOk(o.byte)
            /\ o.ok => o.units = U(o.byte)
HdrOk(o) == o.code = Least(o.u)
Bad == { i \in 1..Len(Obs) :
           ~ CASE Obs[i].ev = "enc" -> EncOk(Obs[i])
               [] Obs[i].ev = "dec" -> DecOk(Obs[i])
               [] Obs[i].ev = "hdr" -> HdrOk(Obs[i])
               [] OTHER -> FALSE }
ASSUME PrintT(ToJson([kind |-> "obs", n |-> Len(Obs), bad |-> Bad]))
=============================================================================
