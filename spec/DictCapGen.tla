---------------------------- MODULE DictCapGen -----------------------------
(* Generation mode of DictCap: prints the size table and the predicted     *)
(* code for every boundary capacity as JSON for the Go driver (C18).       *)
EXTENDS DictCap, Json
ASSUME StrictlyIncreasing
ASSUME \A byte \in 0..255 : DecodeOk(byte) <=> byte <= 40
ASSUME PrintT(ToJson([kind |-> "table", units |-> [c \in 1..41 |-> U(c - 1)]]))
ASSUME PrintT(ToJson([kind |-> "least", pairs |-> [v \in Boundary |-> Least(v)]]))
=============================================================================
