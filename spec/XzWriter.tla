------------------------------ MODULE XzWriter ------------------------------
(* Life cycle of xz.Writer, shaped like writer.go:                          *)
(*   NewWriter      stream header + header of block 1                       *)
(*   Write(p)       loop: bw.Write(p[n:]) takes min(len, BlockSize - cur);  *)
(*                  errNoSpace <=> more was offered than fitted             *)
(*                  -> closeBlockWriter ; newBlockWriter ; again            *)
(*   Close          closeBlockWriter ; index ; footer                       *)
(* One action per step of that loop, so that a block is closed only while   *)
(* data is still pending (a block that is exactly full stays open until the *)
(* next byte or Close arrives).                                             *)
(*                                                                          *)
(* Lemma checked here (BlockSplit): in every state reached after Close the  *)
(* list of block sizes equals the declarative NBlocks/BlockUSize of         *)
(* XzFormat - the formula XzObs judges every emitted file with (C01, C02).  *)
(* So the formula is not an independent guess: it is what the loop yields.  *)
(* Further: Conservation (nothing lost or duplicated between p and blocks), *)
(* OnlyLastShort, NoEmptyBlockUnlessEmptyStream, ClosedIsFinal, and         *)
(* termination of every call (liveness under WF).                           *)
EXTENDS XzFormat
CONSTANTS BlockSize,    \* WriterConfig.BlockSize (> 0)
          MaxTotal,     \* bound on the bytes written in the model
          WriteSizes    \* lengths offered to Write

VARIABLES pc,      \* "idle" | "fill" | "roll" | "newblk" | "index" | "footer" | "done"
          rem,     \* bytes of the current Write still to be taken
          cur,     \* bytes in the open block
          sizes,   \* sizes of the closed blocks, in order
          total,   \* bytes accepted by returned Write calls
          open,    \* a block writer with a written header exists
          closed,  \* w.closed
          tail,    \* 0 none, 1 index written, 2 footer written
          last     \* result of the last finished call: "ok" | "closed" | "none"
vars == <<pc, rem, cur, sizes, total, open, closed, tail, last>>

RECURSIVE Sum(_)
Sum(s) == IF s = <<>> THEN 0 ELSE Head(s) + Sum(Tail(s))

Init == /\ pc = "idle" /\ rem = 0 /\ cur = 0 /\ sizes = <<>> /\ total = 0
        /\ open = TRUE /\ closed = FALSE /\ tail = 0 /\ last = "none"

(* ---- Write ---- *)
BeginWrite(n) == /\ pc = "idle" /\ ~closed /\ total + n <= MaxTotal
                 /\ pc' = "fill" /\ rem' = n
                 /\ UNCHANGED <<cur, sizes, total, open, closed, tail, last>>
WriteAfterClose == /\ pc = "idle" /\ closed /\ last' = "closed"
                   /\ UNCHANGED <<pc, rem, cur, sizes, total, open, closed, tail>>
(* bw.Write: take what fits; errNoSpace iff more was offered *)
Fill == /\ pc = "fill" /\ open
        /\ LET k == MinOf(rem, BlockSize - cur) IN
             /\ cur' = cur + k /\ rem' = rem - k /\ total' = total + k
             /\ IF rem > BlockSize - cur THEN pc' = "roll" /\ last' = last
                                         ELSE pc' = "idle" /\ last' = "ok"
        /\ UNCHANGED <<sizes, open, closed, tail>>
(* closeBlockWriter: padding, check, index record *)
Roll == /\ pc = "roll"
        /\ sizes' = Append(sizes, cur) /\ cur' = 0 /\ open' = FALSE /\ pc' = "newblk"
        /\ UNCHANGED <<rem, total, closed, tail, last>>
(* newBlockWriter: header first, then w.bw = bw *)
NewBlk == /\ pc = "newblk" /\ open' = TRUE /\ pc' = "fill"
          /\ UNCHANGED <<rem, cur, sizes, total, closed, tail, last>>

(* ---- Close ---- *)
BeginClose == /\ pc = "idle" /\ ~closed /\ closed' = TRUE
              /\ sizes' = Append(sizes, cur) /\ cur' = 0 /\ open' = FALSE /\ pc' = "index"
              /\ UNCHANGED <<rem, total, tail, last>>
CloseAfterClose == /\ pc = "idle" /\ closed /\ tail = 2 /\ last' = "closed"
                   /\ UNCHANGED <<pc, rem, cur, sizes, total, open, closed, tail>>
Index == /\ pc = "index" /\ tail' = 1 /\ pc' = "footer"
         /\ UNCHANGED <<rem, cur, sizes, total, open, closed, last>>
Footer == /\ pc = "footer" /\ tail' = 2 /\ pc' = "idle" /\ last' = "ok"
          /\ UNCHANGED <<rem, cur, sizes, total, open, closed>>

Next == \/ \E n \in WriteSizes : BeginWrite(n)
        \/ WriteAfterClose \/ Fill \/ Roll \/ NewBlk
        \/ BeginClose \/ CloseAfterClose \/ Index \/ Footer
Spec == Init /\ [][Next]_vars /\ WF_vars(Fill \/ Roll \/ NewBlk \/ Index \/ Footer)

(* ---- properties ---- *)
TypeOK == /\ pc \in {"idle", "fill", "roll", "newblk", "index", "footer"}
          /\ rem \in 0..MaxTotal /\ cur \in 0..BlockSize /\ total \in 0..MaxTotal
          /\ tail \in 0..2 /\ open \in BOOLEAN /\ closed \in BOOLEAN
Conservation == Sum(sizes) + cur = total
OnlyLastShort == \A i \in 1..Len(sizes) : (i < Len(sizes) \/ ~closed) => sizes[i] = BlockSize
NoEmptyBlockUnlessEmptyStream == \A i \in 1..Len(sizes) : sizes[i] = 0 => (total = 0 /\ Len(sizes) = 1)
HeaderBeforeData == pc = "fill" => open          \* the C09 repair: never write into a block without header
BlockSplit == closed =>
                 /\ Len(sizes) = NBlocks(total, BlockSize)
                 /\ \A i \in 1..Len(sizes) : sizes[i] = BlockUSize(total, BlockSize, i)
(* while open: closed blocks are exactly the full blocks strictly before the last byte *)
LazyRoll == (~closed /\ pc = "idle") =>
               Len(sizes) = (IF total = 0 THEN 0 ELSE NBlocks(total, BlockSize) - 1)
ClosedIsFinal == [][closed => sizes' = sizes /\ total' = total /\ closed']_vars
TailOrder == [][tail' >= tail /\ (tail' > 0 => closed')]_vars
CallsEnd == [](pc # "idle" => <>(pc = "idle"))
=============================================================================
