SPECIFICATION Spec
CONSTANT Kind = "lzma2"
CHECK_DEADLOCK FALSE
