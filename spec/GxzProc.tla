------------------------------- MODULE GxzProc -------------------------------
(* Part 2 of M7a: the intended gxz process, step by step, with a crash       *)
(* possible after every step and every step allowed to fail.  Every step is  *)
(* an action of the GxzFs safety automaton; TLC checks the data-safety       *)
(* invariants in every reachable state of every scenario and termination.    *)
EXTENDS GxzFs

(*---------------------- 2. the intended gxz process ----------------------*)
VARIABLES pc, failed   \* failed: some step of the run failed (for the exit status)
pvars == <<fs, tmpOpen, tmpDone, broken, renamed, tmpStuck, exit, pc, failed>>
PInit == SInit /\ pc = "openIn" /\ failed = FALSE
Go(to) == pc' = to /\ UNCHANGED failed
Fail(to) == pc' = to /\ failed' = TRUE

POpenIn   == pc = "openIn" /\ UNCHANGED svars /\ (Go("checkTgt") \/ Fail("exit"))       \* lstat/open/fstat of IN
PCheckTgt == pc = "checkTgt" /\ UNCHANGED svars /\
             IF Stdout THEN Go("copyOut")
             ELSE IF Alias \/ (fs[T] # "absent" /\ ~Force) THEN Fail("exit") ELSE Go("createTmp")
PCopyOut  == pc = "copyOut" /\ IF InputOk THEN UNCHANGED svars /\ (Go("exit") \/ Fail("exit"))
                                           ELSE InputFails /\ Fail("exit")
PCreateTmp == pc = "createTmp" /\ ((CreateTmp(TRUE) /\ Go("copy")) \/ (CreateTmp(FALSE) /\ Fail("exit")))
PCopy     == pc = "copy" /\ \/ (InputOk /\ WriteTmp(TRUE) /\ Go("copy"))
                            \/ (InputOk /\ WriteTmp(TRUE) /\ Go("closeTmp"))
                            \/ (WriteTmp(FALSE) /\ Fail("cleanClose"))
                            \/ (~InputOk /\ InputFails /\ Fail("cleanClose"))
PCloseTmp == pc = "closeTmp" /\ ((CloseTmp(TRUE, TRUE) /\ Go("rename")) \/ (CloseTmp(FALSE, TRUE) /\ Fail("cleanUnlink")))
PRename   == pc = "rename" /\ ((Rename(TRUE) /\ Go("unlinkIn")) \/ (Rename(FALSE) /\ Fail("cleanUnlink")))
PUnlinkIn == pc = "unlinkIn" /\ IF Keep THEN UNCHANGED svars /\ Go("exit")
                                ELSE (UnlinkIn(TRUE) /\ Go("exit")) \/ (UnlinkIn(FALSE) /\ Fail("exit"))
PCleanClose  == pc = "cleanClose" /\ (CloseTmp(TRUE, FALSE) \/ CloseTmp(FALSE, FALSE)) /\ Go("cleanUnlink")
PCleanUnlink == pc = "cleanUnlink" /\ ((UnlinkTmp(TRUE) /\ Go("exit")) \/ (UnlinkTmp(FALSE) /\ Fail("exit")))
PExit     == pc = "exit" /\ Exit(IF failed THEN 1 ELSE 0) /\ Go("done")
(* SIGINT / SIGPIPE.  gxz handles them only while it copies: the handler removes the temporary  *)
(* file (there is none when the output goes to standard output) and exits with status 7.  At    *)
(* any other moment the signal simply ends the process - that is Crash.                         *)
PInterrupt    == pc = "copy" /\ (UnlinkOpenTmp(TRUE) \/ UnlinkOpenTmp(FALSE)) /\ Fail("exit7")
PInterruptOut == pc = "copyOut" /\ UNCHANGED svars /\ Fail("exit7")
PExit7        == pc = "exit7" /\ Exit(7) /\ Go("done")
Crash     == pc \notin {"done", "dead"} /\ pc' = "dead" /\ UNCHANGED <<fs, tmpOpen, tmpDone, broken, renamed, tmpStuck, exit, failed>>

PNext == POpenIn \/ PCheckTgt \/ PCopyOut \/ PCreateTmp \/ PCopy \/ PCloseTmp \/ PRename \/ PUnlinkIn
         \/ PCleanClose \/ PCleanUnlink \/ PExit \/ Crash \/ PInterrupt \/ PInterruptOut \/ PExit7
PSpec == PInit /\ [][PNext /\ UNCHANGED cfg]_<<pvars, cfg>> /\ WF_<<pvars, cfg>>(PNext /\ UNCHANGED cfg)
Terminates == <>(pc \in {"done", "dead"})
=============================================================================
