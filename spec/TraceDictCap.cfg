SPECIFICATION Spec
CONSTANTS MaxU = 4
          BoundaryOnly = TRUE
CHECK_DEADLOCK FALSE
