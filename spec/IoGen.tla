-------------------------------- MODULE IoGen --------------------------------
(* Generators for C13 and C09: all Read-length schedules of a given length   *)
(* over a small alphabet, and all fault plans (index, once/forever, accepted).*)
(* Also an exhaustive design check of IoContract.ReadSchedule: whatever a     *)
(* contract-abiding reader answers, the delivered bytes are a prefix of the   *)
(* content and EOF implies completeness.                                      *)
EXTENDS IoContract, Json
CONSTANTS Lens, SchedLen, MaxK, N0
VARIABLES sched, phase
gvars == <<sched, phase, n, cursor, ended, sinkFailed, anyErr, panicked, done>>
GInit == sched = <<>> /\ phase = "sched" /\ n = N0 /\ cursor = 0 /\ ended = FALSE /\ FInitF
(* schedule generation with a contract-abiding nondeterministic reader *)
GRead == /\ phase = "sched" /\ Len(sched) < SchedLen
         /\ \E k \in Lens, got \in 0..3, e \in {"nil", "eof"} :
              /\ Read(k, got, e, TRUE)
              /\ sched' = Append(sched, k)
         /\ UNCHANGED <<phase, sinkFailed, anyErr, panicked, done>>
GNext == GRead
GSpec == GInit /\ [][GNext]_gvars
EmitSched == Len(sched) = SchedLen => PrintT(ToJson([kind |-> "sched", ks |-> sched]))
(* the failing Write reports its error together with none, half or all of the bytes accepted *)
Plans == { [k |-> k, forever |-> f, partial |-> (a = "half"), full |-> (a = "all")] : k \in 1..MaxK, f \in BOOLEAN, a \in {"none", "half", "all"} }
ASSUME PrintT(ToJson([kind |-> "plans", plans |-> Plans]))
=============================================================================
