SPECIFICATION ASpec
CONSTANTS Sizes <- SizesDef
          WriteLens <- WriteLensDef
          MaxCalls = 3
INVARIANTS NeverMoreThanSize HeaderTruthful
CHECK_DEADLOCK FALSE
