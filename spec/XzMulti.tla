------------------------------ MODULE XzMulti -------------------------------
(* Multi-stream .xz files (C12): optional leading padding, a list of valid  *)
(* streams from a catalogue each followed by zero padding, optional         *)
(* trailing garbage.  Generation mode: every file shape within the bounds   *)
(* is printed with what a correct reader must do, in normal mode and with   *)
(* SingleStream.                                                            *)
EXTENDS XzFormat, Json
CONSTANTS Catalog,   \* stream ids
          Pads,      \* padding lengths to try after each stream
          P0s,       \* leading padding lengths
          MaxList
VARIABLES p0, list, garbage, done
mvars == <<p0, list, garbage, done>>
Init == p0 \in P0s /\ list = <<>> /\ garbage = FALSE /\ done = FALSE
Add(s, k) == /\ ~done /\ Len(list) < MaxList
             /\ list' = Append(list, [s |-> s, pad |-> k]) /\ UNCHANGED <<p0, garbage, done>>
Finish(g) == /\ ~done /\ Len(list) >= 1 /\ done' = TRUE /\ garbage' = g /\ UNCHANGED <<p0, list>>
Next == (\E s \in Catalog, k \in Pads : Add(s, k)) \/ (\E g \in BOOLEAN : Finish(g))
Spec == Init /\ [][Next]_mvars

BadPads == { i \in 1..Len(list) : list[i].pad % 4 # 0 }
FirstBad == IF BadPads = {} THEN 0 ELSE CHOOSE i \in BadPads : \A j \in BadPads : i <= j
Ok == p0 = 0 /\ FirstBad = 0 /\ ~garbage
(* number of leading streams whose content may have been delivered before the error *)
Deliver == IF p0 # 0 THEN 0 ELSE IF FirstBad # 0 THEN FirstBad ELSE Len(list)
SingleOk == p0 = 0 /\ Len(list) = 1 /\ list[1].pad = 0 /\ ~garbage

(* Consistency with the container acceptor: every catalogue stream is valid. *)
Sample == Strm(1, <<Blk(30, 100, FALSE, FALSE, 0, 50)>>)
AgreesWithFormat == done => (Ok <=> ValidFile(p0, [i \in 1..Len(list) |-> Sample], [i \in 1..Len(list) |-> list[i].pad], garbage))
Emit == done => PrintT(ToJson([p0 |-> p0, list |-> list, garbage |-> garbage, ok |-> Ok, deliver |-> Deliver, singleOk |-> SingleOk]))
=============================================================================
