------------------------------ MODULE XzFormat ------------------------------
(***************************************************************************)
(* M3: the .xz container (xz-file-format-1.0.4), restricted to the LZMA2   *)
(* filter and the checks None / CRC32 / CRC64 / SHA-256.                   *)
(*                                                                         *)
(* A file is described by a *layout*: the numeric value of every field,    *)
(* plus, for fields whose content is bytes (magic, CRC-32, check, padding, *)
(* the LZMA2 payload), a verdict bit computed by the independent reference *)
(* parser ("magicOk", "crcOk", "zero", "checkOk", "l2Ok").  The module     *)
(* defines what a correct reader must accept (the Valid... predicates), the arithmetic the  *)
(* writer must get right (UvarintLen, PadLen, Unpadded, IndexSize ...),    *)
(* and multi-stream files (ValidFile).                                     *)
(*                                                                         *)
(* Layout records                                                          *)
(*  block  = [sizeByte, resv, nfilters, csizeF, usizeF, filterId, propLen, *)
(*            dictCode, hpadZero, hcrcOk, csize, usize, padLen, padZero,   *)
(*            checkOk, l2Ok, maxDist]     (csizeF/usizeF = -1: absent)     *)
(*  stream = [magicOk, hflag0, check, hcrcOk, blocks, indicator, count,    *)
(*            recs, ipadLen, ipadZero, icrcOk, backward, fflag0, fcheck,   *)
(*            fcrcOk, fmagicOk]                                            *)
(***************************************************************************)
EXTENDS Integers, Sequences, SequencesExt, FiniteSets, TLC

MaxOf(a, b) == IF a > b THEN a ELSE b
MinOf(a, b) == IF a < b THEN a ELSE b

(* Length of the xz variable-length integer encoding of x (x < 2^31 here). *)
UvarintLen(x) == IF x < 128 THEN 1
                 ELSE IF x < 16384 THEN 2
                 ELSE IF x < 2097152 THEN 3
                 ELSE IF x < 268435456 THEN 4 ELSE 5

PadLen(n) == (4 - (n % 4)) % 4

SupportedChecks == {0, 1, 4, 10}
CheckLen(id) == IF id = 0 THEN 0
                ELSE IF id <= 3 THEN 4
                ELSE IF id <= 6 THEN 8
                ELSE IF id <= 9 THEN 16
                ELSE IF id <= 12 THEN 32 ELSE 64

(* Dictionary size of code c in KiB-free form: bytes, exact for c <= 38;   *)
(* codes 39/40 exceed 2^31 and are represented by 2^31 - 1 (only compared  *)
(* with distances, which stay far below that in every model and trace).    *)
DictBytes(c) == IF c >= 39 THEN 2147483647
                ELSE (2 + (c % 2)) * (2 ^ ((c \div 2) + 11))

(* Length of a block header with the given optional fields (LZMA2 filter:  *)
(* id 0x21, one property byte): size byte, flags, fields, 3 filter bytes,  *)
(* padded to a multiple of four, CRC-32.                                   *)
BlockHeaderLen(csizeF, usizeF) ==
  LET raw == 2 + (IF csizeF >= 0 THEN UvarintLen(csizeF) ELSE 0)
               + (IF usizeF >= 0 THEN UvarintLen(usizeF) ELSE 0) + 3
  IN raw + PadLen(raw) + 4

HeaderLenOf(b) == (b.sizeByte + 1) * 4
Unpadded(b, check) == HeaderLenOf(b) + b.csize + CheckLen(check)

SumRecLen(recs) == FoldLeft(LAMBDA acc, r : acc + UvarintLen(r.unpadded) + UvarintLen(r.usize), 0, recs)
IndexBodyLen(count, recs) == 1 + UvarintLen(count) + SumRecLen(recs)
IndexSize(count, recs) == LET n == IndexBodyLen(count, recs) IN n + PadLen(n) + 4

(*------------------------------ the acceptor -----------------------------*)
ValidBlock(b, check) ==
  /\ b.sizeByte \in 1..255
  /\ b.hcrcOk
  /\ b.resv = 0
  /\ b.nfilters = 1
  /\ b.filterId = 33                       \* 0x21 = LZMA2
  /\ b.propLen = 1
  /\ b.dictCode \in 0..40
  /\ b.hpadZero
  /\ HeaderLenOf(b) >= BlockHeaderLen(b.csizeF, b.usizeF)   \* longer zero padding is allowed by the format text
  /\ (HeaderLenOf(b) - BlockHeaderLen(b.csizeF, b.usizeF)) % 4 = 0
  /\ b.l2Ok
  /\ b.maxDist <= DictBytes(b.dictCode)
  /\ (b.csizeF >= 0 => b.csizeF = b.csize /\ b.csizeF > 0)
  /\ (b.usizeF >= 0 => b.usizeF = b.usize)
  /\ b.padLen = PadLen(b.csize) /\ b.padZero
  /\ b.checkOk

ValidStream(s) ==
  /\ s.magicOk /\ s.hcrcOk
  /\ s.hflag0 = 0 /\ s.check \in SupportedChecks
  /\ \A i \in 1..Len(s.blocks) : ValidBlock(s.blocks[i], s.check)
  /\ s.indicator = 0
  /\ s.count = Len(s.blocks) /\ Len(s.recs) = s.count
  /\ \A i \in 1..Len(s.recs) :
        /\ s.recs[i].unpadded = Unpadded(s.blocks[i], s.check)
        /\ s.recs[i].usize = s.blocks[i].usize
  /\ s.ipadLen = PadLen(IndexBodyLen(s.count, s.recs)) /\ s.ipadZero
  /\ s.icrcOk
  /\ s.fcrcOk /\ s.fmagicOk
  /\ s.fflag0 = s.hflag0 /\ s.fcheck = s.check
  /\ s.backward = IndexSize(s.count, s.recs)

(* A file: leading padding p0, then streams each followed by padding.      *)
(* pads[i] is the number of zero bytes after stream i; garbage = TRUE if   *)
(* non-zero bytes that are not a stream header follow the last stream.     *)
ValidFile(p0, streams, pads, garbage) ==
  /\ p0 = 0
  /\ Len(streams) >= 1
  /\ \A i \in 1..Len(streams) : ValidStream(streams[i]) /\ pads[i] % 4 = 0
  /\ ~garbage

(*------------------- canonical layout constructors ----------------------*)
Blk(csize, usize, withC, withU, dict, maxDist) ==
  LET cf == IF withC THEN csize ELSE -1
      uf == IF withU THEN usize ELSE -1
  IN [sizeByte |-> (BlockHeaderLen(cf, uf) \div 4) - 1, resv |-> 0, nfilters |-> 1,
      csizeF |-> cf, usizeF |-> uf, filterId |-> 33, propLen |-> 1, dictCode |-> dict,
      hpadZero |-> TRUE, hcrcOk |-> TRUE, csize |-> csize, usize |-> usize,
      padLen |-> PadLen(csize), padZero |-> TRUE, checkOk |-> TRUE, l2Ok |-> TRUE, maxDist |-> maxDist]

Strm(check, blocks) ==
  LET recs == [i \in 1..Len(blocks) |-> [unpadded |-> Unpadded(blocks[i], check), usize |-> blocks[i].usize]]
  IN [magicOk |-> TRUE, hflag0 |-> 0, check |-> check, hcrcOk |-> TRUE, blocks |-> blocks,
      indicator |-> 0, count |-> Len(blocks), recs |-> recs,
      ipadLen |-> PadLen(IndexBodyLen(Len(blocks), recs)), ipadZero |-> TRUE, icrcOk |-> TRUE,
      backward |-> IndexSize(Len(blocks), recs), fflag0 |-> 0, fcheck |-> check, fcrcOk |-> TRUE, fmagicOk |-> TRUE]

(*-------------------- what the writer is obliged to emit -----------------*)
(* Given the configuration (blockSize, check, dictCode) and n bytes of     *)
(* input, the writer emits ceil(n / blockSize) blocks (one empty block for *)
(* n = 0), each a valid block, truthful index and footer.                  *)
NBlocks(n, blockSize) == IF n <= blockSize THEN 1 ELSE ((n - 1) \div blockSize) + 1
BlockUSize(n, blockSize, i) == IF i < NBlocks(n, blockSize) THEN blockSize
                               ELSE n - (NBlocks(n, blockSize) - 1) * blockSize

(* The shape of the block header is the writer's choice: optional size fields (truthful, as      *)
(* ValidBlock demands) and extra zero padding are legal, and a declared dictionary larger than   *)
(* necessary harms neither C01 nor C02 (minimality of the code is C18's statement).              *)
WriterBlockOk(b, check, dictCode, usize) ==
  /\ ValidBlock(b, check)
  /\ b.dictCode >= dictCode
  /\ b.usize = usize

WriterStreamOk(s, n, blockSize, check, dictCode) ==
  /\ ValidStream(s)
  /\ s.check = check
  /\ Len(s.blocks) = NBlocks(n, blockSize)
  /\ \A i \in 1..Len(s.blocks) :
       WriterBlockOk(s.blocks[i], check, dictCode, BlockUSize(n, blockSize, i))
=============================================================================
