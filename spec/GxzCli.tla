-------------------------------- MODULE GxzCli -------------------------------
(***************************************************************************)
(* M7b: the command-line semantics of gxz (C15): which options an          *)
(* invocation carries, how they may be written (bundled short options,     *)
(* long options, -F x / --format x / --format=x, options after operands,   *)
(* "--"), and what must happen to each file operand independently of the   *)
(* others.  Warning texts, -q/-v output and terminal handling are left     *)
(* open.  Generation mode builds an invocation step by step (exhaustive in *)
(* BFS for small alphabets, random walks with -simulate) and prints it     *)
(* with the predicted outcome per file and the exit status.                *)
(***************************************************************************)
EXTENDS Integers, Sequences, FiniteSets, TLC, Json

CONSTANTS Ops,        \* subset of {"none", "z", "d"}
          FlagPool,   \* subset of {"k", "c", "f", "q", "v"}
          Fmts,       \* subset of {"none", "xz", "lzma", "alone", "auto"}
          Forms,      \* subset of {"short", "long", "eq"} : -F x | --format x | --format=x
          Presets,    \* subset of {"none", "0", "6", "9"}
          Layouts,    \* subset of {"first", "last", "mixed", "ddash"}
          Names,      \* subset of {"plain", "space", "dash", "num", "xz", "lzma", "txz", "tlz", "other"}
          Contents,   \* subset of {"text", "empty", "xzdata", "lzmadata", "garbage"}
          MaxFiles

VARIABLES op, flags, fmt, form, preset, layout, bundle, files, phase
cvars == <<op, flags, fmt, form, preset, layout, bundle, files, phase>>

Init == /\ op = "none" /\ flags = {} /\ fmt = "none" /\ form = "short" /\ preset = "none"
        /\ layout = "first" /\ bundle = FALSE /\ files = <<>> /\ phase = "op"

ChooseOp == /\ phase = "op" /\ op' \in Ops /\ phase' = "flags"
            /\ UNCHANGED <<flags, fmt, form, preset, layout, bundle, files>>
ChooseFlags == /\ phase = "flags" /\ flags' \in SUBSET FlagPool /\ bundle' \in BOOLEAN /\ phase' = "fmt"
               /\ UNCHANGED <<op, fmt, form, preset, layout, files>>
ChooseFmt == /\ phase = "fmt" /\ fmt' \in Fmts /\ form' \in Forms /\ preset' \in Presets /\ phase' = "files"
             /\ (fmt' = "none" => form' = "short")
             /\ UNCHANGED <<op, flags, layout, bundle, files>>
(* content classes that make sense for a name in the chosen direction *)
AddFile == /\ phase = "files" /\ Len(files) < MaxFiles
           /\ \E nm \in Names, ct \in Contents, pre \in BOOLEAN, mode \in {"644", "600", "444"} :
                /\ (op # "d" => ct \in {"text", "empty", "garbage"})
                /\ files' = Append(files, [name |-> nm, content |-> ct, pre |-> pre, mode |-> mode])
           /\ UNCHANGED <<op, flags, fmt, form, preset, layout, bundle, phase>>
HasDash == \E i \in 1..Len(files) : files[i].name = "dash"
Finish == /\ phase = "files" /\ Len(files) >= 1
          /\ layout' \in Layouts
          /\ (HasDash => layout' = "ddash")       \* a name starting with '-' is an operand only after "--"
          /\ phase' = "done"
          /\ UNCHANGED <<op, flags, fmt, form, preset, bundle, files>>
Next == ChooseOp \/ ChooseFlags \/ ChooseFmt \/ AddFile \/ Finish
Spec == Init /\ [][Next]_cvars

(*------------------------------ semantics --------------------------------*)
Decompress == op = "d"
CompressFormat == IF fmt \in {"lzma", "alone"} THEN "lzma" ELSE "xz"
ContentFormat(ct) == IF ct = "xzdata" THEN "xz" ELSE IF ct = "lzmadata" THEN "lzma" ELSE "none"
(* format used to decompress a file: forced, or detected from its content *)
DecFormat(f) == IF fmt \in {"none", "auto"} THEN ContentFormat(f.content)
                ELSE IF ContentFormat(f.content) = (IF fmt = "alone" THEN "lzma" ELSE fmt) THEN ContentFormat(f.content) ELSE "none"
Stdout == "c" \in flags
KeepInput == "k" \in flags \/ Stdout
Force == "f" \in flags
HasSuffixOf(nm, F) == (F = "xz" /\ nm \in {"xz", "txz"}) \/ (F = "lzma" /\ nm \in {"lzma", "tlz"})

(* target kind: "append" (name + .xz/.lzma), "strip" (suffix removed), "tar" (.txz/.tlz -> .tar), "none" *)
Outcome(f) ==
  IF ~Decompress
  THEN LET F == CompressFormat IN
       IF Stdout THEN [ok |-> TRUE, fmt |-> F, target |-> "stdout", removeInput |-> FALSE]
       ELSE IF HasSuffixOf(f.name, F) THEN [ok |-> FALSE, fmt |-> F, target |-> "none", removeInput |-> FALSE]
       ELSE IF f.pre /\ ~Force THEN [ok |-> FALSE, fmt |-> F, target |-> "append", removeInput |-> FALSE]
       ELSE [ok |-> TRUE, fmt |-> F, target |-> "append", removeInput |-> ~KeepInput]
  ELSE LET F == DecFormat(f) IN
       IF F = "none" THEN [ok |-> FALSE, fmt |-> F, target |-> "none", removeInput |-> FALSE]
       ELSE IF Stdout THEN [ok |-> TRUE, fmt |-> F, target |-> "stdout", removeInput |-> FALSE]
       ELSE IF ~HasSuffixOf(f.name, F) THEN [ok |-> FALSE, fmt |-> F, target |-> "none", removeInput |-> FALSE]
       ELSE LET t == IF f.name \in {"txz", "tlz"} THEN "tar" ELSE "strip" IN
            IF f.pre /\ ~Force THEN [ok |-> FALSE, fmt |-> F, target |-> t, removeInput |-> FALSE]
            ELSE [ok |-> TRUE, fmt |-> F, target |-> t, removeInput |-> ~KeepInput]

Outcomes == [i \in 1..Len(files) |-> Outcome(files[i])]
ExitStatus == IF \E i \in 1..Len(files) : ~Outcomes[i].ok THEN 1 ELSE 0

(* files are processed independently: the outcome of a file does not depend on the others *)
Independent == phase = "done" => \A i \in 1..Len(files) : Outcomes[i] = Outcome(files[i])
NeverRemoveWithoutTarget == phase = "done" => \A i \in 1..Len(files) :
                              Outcomes[i].removeInput => Outcomes[i].ok /\ Outcomes[i].target \in {"append", "strip", "tar"}
Emit == phase = "done" =>
          PrintT(ToJson([op |-> op, flags |-> flags, fmt |-> fmt, form |-> form, preset |-> preset, layout |-> layout,
                         bundle |-> bundle, files |-> files, outcomes |-> Outcomes, exit |-> ExitStatus]))
=============================================================================
