-------------------------------- MODULE Conc ---------------------------------
(* M8: independent reader/writer instances used concurrently (C14).  Each    *)
(* instance is a fixed sequence of public calls; steps of different          *)
(* instances interleave arbitrarily.  The specification has no variable      *)
(* shared between instances, so every instance's result equals its           *)
(* sequential result in every behaviour (Independent); TLC's job is to       *)
(* enumerate all interleavings at public-call granularity, which the driver  *)
(* then forces on the real code.                                             *)
EXTENDS Integers, Sequences, TLC, Json
CONSTANTS Lens          \* Lens[i] = number of calls of instance i
N == Len(Lens)
VARIABLES pc,           \* pc[i] = calls of instance i done so far
          sched,        \* the interleaving: sequence of instance ids
          result        \* result[i] = abstract result of instance i: sequence of its own call indices
cvars == <<pc, sched, result>>
Init == pc = [i \in 1..N |-> 0] /\ sched = <<>> /\ result = [i \in 1..N |-> <<>>]
Step(i) == /\ pc[i] < Lens[i]
           /\ pc' = [pc EXCEPT ![i] = pc[i] + 1]
           /\ sched' = Append(sched, i)
           /\ result' = [result EXCEPT ![i] = Append(result[i], pc[i] + 1)]   \* depends on instance i only
Next == \E i \in 1..N : Step(i)
Spec == Init /\ [][Next]_cvars
Done == \A i \in 1..N : pc[i] = Lens[i]
Sequential(i) == [k \in 1..Lens[i] |-> k]
Independent == Done => \A i \in 1..N : result[i] = Sequential(i)
PrefixIndependent == \A i \in 1..N : result[i] = SubSeq(Sequential(i), 1, pc[i])
Emit == Done => PrintT(ToJson([kind |-> "sched", s |-> sched]))
=============================================================================
