SPECIFICATION Spec
CONSTANTS Catalog = {1, 2, 3}
          Pads = {0, 1, 3, 4, 5, 8}
          P0s = {0, 4}
          MaxList = 2
INVARIANTS AgreesWithFormat
CHECK_DEADLOCK FALSE
