------------------------- MODULE TraceLzma2Writer --------------------------
(* Validates recorded Writer2 call histories (real code) against the        *)
(* Lzma2Writer life cycle: each logged public call is the composition       *)
(* Begin* . EmitChunk^k . End* of the module's actions, with the chunk list  *)
(* parsed from the bytes the call appended to the sink by the independent    *)
(* reference parser.  Many cases are concatenated, separated by "Reset".     *)
EXTENDS Lzma2, Json, TLCExt
Tr == ndJsonDeserialize("trace.ndjson")

VARIABLES l, total, emitted, closed, wf
vars == <<l, total, emitted, closed, wf>>

(* Fold the chunk list through the format rules; ok = FALSE if any is illegal. *)
RECURSIVE Fold(_, _, _)
Fold(st, cs, i) ==
  IF i > Len(cs) THEN [ok |-> TRUE, st |-> st]
  ELSE LET k == cs[i].k IN
       IF k \in Kinds /\ FmtOk(st, k) /\ SizesOk(k, cs[i].u, cs[i].c)
       THEN Fold(FmtNext(st, k), cs, i + 1) ELSE [ok |-> FALSE, st |-> st]
RECURSIVE SumU(_, _)
SumU(cs, i) == IF i > Len(cs) THEN 0 ELSE cs[i].u + SumU(cs, i + 1)

Init == l = 1 /\ total = 0 /\ emitted = 0 /\ closed = FALSE /\ wf = FInit
E == Tr[l]
Is(ev) == l <= Len(Tr) /\ E.ev = ev /\ l' = l + 1

TReset == Is("Reset") /\ total' = 0 /\ emitted' = 0 /\ closed' = FALSE /\ wf' = FInit

AfterClose == /\ closed /\ E.err = "closed" /\ Len(E.chunks) = 0 /\ E.delta = 0
              /\ UNCHANGED <<total, emitted, closed, wf>>

TWrite == /\ Is("Write")
          /\ \/ AfterClose /\ E.ret = 0
             \/ /\ ~closed /\ E.err = "nil" /\ E.ret = E.n
                /\ LET st == Fold(wf, E.chunks, 1) IN
                     /\ st.ok /\ ~st.st.en
                     /\ wf' = st.st
                     /\ total' = total + E.n
                     /\ emitted' = emitted + SumU(E.chunks, 1)
                     /\ emitted' <= total'             \* NeverAhead
                /\ UNCHANGED closed

TFlush == /\ Is("Flush")
          /\ \/ AfterClose
             \/ /\ ~closed /\ E.err = "nil"
                /\ LET st == Fold(wf, E.chunks, 1) IN
                     /\ st.ok /\ ~st.st.en
                     /\ wf' = st.st
                     /\ emitted' = emitted + SumU(E.chunks, 1)
                     /\ emitted' = total                \* EndFlush guard
                /\ (emitted = total => Len(E.chunks) = 0 /\ E.delta = 0)  \* FlushNoop
                /\ UNCHANGED <<total, closed>>

TClose == /\ Is("Close")
          /\ \/ AfterClose
             \/ /\ ~closed /\ E.err = "nil"
                /\ Len(E.chunks) >= 1 /\ E.chunks[Len(E.chunks)].k = "EOS"
                /\ LET st == Fold(wf, E.chunks, 1) IN
                     /\ st.ok /\ st.st.en
                     /\ wf' = st.st
                     /\ emitted' = emitted + SumU(E.chunks, 1)
                     /\ emitted' = total                \* EndClose guard
                /\ closed' = TRUE /\ UNCHANGED total

Next == TReset \/ TWrite \/ TFlush \/ TClose
Spec == Init /\ [][Next]_vars

NeverAhead == emitted <= total
ClosedComplete == closed => emitted = total /\ wf.en
(* Acceptance: every line consumed (one state per line + the initial one). *)
Accepted == /\ PrintT(ToJson([kind |-> "depth", depth |-> TLCGet("stats").diameter, len |-> Len(Tr)]))
            /\ TLCGet("stats").diameter = Len(Tr) + 1
=============================================================================
