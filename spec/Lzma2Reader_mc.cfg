SPECIFICATION RSpec
CONSTANTS Alphabet = {0, 1, 2, 3, 127, 128, 160, 192, 224}
          MaxLen = 5
          LastAny = FALSE
INVARIANTS Equiv StateMap DefaultLegal FirstMustResetDict
CHECK_DEADLOCK FALSE
