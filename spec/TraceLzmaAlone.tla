--------------------------- MODULE TraceLzmaAlone ---------------------------
(* Recorded lzma.Writer runs (real code) validated against LzmaAlone: each   *)
(* logged call must be the module's Write/Close with the logged result, the  *)
(* 13 header bytes (abstracted by the reference parser) must be what the     *)
(* contract prescribes, and the stream's termination mode must match.        *)
(*  {"ev":"New","sih":b,"size":n,"eos":b,"lc":..,"lp":..,"pb":..,"dictCap":d,"ok":b,                *)
(*   "hdr":b,"hProp":code,"hDict":d,"hSize":n|-1}                                                       *)
(*  {"ev":"W","n":k,"ret":r,"err":"nil|nospace|other"}  {"ev":"C","err":"nil|size|other"}           *)
(*  {"ev":"End","marker":b,"decoded":n}   what the reference decoder found in the sink            *)
EXTENDS LzmaAlone, TLCExt
Tr == ndJsonDeserialize("trace.ndjson")
VARIABLES l
vars == <<l, sih, size, eos, accepted, closed, hist>>
Init == l = 1 /\ sih = FALSE /\ size = 0 /\ eos = TRUE /\ accepted = 0 /\ closed = "no" /\ hist = <<>>
E == Tr[l]
Is(ev) == l <= Len(Tr) /\ E.ev = ev /\ l' = l + 1
TNew == /\ Is("New")
        /\ E.ok = (ConfigValid(E.sih, E.size, E.eos) /\ ValidProps(E.lc, E.lp, E.pb))
        \* "hdr" = the 13 header bytes have reached the sink (a writer in front of a plain io.Writer may
        \* hold them back until a successful Close); the dictionary size stated must cover the capacity
        /\ (E.ok /\ E.hdr) => /\ E.hProp = PropCode(E.lc, E.lp, E.pb)
                              /\ E.hDict >= E.dictCap
                              /\ E.hSize = HeaderSize(E.sih, E.size)
        /\ sih' = E.sih /\ size' = E.size /\ eos' = E.eos /\ accepted' = 0 /\ closed' = "no" /\ hist' = <<>>
TWrite == /\ Is("W") /\ Write(E.n)
          /\ hist'[Len(hist')].ret = E.ret /\ hist'[Len(hist')].err = E.err
TClose == /\ Is("C") /\ Close
          /\ hist'[Len(hist')].err = E.err
TEnd == /\ Is("End") /\ closed = "ok"
        /\ E.marker = Marker(sih, size, eos)
        /\ E.decoded = accepted
        /\ UNCHANGED <<sih, size, eos, accepted, closed, hist>>
Next == TNew \/ TWrite \/ TClose \/ TEnd
Spec == Init /\ [][Next]_vars
Accepted == /\ PrintT(ToJson([kind |-> "depth", depth |-> TLCGet("stats").diameter, len |-> Len(Tr)]))
            /\ TLCGet("stats").diameter = Len(Tr) + 1
=============================================================================
