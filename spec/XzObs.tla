------------------------------- MODULE XzObs -------------------------------
(* Observations of real .xz files, abstracted to layouts by the reference  *)
(* parser, judged by the XzFormat acceptor and the writer obligations.     *)
(* obs.ndjson lines:                                                       *)
(*  {"kind":"writer","n":..,"blockSize":..,"check":..,"dictCode":..,"s":{stream layout}} *)
(*  {"kind":"valid","s":{stream layout}}      must satisfy ValidStream     *)
(*  {"kind":"invalid","s":{stream layout}}    must NOT satisfy ValidStream *)
EXTENDS XzFormat, Json
Obs == ndJsonDeserialize("obs.ndjson")
Ok(o) == CASE o.kind = "writer"  -> WriterStreamOk(o.s, o.n, o.blockSize, o.check, o.dictCode)
           [] o.kind = "valid"   -> ValidStream(o.s)
           [] o.kind = "invalid" -> ~ValidStream(o.s)
           [] OTHER -> FALSE
Bad == { i \in 1..Len(Obs) : ~Ok(Obs[i]) }
ASSUME PrintT(ToJson([kind |-> "obs", n |-> Len(Obs), bad |-> Bad]))
VARIABLE x
Spec == x = 0 /\ [][UNCHANGED x]_x
=============================================================================
