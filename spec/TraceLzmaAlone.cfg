SPECIFICATION Spec
CONSTANTS Sizes = {0}
          WriteLens = {0}
          MaxCalls = 1000000
INVARIANTS NeverMoreThanSize HeaderTruthful
POSTCONDITION Accepted
CHECK_DEADLOCK FALSE
