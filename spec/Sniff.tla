-------------------------------- MODULE Sniff --------------------------------
(***************************************************************************)
(* Header sniffing: xz.ValidHeader and lzma.ValidHeader, the two exported  *)
(* predicates gxz uses to detect the format of a file from its first bytes *)
(* (C15: "the format detected from each file's content").  A header is a   *)
(* record of field tokens; numbers that do not fit TLC's 32-bit integers   *)
(* are tokens with their relevant attributes stated in a table.            *)
(*                                                                         *)
(* .xz  (xz-file-format 2.1.1): 12 bytes = magic FD 37 7A 58 5A 00,        *)
(*   stream flags (first byte 0, second byte the check id; this reader     *)
(*   supports ids 0, 1, 4, 10), CRC-32 of the two flag bytes.              *)
(* .lzma (documented contract of lzma.ValidHeader): 13 bytes = properties  *)
(*   byte <= 224, dictionary size 2^n or 2^n+2^(n-1) with n >= 10 or       *)
(*   2^32-1, size "unknown" (all ones) or at most 2^38.                    *)
(***************************************************************************)
EXTENDS Integers, Sequences, TLC, Json

XzLens   == {0, 11, 12, 13}
XzChecks == {0, 1, 2, 3, 4, 5, 9, 10, 11, 15, 16, 255}
XzHeaders == [len : XzLens, magicOk : BOOLEAN, flag0 : {0, 1, 128}, check : XzChecks, crcOk : BOOLEAN]
ValidXz(h) == /\ h.len = 12 /\ h.magicOk /\ h.crcOk /\ h.flag0 = 0 /\ h.check \in {0, 1, 4, 10}

(* dictionary-size tokens: name |-> is it of the form 2^n (n>=10), 2^n+2^(n-1) (n>=10), or 2^32-1 *)
DictTable == [ d0 |-> FALSE, d1 |-> FALSE, d512 |-> FALSE, d768 |-> FALSE, d1023 |-> FALSE, d1024 |-> TRUE, d1025 |-> FALSE,
               d1536 |-> TRUE, d4096 |-> TRUE, d5000 |-> FALSE, d6144 |-> TRUE, d8MiB |-> TRUE, d12MiB |-> TRUE,
               d2p31 |-> TRUE, d2p31p30 |-> TRUE, d2p32m2 |-> FALSE, d2p32m1 |-> TRUE ]
(* size tokens: name |-> acceptable *)
SizeTable == [ unknown |-> TRUE, s0 |-> TRUE, s1 |-> TRUE, s2p38 |-> TRUE, s2p38p1 |-> FALSE, s2p62 |-> FALSE, s2p63 |-> FALSE, s2p64m2 |-> FALSE ]
LzmaLens == {0, 12, 13, 14}
LzmaProps == {0, 93, 135, 224, 225, 255}
LzmaHeaders == [len : LzmaLens, prop : LzmaProps, dict : DOMAIN DictTable, size : DOMAIN SizeTable]
ValidLzma(h) == /\ h.len = 13 /\ h.prop <= 224 /\ DictTable[h.dict] /\ SizeTable[h.size]

(* Design facts: the two predicates never both hold for the same first bytes (an .xz magic read *)
(* as .lzma header has properties byte 0xFD = 253 > 224), so detection is unambiguous.          *)
XzMagicAsLzmaProp == 253
ASSUME XzMagicAsLzmaProp > 224
(* every header the library's own writers produce is recognised: xz with the four supported checks; *)
(* .lzma with canonical dictionary sizes (gxz uses powers of two) and any size up to 2^38           *)
ASSUME \A ck \in {0, 1, 4, 10} : ValidXz([len |-> 12, magicOk |-> TRUE, flag0 |-> 0, check |-> ck, crcOk |-> TRUE])
ASSUME \A p \in {0, 93, 224}, d \in {"d4096", "d8MiB", "d2p31"}, s \in {"unknown", "s0", "s2p38"} :
         ValidLzma([len |-> 13, prop |-> p, dict |-> d, size |-> s])

ASSUME PrintT(ToJson([kind |-> "sniff",
                      xz |-> { [h |-> h, valid |-> ValidXz(h)] : h \in XzHeaders },
                      lzma |-> { [h |-> h, valid |-> ValidLzma(h)] : h \in LzmaHeaders } ]))
VARIABLE x
Spec == x = 0 /\ [][UNCHANGED x]_x
=============================================================================
