SPECIFICATION Spec
INVARIANTS PrefixDelivered EndedMeansAll
POSTCONDITION Accepted
CHECK_DEADLOCK FALSE
