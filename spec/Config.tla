-------------------------------- MODULE Config --------------------------------
(* Decision table of the configuration records: which values Verify accepts   *)
(* and which defaults replace zero values (xz.WriterConfig, lzma.Writer2Config, *)
(* lzma.WriterConfig, the three ReaderConfigs).  Values that do not fit TLC's  *)
(* integers are tokens: dictionary capacities are                             *)
(*   "0" (default) "1" "4095" "4096" "4097" "100000" (not sizes the LZMA2      *)
(*   header can express) "8MiB" "max" (2^32-1) "over" (2^32).                  *)
(* Reader records also carry SingleStream: Verify must not touch it.           *)
EXTENDS Integers, Sequences, TLC, Json

DictTokens == {"0", "1", "4095", "4096", "4097", "100000", "8MiB", "max", "over"}
DictFill(d) == IF d = "0" THEN "8MiB" ELSE d
DictOk(d) == DictFill(d) \in {"4096", "4097", "100000", "8MiB", "max"}

BufTokens == {0, 1, 272, 273, 4096}
BufFill(b) == IF b = 0 THEN 4096 ELSE b
BufOk(b) == BufFill(b) >= 273

(* props: NilProps = not set (defaults to 3,0,2) or <<lc, lp, pb>> *)
NilProps == <<-9, -9, -9>>
PropTokens == {NilProps} \cup {<<3, 0, 2>>, <<0, 0, 0>>, <<4, 0, 4>>, <<0, 4, 0>>, <<8, 0, 0>>, <<8, 4, 4>>, <<3, 2, 0>>, <<2, 2, 2>>,
                            <<9, 0, 0>>, <<0, 5, 0>>, <<0, 0, 5>>, <<-1, 0, 0>>}
PropFill(p) == IF p = NilProps THEN <<3, 0, 2>> ELSE p
PropRange(p) == LET q == PropFill(p) IN q[1] \in 0..8 /\ q[2] \in 0..4 /\ q[3] \in 0..4
PropLzma2(p) == PropRange(p) /\ PropFill(p)[1] + PropFill(p)[2] <= 4

MatcherTokens == {0, 1, 2}
MatcherOk(m) == m \in {0, 1}

(* xz: BlockSize tokens (-1, 0 = default "unlimited", 1, 4096), check ids, NoCheckSum *)
BlockTokens == {-1, 0, 1, 4096}
BlockOk(b) == b >= 0                   \* 0 is filled with the maximum
CheckTokens == {0, 1, 2, 3, 4, 10, 11}
CheckFill(ck, none) == IF none THEN 0 ELSE IF ck = 0 THEN 4 ELSE ck
CheckOk(ck, none) == CheckFill(ck, none) \in {0, 1, 4, 10}

XzWriterOk(c) == PropLzma2(c.props) /\ DictOk(c.dict) /\ BufOk(c.buf) /\ MatcherOk(c.matcher) /\ BlockOk(c.block) /\ CheckOk(c.check, c.none)
Writer2Ok(c) == PropLzma2(c.props) /\ DictOk(c.dict) /\ BufOk(c.buf) /\ MatcherOk(c.matcher)
(* classic LZMA: no lc+lp restriction; size rules as in LzmaAlone *)
AloneOk(c) == PropRange(c.props) /\ DictOk(c.dict) /\ BufOk(c.buf) /\ MatcherOk(c.matcher)
              /\ ((c.sih \/ c.size > 0) => c.size >= 0)
ReaderOk(d) == DictOk(d)

XzWriterCases == { [props |-> p, dict |-> d, buf |-> b, matcher |-> m, block |-> k, check |-> ck, none |-> n] :
                     p \in PropTokens, d \in DictTokens, b \in {0, 272, 273}, m \in {0, 2}, k \in BlockTokens, ck \in CheckTokens, n \in BOOLEAN }
Writer2Cases == { [props |-> p, dict |-> d, buf |-> b, matcher |-> m] : p \in PropTokens, d \in DictTokens, b \in BufTokens, m \in MatcherTokens }
AloneCases == { [props |-> p, dict |-> d, buf |-> b, matcher |-> m, sih |-> s, size |-> z] :
                  p \in PropTokens, d \in {"0", "4095", "4096", "over"}, b \in {0, 272, 273}, m \in {0, 2}, s \in BOOLEAN, z \in {-1, 0, 5} }

Table(kind) ==
  CASE kind = "xz" -> { [cfg |-> c, ok |-> XzWriterOk(c), dict |-> DictFill(c.dict), buf |-> BufFill(c.buf), props |-> PropFill(c.props), check |-> CheckFill(c.check, c.none)] : c \in XzWriterCases }
    [] kind = "lzma2" -> { [cfg |-> c, ok |-> Writer2Ok(c), dict |-> DictFill(c.dict), buf |-> BufFill(c.buf), props |-> PropFill(c.props), check |-> 0] : c \in Writer2Cases }
    [] kind = "lzma" -> { [cfg |-> c, ok |-> AloneOk(c), dict |-> DictFill(c.dict), buf |-> BufFill(c.buf), props |-> PropFill(c.props), check |-> 0] : c \in AloneCases }
    [] kind = "reader" -> { [cfg |-> [dict |-> d, single |-> sg], ok |-> ReaderOk(d), dict |-> DictFill(d), buf |-> 0, props |-> <<0, 0, 0>>, check |-> 0, single |-> sg] :
                              d \in DictTokens, sg \in BOOLEAN }

CONSTANT Kind
(* Verify never accepts what the writer cannot honour. *)
ASSUME \A c \in XzWriterCases : XzWriterOk(c) => Writer2Ok([props |-> c.props, dict |-> c.dict, buf |-> c.buf, matcher |-> c.matcher])
ASSUME PrintT(ToJson([kind |-> Kind, table |-> Table(Kind)]))
VARIABLE x
Spec == x = 0 /\ [][UNCHANGED x]_x
=============================================================================
