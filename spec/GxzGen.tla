------------------------------- MODULE GxzGen --------------------------------
(* All abstract gxz scenarios with the outcome of the fault-free run of the   *)
(* intended process (exit status, final directory), printed for the driver.   *)
EXTENDS GxzProc, Json
Success(c) == IF c.stdout THEN c.inputOk
              ELSE ~c.alias /\ c.inputOk /\ (~c.tgtExists \/ c.force)
FinalIN(c)  == IF Success(c) /\ ~c.stdout /\ ~c.keep THEN "absent" ELSE "orig"
FinalTGT(c) == IF c.alias THEN "n/a"
               ELSE IF Success(c) /\ ~c.stdout THEN "out"
               ELSE IF c.tgtExists THEN "other" ELSE "absent"
Scenarios == { [cfg |-> c, exit |-> IF Success(c) THEN 0 ELSE 1, fin |-> FinalIN(c), ftgt |-> FinalTGT(c), ftmp |-> "absent"] : c \in CfgSet }
ASSUME PrintT(ToJson([kind |-> "scenarios", list |-> Scenarios]))
(* The printed predictions are exactly the terminal states of the fault-free process. *)
FaultFreeMatches == pc = "done" /\ ~failed =>
                      /\ exit = (IF Success(cfg) THEN 0 ELSE 1)
                      /\ fs["IN"] = FinalIN(cfg)
                      /\ (~Alias => fs["TGT"] = FinalTGT(cfg))
=============================================================================
