----------------------------- MODULE IoContract -----------------------------
(* M5: call protocols of all readers and writers.                           *)
(*                                                                          *)
(* ReadSchedule (C13): a reader over a valid stream with content of length  *)
(* N answers Read(k) with (n, e): n <= k, the n bytes continue the content  *)
(* in order, e = EOF only when everything has been delivered (possibly      *)
(* together with the last bytes), any other error never; once EOF was       *)
(* reported every Read(k > 0) answers (0, EOF).  How many bytes a Read      *)
(* returns is the reader's choice.                                          *)
(*                                                                          *)
(* FaultContract (C09): a writer over a sink that may fail.  If a sink      *)
(* write failed, some public call must have returned an error by the end;   *)
(* no call panics; if every call returned nil the sink holds a complete     *)
(* valid stream with exactly the written data.                              *)
EXTENDS Integers, Sequences, TLC

(*---------------------------- ReadSchedule -------------------------------*)
VARIABLES n,        \* content length of the current stream
          cursor,   \* bytes delivered so far
          ended     \* EOF has been reported
rvars == <<n, cursor, ended>>

RInit == n = 0 /\ cursor = 0 /\ ended = FALSE
RReset(len) == n' = len /\ cursor' = 0 /\ ended' = FALSE

(* Read(k) answered with (got, err); match = the bytes equal the content at cursor *)
Read(k, got, err, match) ==
  /\ got >= 0 /\ got <= k
  /\ err \in {"nil", "eof"}                       \* a valid stream never fails
  /\ cursor + got <= n /\ match
  /\ IF ended
     THEN /\ (k > 0 => got = 0 /\ err = "eof")    \* EOF is stable
          /\ got = 0
          /\ UNCHANGED rvars
     ELSE /\ (err = "eof" => cursor + got = n)    \* no EOF before everything was delivered
          /\ cursor' = cursor + got
          /\ ended' = (err = "eof")
          /\ UNCHANGED n

PrefixDelivered == cursor <= n
EndedMeansAll == ended => cursor = n

(*---------------------------- FaultContract ------------------------------*)
VARIABLES sinkFailed, anyErr, panicked, done
fvars == <<sinkFailed, anyErr, panicked, done>>
FInitF == sinkFailed = FALSE /\ anyErr = FALSE /\ panicked = FALSE /\ done = FALSE
SinkWrite(failed) == ~done /\ sinkFailed' = (sinkFailed \/ failed) /\ UNCHANGED <<anyErr, panicked, done>>
Call(err) == /\ ~done /\ anyErr' = (anyErr \/ err \notin {"nil"}) /\ panicked' = (panicked \/ err = "panic")
             /\ UNCHANGED <<sinkFailed, done>>
Done(valid) == /\ ~done /\ done' = TRUE
               /\ ~panicked
               /\ (sinkFailed => anyErr)              \* a failure is never masked
               /\ (~anyErr => valid)                  \* success only for a complete valid stream
               /\ UNCHANGED <<sinkFailed, anyErr, panicked>>
NoPanic == ~panicked
=============================================================================
