------------------------------- MODULE TraceIo -------------------------------
(* Validates recorded Read schedules (C13) and fault runs (C09) against      *)
(* IoContract.  Events:                                                      *)
(*  {"ev":"Stream","len":N}                                                  *)
(*  {"ev":"Read","k":..,"n":..,"err":"nil|eof|other|panic","match":bool}     *)
(*  {"ev":"Run"} {"ev":"Sink","failed":b} {"ev":"Call","op":..,"err":..} {"ev":"Done","valid":b} *)
EXTENDS IoContract, Json, TLCExt
Tr == ndJsonDeserialize("trace.ndjson")
VARIABLE l
vars == <<l, n, cursor, ended, sinkFailed, anyErr, panicked, done>>
Init == l = 1 /\ RInit /\ FInitF
E == Tr[l]
Is(ev) == l <= Len(Tr) /\ E.ev = ev /\ l' = l + 1
TStream == Is("Stream") /\ RReset(E.len) /\ UNCHANGED fvars
TRead == Is("Read") /\ Read(E.k, E.n, E.err, E.match) /\ UNCHANGED fvars
TRun == Is("Run") /\ sinkFailed' = FALSE /\ anyErr' = FALSE /\ panicked' = FALSE /\ done' = FALSE /\ UNCHANGED rvars
TSink == Is("Sink") /\ SinkWrite(E.failed) /\ UNCHANGED rvars
TCall == Is("Call") /\ Call(E.err) /\ UNCHANGED rvars
TDone == Is("Done") /\ Done(E.valid) /\ UNCHANGED rvars
Next == TStream \/ TRead \/ TRun \/ TSink \/ TCall \/ TDone
Spec == Init /\ [][Next]_vars
Accepted == /\ PrintT(ToJson([kind |-> "depth", depth |-> TLCGet("stats").diameter, len |-> Len(Tr)]))
            /\ TLCGet("stats").diameter = Len(Tr) + 1
=============================================================================
