-------------------------------- MODULE Ratio --------------------------------
(* M9: the three input families of C17 as a case matrix with the bound each  *)
(* output length must respect.  Sizes are bytes; all products stay < 2^31.   *)
(*   run : n equal bytes                 -> out <= n/500 + Allow             *)
(*   xx  : X || X, |X| <= DictCap random -> out <= 115*|X|/100 + Allow       *)
(*   rnd : n random bytes, DictCap>=64Ki -> out <= n + n/500 + Allow         *)
(* Allow = 128 per stream + 64 per block.                                    *)
EXTENDS Integers, Sequences, TLC, Json
CONSTANTS RunSizes, XSizes, RndSizes, DictCaps, BufSizes, PropSet, Matchers, Writers, BlockSizes

Blocks(n, bs) == IF bs = 0 \/ n <= bs THEN 1 ELSE ((n - 1) \div bs) + 1
Allow(n, bs) == 128 + 64 * Blocks(n, bs)
BoundRun(n, bs) == (n \div 500) + Allow(n, bs)
BoundXX(x, bs)  == ((115 * x) \div 100) + Allow(2 * x, bs)
BoundRnd(n, bs) == n + (n \div 500) + Allow(n, bs)

Base == [dict : DictCaps, buf : BufSizes, props : PropSet, matcher : Matchers, writer : Writers, bs : BlockSizes]
Shape(c) == (c.writer = "lzma2" => c.bs = 0)            \* LZMA2 has no blocks
Cases ==
  { [fam |-> "run", n |-> n, cfg |-> c, bound |-> BoundRun(n, c.bs)] : n \in RunSizes, c \in {c \in Base : Shape(c)} } \cup
  { [fam |-> "xx", n |-> x, cfg |-> c, bound |-> BoundXX(x, c.bs)] : x \in XSizes, c \in {c \in Base : Shape(c) /\ TRUE} } \cup
  { [fam |-> "rnd", n |-> n, cfg |-> c, bound |-> BoundRnd(n, c.bs)] : n \in RndSizes, c \in {c \in Base : Shape(c) /\ c.dict >= 65536} }
(* X || X: the second copy must lie inside the window of the same LZMA2 stream, *)
(* i.e. |X| <= DictCap and both copies in one block (a new block resets the     *)
(* dictionary).                                                                *)
Applicable(k) == k.fam = "xx" => k.n <= k.cfg.dict /\ (k.cfg.bs = 0 \/ k.cfg.bs >= 2 * k.n)
(* The bounds are monotone in n: a longer input never gets a smaller budget. *)
ASSUME \A a, b \in RunSizes : a <= b => BoundRun(a, 0) <= BoundRun(b, 0)
ASSUME PrintT(ToJson([kind |-> "cases", cases |-> { k \in Cases : Applicable(k) }]))
VARIABLE x
Spec == x = 0 /\ [][UNCHANGED x]_x
=============================================================================
