SPECIFICATION GSpec
CONSTANTS Lens = {0, 1, 2, 3, 64}
          SchedLen = 5
          MaxK = 48
          N0 = 6
INVARIANTS PrefixDelivered EndedMeansAll EmitSched
CHECK_DEADLOCK FALSE
