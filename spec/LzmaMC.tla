------------------------------- MODULE LzmaMC -------------------------------
(* Exhaustive small-scope check of Lzma: every operation sequence up to     *)
(* MaxPos bytes with a tiny window, plus the encoder refinement: the code's *)
(* encoder never emits a simple match whose distance is in the rep queue    *)
(* and uses length 1 only as short rep -- a sub-relation of the decoder.    *)
EXTENDS Lzma
CONSTANTS DictCap, MaxPos, MaxLen
Next == \/ pos < MaxPos /\ Lit
        \/ pos < MaxPos /\ \E d \in 1..DictCap, n \in 2..MaxLen : Match(d, n)
        \/ pos < MaxPos /\ \E g \in 1..4, n \in 2..MaxLen : Rep(g, n)
        \/ pos < MaxPos /\ ShortRep
        \/ pos >= 1 /\ pos < MaxPos /\ StateReset
        \/ pos >= 1 /\ pos < MaxPos /\ DictReset
Spec == LInit(DictCap) /\ [][Next]_lvars
(* Encoder-shaped step: prefers rep_g when the distance is queued. *)
EncStep == \/ Lit \/ ShortRep
           \/ \E d \in 1..DictCap, n \in 2..MaxLen :
                IF \E g \in 1..4 : rep[g] = d
                THEN Rep(CHOOSE g \in 1..4 : rep[g] = d /\ \A h \in 1..4 : rep[h] = d => g <= h, n)
                ELSE Match(d, n)
EncoderRefinesDecoder == [][pos < MaxPos /\ EncStep => Next]_lvars
=============================================================================
