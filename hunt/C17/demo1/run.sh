#!/bin/sh
# Run with the current directory set to the root of a checkout of
# github.com/ulikunitz/xz. Exits non-zero if X||X (random X, |X| <= DictCap)
# is not compressed to <= 1.15*|X| by the HashTable4 matcher with a 32 MiB
# dictionary.
demo=$(dirname "$(readlink -f "$0")")
export GOFLAGS=-mod=mod GOPROXY=off GOSUMDB=off GOTOOLCHAIN=local
tmp=$(mktemp -d ./c17demo1.XXXXXX) || exit 2
trap 'rm -rf "$tmp"' EXIT INT TERM
cp "$demo/main.go" "$tmp/main.go" || exit 2
go build -o "$tmp/demo" "$tmp/main.go" || { echo "build failed"; exit 2; }
"$tmp/demo"
status=$?
rm -rf "$tmp"
trap - EXIT INT TERM
exit $status
