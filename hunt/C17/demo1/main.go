// Demo for property C17: X||X with uniformly random X, |X| <= dictionary
// capacity, must compress to at most 1.15*|X| (+128 bytes per stream, +64 per
// block) with every supported match finder.
//
// With the HashTable4 matcher and a dictionary larger than about 24 MiB the
// second copy is not found any more: the hash table never has more than 2^20
// slots (maxTableExponent in lzma/hashtable.go) and NextOp looks only at the
// 16 newest chain entries of a slot (maxMatches) and never at the repeat
// distances. With |X| = 30 MiB about 30 newer positions share the slot of the
// wanted position, so the match at distance |X| is practically never among the
// candidates and the second copy is written as literals again.
//
// The program stops as soon as the output written so far already exceeds the
// allowed total (the output can only grow), to keep the run time down. If the
// matcher finds the second copy the program runs to the end and checks the
// final size.
package main

import (
	"fmt"
	"math/rand"
	"os"
	"time"

	"github.com/ulikunitz/xz/lzma"
)

type counter struct{ n int64 }

func (c *counter) Write(p []byte) (int, error) {
	c.n += int64(len(p))
	return len(p), nil
}

func fail(err error) {
	fmt.Println("harness error:", err)
	os.Exit(2)
}

func main() {
	const dictCap = 32 << 20 // the dictionary of gxz -8
	const n = 30 << 20       // |X| <= dictCap
	const bound = int64(n)*115/100 + 128 + 64
	x := make([]byte, n)
	rand.New(rand.NewSource(20260929)).Read(x)

	start := time.Now()
	var out counter
	w, err := lzma.Writer2Config{
		DictCap: dictCap,
		Matcher: lzma.HashTable4,
	}.NewWriter2(&out)
	if err != nil {
		fail(err)
	}
	// first copy
	if _, err = w.Write(x); err != nil {
		fail(err)
	}
	// second copy, in pieces (no Flush), watching the output size
	const piece = 1 << 20
	for off := 0; off < n; off += piece {
		if _, err = w.Write(x[off : off+piece]); err != nil {
			fail(err)
		}
		if out.n > bound {
			fmt.Printf("LZMA2, HashTable4, DictCap=%d, X||X with |X|=%d "+
				"random bytes:\n  after the first copy and only %d of "+
				"%d bytes of the second copy the output is already "+
				"%d bytes = %.3f*|X|;\n  allowed for the whole of "+
				"X||X: %d = 1.15*|X|+192 [%v]\n",
				dictCap, n, off+piece, n, out.n,
				float64(out.n)/float64(n), bound,
				time.Since(start).Round(time.Second))
			fmt.Println("VIOLATION: the second copy of X lies inside " +
				"the dictionary window but the HashTable4 match " +
				"finder does not exploit it")
			os.Exit(1)
		}
	}
	if err = w.Close(); err != nil {
		fail(err)
	}
	fmt.Printf("LZMA2, HashTable4, DictCap=%d, X||X with |X|=%d random bytes: "+
		"output %d bytes = %.3f*|X| (allowed: %d = 1.15*|X|+192) [%v]\n",
		dictCap, n, out.n, float64(out.n)/float64(n), bound,
		time.Since(start).Round(time.Second))
	if out.n > bound {
		fmt.Println("VIOLATION: the second copy of X lies inside the " +
			"dictionary window but the HashTable4 match finder does " +
			"not exploit it")
		os.Exit(1)
	}
	fmt.Println("ok")
}
