#!/bin/sh
# Run with the current directory set to the root of a checkout of
# github.com/ulikunitz/xz. Exits non-zero if the violation is present.
here=$(dirname "$(readlink -f "$0")")
export GOFLAGS=-mod=mod GOPROXY=off GOSUMDB=off GOTOOLCHAIN=local
tmp=zz_c08_demo1_tmp.$$
mkdir "$tmp" || exit 2
cp "$here/main.go" "$here/gen.go" "$tmp/"
go run "./$tmp"
rc=$?
rm -rf "$tmp"
exit $rc
