// Demo for property C08 (LZMA2 writer lossless for any call history).
//
// A legal call history Write, Flush, Write, Flush, Write, Flush, Close on a
// Writer2 with the default configuration and a sink that never fails makes
// Flush (and then Close) fail with "limit reached"; the written data is lost.
package main

import (
	"bytes"
	"fmt"
	"io"
	"os"
	"os/exec"

	"github.com/ulikunitz/xz/lzma"
)

// decode decodes a (terminated) LZMA2 chunk sequence with the library's
// reader.
func decode(z []byte) (data []byte, eos bool, err error) {
	r, err := lzma.Reader2Config{}.NewReader2(bytes.NewReader(z))
	if err != nil {
		return nil, false, err
	}
	data, err = io.ReadAll(r)
	return data, r.EOS(), err
}

// xzDecode decodes with xz-utils if installed.
func xzDecode(z []byte) (data []byte, ok bool, err error) {
	path, e := exec.LookPath("xz")
	if e != nil {
		return nil, false, nil
	}
	cmd := exec.Command(path, "--format=raw", "--lzma2=dict=8MiB", "-dc")
	cmd.Stdin = bytes.NewReader(z)
	var out, errb bytes.Buffer
	cmd.Stdout = &out
	cmd.Stderr = &errb
	if e = cmd.Run(); e != nil {
		return out.Bytes(), true, fmt.Errorf("%v: %s", e, errb.String())
	}
	return out.Bytes(), true, nil
}

func run(nF int) (bad int) {
	p := gen(1, nF)
	var sink bytes.Buffer
	w, err := lzma.Writer2Config{}.NewWriter2(&sink)
	if err != nil {
		fmt.Println("NewWriter2:", err)
		return 1
	}
	written := 0
	complain := func(format string, a ...interface{}) {
		bad++
		fmt.Printf("nF=%d: ", nF)
		fmt.Printf(format, a...)
		fmt.Println()
	}
	checkPrefix := func(what string) {
		// a flushed prefix is a chunk sequence without the end chunk
		z := append(append([]byte{}, sink.Bytes()...), 0)
		got, _, err := decode(z)
		if err != nil || !bytes.Equal(got, p.all[:written]) {
			complain("after %s: emitted bytes decode to %d bytes (err %v), %d bytes were written before the Flush",
				what, len(got), err, written)
		}
	}
	step := func(what string, part []byte) bool {
		n, err := w.Write(part)
		written += n
		if err != nil || n != len(part) {
			complain("Write(%s) = %d, %v on a sink that never fails (want %d, nil)", what, n, err, len(part))
			return false
		}
		if err = w.Flush(); err != nil {
			complain("Flush after Write(%s) returned error %q on a sink that never fails", what, err)
			checkPrefix("the failed Flush")
			return false
		}
		checkPrefix("Flush #" + what)
		return true
	}
	ok := step("R", p.R) && step("T", p.T) && step("F", p.F)
	err = w.Close()
	if err != nil {
		complain("Close returned error %q on a sink that never fails", err)
	}
	got, eos, derr := decode(sink.Bytes())
	if derr != nil || !eos || !bytes.Equal(got, p.all) {
		complain("complete output (%d bytes) decodes with Reader2 to %d of %d written bytes, end chunk seen=%v, err=%v",
			sink.Len(), len(got), len(p.all), eos, derr)
	}
	if xgot, have, xerr := xzDecode(sink.Bytes()); have {
		if xerr != nil || !bytes.Equal(xgot, p.all) {
			complain("complete output decodes with xz to %d of %d written bytes, err=%v",
				len(xgot), len(p.all), xerr)
		}
	}
	_ = ok
	return bad
}

func main() {
	bad := 0
	// filler sizes that leave 18, 17 and 16 bytes of the 64 KiB chunk
	// budget before the last, expensive match of the payload
	for _, nF := range []int{73533, 73534, 73535} {
		bad += run(nF)
	}
	if bad > 0 {
		fmt.Println("VIOLATION: the LZMA2 writer lost data / failed on a legal call history")
		os.Exit(1)
	}
	fmt.Println("ok: all histories encoded and decoded losslessly")
}
