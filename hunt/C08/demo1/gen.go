package main

// Deterministic construction of the adversarial payload. No dependency on
// math/rand, so that the bytes are the same with every Go version.

type sm64 uint64

func (s *sm64) next() uint64 {
	*s += 0x9e3779b97f4a7c15
	z := uint64(*s)
	z = (z ^ (z >> 30)) * 0xbf58476d1ce4e5b9
	z = (z ^ (z >> 27)) * 0x94d049bb133111eb
	return z ^ (z >> 31)
}

// rSize is the size of the leading block of random 7-bit bytes; it only
// serves as source for the matches of the later parts.
const rSize = 1310720

// trainLen is the length of training match i. The first 8*120 matches walk
// the 8 levels of the "high" length tree from the deepest level to the root,
// each time with the symbol that differs from the final length (18) in that
// level; then 120 matches with choice2=0 and 120 matches with choice=0.
func trainLen(i int) int {
	ph := i / 120
	if ph < 8 {
		return 18 + (1 << uint(ph))
	}
	if ph == 8 {
		return 10
	}
	return 6
}

// lowPat gives the low four bits of the (distance-1) of training match i;
// it walks the align tree from the deepest level to the root, always opposite
// to the final value 0.
func lowPat(i int) int {
	switch i / 300 {
	case 0:
		return 8
	case 1:
		return 4
	case 2:
		return 2
	default:
		return 1
	}
}

// slotD0 gives the approximate distance for the 5 phases (240 matches each)
// that walk the distance slot tree (slots 37; 38; 32..35; 40; 31 against the
// final slot 36).
var slotD0 = []int{460000, 600000, 150000, 1200000, 62000}

type payload struct {
	R, T, F []byte // F includes the final 18 byte match
	all     []byte
}

func gen(seed uint64, nF int) *payload {
	rng := sm64(seed)
	data := make([]byte, rSize, rSize+400000)
	for i := range data {
		data[i] = byte(rng.next()>>32) & 0x7f
	}
	head := rSize
	cursor := -1
	prevEnd := -1
	for i := 0; i < 1200; i++ {
		L := trainLen(i)
		if i%240 == 0 {
			cursor = head - slotD0[i/240] - 1
		}
		pat := lowPat(i)
		src := cursor
		for {
			d := head - src - 1
			if d&15 == pat && (prevEnd < 0 || data[prevEnd] != data[src]) {
				break
			}
			src++
		}
		data = append(data, data[src:src+L]...)
		head += L
		prevEnd = src + L
		cursor = src + L + 1
	}
	tEnd := head
	// filler: bytes >= 0x80 (never matching R or T), no byte equal to one
	// of its 8 predecessors, no 4-gram twice: encoded as literals only.
	f := make([]byte, nF)
	seen := make(map[uint32]bool)
	for i := range f {
	retry:
		c := byte(rng.next()>>32) | 0x80
		for j := i - 8; j < i; j++ {
			if j >= 0 && f[j] == c {
				goto retry
			}
		}
		if i >= 3 {
			x := uint32(f[i-3])<<24 | uint32(f[i-2])<<16 | uint32(f[i-1])<<8 | uint32(c)
			if seen[x] {
				goto retry
			}
			seen[x] = true
		}
		f[i] = c
	}
	data = append(data, f...)
	head += nF
	// final match: distance-1 = 300000 (slot 36, low four bits 0), length 18
	d := 300000 &^ 15
	src := head - d - 1
	data = append(data, data[src:src+18]...)
	return &payload{R: data[:rSize], T: data[rSize:tEnd], F: data[tEnd:], all: data}
}
