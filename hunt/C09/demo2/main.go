// Demo 2: a source whose Read returns some bytes TOGETHER with an error other
// than io.EOF (legal for an io.Reader: "it may return the (non-nil) error from
// the same call"), one single time, and works again afterwards (a transient
// failure such as a timeout). The xz, LZMA and LZMA2 readers drop this error
// (io.ReadFull, io.CopyN and the internal byte reader discard an error that
// comes with enough data) and report a clean end of stream.
package main

import (
	"bytes"
	"errors"
	"fmt"
	"io"
	"os"

	"github.com/ulikunitz/xz"
	"github.com/ulikunitz/xz/lzma"
)

var errSrc = errors.New("transient source failure")

// src hands out data in pieces of at most chunk bytes. The Read call that
// delivers the byte before offset k returns its bytes together with errSrc,
// once.
type src struct {
	data  []byte
	off   int
	k     int
	chunk int
	fired bool
}

func (s *src) Read(p []byte) (int, error) {
	if len(p) == 0 {
		return 0, nil
	}
	if s.off >= len(s.data) {
		return 0, io.EOF
	}
	n := len(p)
	if n > s.chunk {
		n = s.chunk
	}
	if n > len(s.data)-s.off {
		n = len(s.data) - s.off
	}
	if !s.fired && s.off < s.k && s.off+n > s.k {
		n = s.k - s.off
	}
	copy(p, s.data[s.off:s.off+n])
	s.off += n
	if !s.fired && s.off == s.k {
		s.fired = true
		return n, errSrc
	}
	return n, nil
}

func input() []byte {
	p := make([]byte, 2500)
	x := uint32(4711)
	for i := range p {
		x = x*1664525 + 1013904223
		if x>>30 == 0 {
			p[i] = byte(x >> 16)
		} else {
			p[i] = 'a' + byte(x>>28)%3
		}
	}
	return p
}

func must(err error) {
	if err != nil {
		fmt.Println("harness problem:", err)
		os.Exit(2)
	}
}

func main() {
	in := input()

	var xzb, lzb, l2b bytes.Buffer
	xw, err := xz.WriterConfig{DictCap: 4096, BlockSize: 1000}.NewWriter(&xzb)
	must(err)
	_, err = xw.Write(in)
	must(err)
	must(xw.Close())
	lw, err := lzma.WriterConfig{DictCap: 4096}.NewWriter(&lzb)
	must(err)
	_, err = lw.Write(in)
	must(err)
	must(lw.Close())
	w2, err := lzma.Writer2Config{DictCap: 4096}.NewWriter2(&l2b)
	must(err)
	_, err = w2.Write(in[:1200])
	must(err)
	must(w2.Flush())
	_, err = w2.Write(in[1200:])
	must(err)
	must(w2.Close())

	type tc struct {
		name string
		z    []byte
		open func(io.Reader) (io.Reader, error)
	}
	tcs := []tc{
		{"xz.Reader", xzb.Bytes(), func(r io.Reader) (io.Reader, error) { return xz.ReaderConfig{DictCap: 4096}.NewReader(r) }},
		{"xz.Reader(SingleStream)", xzb.Bytes(), func(r io.Reader) (io.Reader, error) {
			return xz.ReaderConfig{DictCap: 4096, SingleStream: true}.NewReader(r)
		}},
		{"lzma.Reader", lzb.Bytes(), func(r io.Reader) (io.Reader, error) { return lzma.ReaderConfig{DictCap: 4096}.NewReader(r) }},
		{"lzma.Reader2", l2b.Bytes(), func(r io.Reader) (io.Reader, error) { return lzma.Reader2Config{DictCap: 4096}.NewReader2(r) }},
	}
	bad := 0
	for _, t := range tcs {
		for _, chunk := range []int{1, 1 << 20} {
			clean, other, total, first := 0, 0, 0, -1
			// offsets strictly inside the stream: bytes follow the failure
			for k := 1; k < len(t.z); k++ {
				s := &src{data: t.z, k: k, chunk: chunk}
				r, err := t.open(s)
				var out []byte
				if err == nil {
					out, err = io.ReadAll(r)
				}
				if !s.fired {
					fmt.Printf("harness problem: %s k=%d: failure point not reached (err=%v)\n", t.name, k, err)
					os.Exit(2)
				}
				total++
				switch {
				case err == nil:
					clean++
					if first < 0 {
						first = k
						fmt.Printf("%s, source pieces of %d byte(s): Read returned (n>0, %q) once at offset %d of %d; "+
							"the reader returned %d bytes and a clean end of stream, never the error\n",
							t.name, chunk, errSrc, k, len(t.z), len(out))
					}
				case !errors.Is(err, errSrc):
					other++
				}
			}
			fmt.Printf("%s, pieces of %d: %d of %d failure offsets end in a clean EOF, %d in a different error\n",
				t.name, chunk, clean, total, other)
			bad += clean + other
		}
	}
	if bad > 0 {
		fmt.Println("VIOLATION: a source error other than EOF was swallowed")
		os.Exit(1)
	}
	fmt.Println("ok: every source error surfaced")
}
