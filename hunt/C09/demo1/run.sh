#!/bin/sh
# run with the current directory = root of a checkout of github.com/ulikunitz/xz
export GOFLAGS=-mod=mod GOPROXY=off GOSUMDB=off GOTOOLCHAIN=local
here=$(dirname "$(readlink -f "$0")")
tmp=$(mktemp -d ./zz_c09demo1_XXXXXX) || exit 2
cp "$here/main.go" "$tmp/main.go"
go run "./$tmp"
rc=$?
rm -rf "$tmp"
exit $rc
