// Demo 1: lzma.Writer (classic format) with a sink that implements
// io.ByteWriter. One single WriteByte call of the sink fails, and the error
// value it returns is lzma.ErrLimit (an exported error value of the package,
// e.g. produced by a sink that is built on lzma.LimitedByteWriter). If the
// failing call happens while Close compresses the buffered data, no call of
// the writer returns an error although the sink lost a byte and the stream is
// cut short.
package main

import (
	"bytes"
	"errors"
	"fmt"
	"io"
	"os"

	"github.com/ulikunitz/xz/lzma"
)

type sink struct {
	buf    bytes.Buffer
	calls  int // number of WriteByte calls so far
	failAt int // index of the WriteByte call that fails (once)
	err    error
	failed bool
}

func (s *sink) Write(p []byte) (int, error) { return s.buf.Write(p) }

func (s *sink) WriteByte(c byte) error {
	i := s.calls
	s.calls++
	if i == s.failAt {
		s.failed = true
		return s.err // byte is not accepted
	}
	return s.buf.WriteByte(c)
}

func input() []byte {
	p := make([]byte, 3000)
	x := uint32(12345)
	for i := range p {
		x = x*1664525 + 1013904223
		if x>>30 == 0 {
			p[i] = byte(x >> 16)
		} else {
			p[i] = 'a' + byte(x>>28)%3
		}
	}
	return p
}

// run returns the errors of all writer calls joined, and the sink.
func run(in []byte, failAt int, sinkErr error) (s *sink, callErr error, panicked interface{}) {
	s = &sink{failAt: failAt, err: sinkErr}
	defer func() { panicked = recover() }()
	w, err := lzma.WriterConfig{DictCap: 4096}.NewWriter(s)
	if err != nil {
		return s, err, nil
	}
	var errs []error
	if _, err = w.Write(in); err != nil {
		errs = append(errs, err)
	}
	if err = w.Close(); err != nil {
		errs = append(errs, err)
	}
	return s, errors.Join(errs...), nil
}

func main() {
	in := input()
	s0, err, _ := run(in, -1, nil)
	if err != nil {
		fmt.Println("harness problem: fault-free run fails:", err)
		os.Exit(2)
	}
	total := s0.calls
	generic := errors.New("disk on fire")
	bad := 0
	for _, sinkErr := range []error{generic, lzma.ErrLimit} {
		masked, first := 0, -1
		for k := 0; k < total; k++ {
			s, callErr, p := run(in, k, sinkErr)
			if p != nil {
				fmt.Printf("panic with sink error %q at WriteByte call %d: %v\n", sinkErr, k, p)
				bad++
				continue
			}
			if s.failed && callErr == nil {
				masked++
				if first < 0 {
					first = k
					// show that the result really is damaged
					r, err := lzma.NewReader(bytes.NewReader(s.buf.Bytes()))
					var out []byte
					if err == nil {
						out, err = io.ReadAll(r)
					}
					fmt.Printf("sink error %q at WriteByte call %d of %d: Write and Close both returned nil; "+
						"decoding what the sink accepted gives %d of %d bytes, err=%v\n",
						sinkErr, k, total, len(out), len(in), err)
				}
			}
		}
		fmt.Printf("sink error %q: %d of %d single-fault positions are masked (no call returned an error)\n",
			sinkErr, masked, total)
		bad += masked
	}
	if bad > 0 {
		fmt.Println("VIOLATION: a failed sink write did not surface as an error of Write or Close")
		os.Exit(1)
	}
	fmt.Println("ok: every failed sink write surfaced as an error")
}
