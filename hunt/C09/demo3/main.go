// Demo 3: lzma.Reader (classic format, uncompressed size stored in the
// header) over a source that fails persistently with an error other than
// io.EOF from offset k on. The first Read that needs the missing bytes
// returns the source's error, but the error is not remembered: further Read
// calls keep decoding from the half-updated range decoder state, hand out
// bytes that were never in the source and finally return io.EOF - a clean end
// of stream for a source that has delivered only a fraction of the stream.
package main

import (
	"bytes"
	"errors"
	"fmt"
	"io"
	"os"

	"github.com/ulikunitz/xz/lzma"
)

var errSrc = errors.New("source failure")

type src struct {
	data []byte
	off  int
	k    int
}

func (s *src) Read(p []byte) (int, error) {
	if len(p) == 0 {
		return 0, nil
	}
	if s.off >= s.k {
		return 0, errSrc // persistent
	}
	n := len(p)
	if n > s.k-s.off {
		n = s.k - s.off
	}
	copy(p, s.data[s.off:s.off+n])
	s.off += n
	return n, nil
}

func input() []byte {
	p := make([]byte, 5000)
	x := uint32(99)
	for i := range p {
		x = x*1664525 + 1013904223
		if x>>30 == 0 {
			p[i] = byte(x >> 16)
		} else {
			p[i] = 'a' + byte(x>>28)%3
		}
	}
	return p
}

func main() {
	in := input()
	bad := 0
	for _, eos := range []bool{false, true} {
		var z bytes.Buffer
		w, err := lzma.WriterConfig{DictCap: 4096, SizeInHeader: true, Size: int64(len(in)), EOSMarker: eos}.NewWriter(&z)
		if err == nil {
			_, err = w.Write(in)
		}
		if err == nil {
			err = w.Close()
		}
		if err != nil {
			fmt.Println("harness problem:", err)
			os.Exit(2)
		}
		eofAfterErr, noErr, first := 0, 0, -1
		total := 0
		for k := 18; k < z.Len(); k++ {
			total++
			r, err := lzma.ReaderConfig{DictCap: 4096}.NewReader(&src{data: z.Bytes(), k: k})
			if err != nil {
				if !errors.Is(err, errSrc) {
					fmt.Printf("k=%d: NewReader: unexpected error %v\n", k, err)
					bad++
				}
				continue
			}
			p := make([]byte, 256)
			sawErr, got, gotAfter, calls := false, 0, 0, 0
			for calls = 1; calls <= 100000; calls++ {
				n, err := r.Read(p)
				got += n
				if sawErr {
					gotAfter += n
				}
				if err == io.EOF {
					if sawErr {
						eofAfterErr++
					} else {
						noErr++
					}
					if first < 0 {
						first = k
						fmt.Printf("EOSMarker=%v: source fails from offset %d of %d on: Read call %d returned io.EOF "+
							"(source error reported before: %v); %d bytes delivered in total, %d of them after the failure was reported\n",
							eos, k, z.Len(), calls, sawErr, got, gotAfter)
					}
					break
				}
				if err != nil {
					if !errors.Is(err, errSrc) {
						// some other error: not a clean end; stop
						break
					}
					sawErr = true
				}
			}
		}
		fmt.Printf("EOSMarker=%v: %d failure offsets: %d end in io.EOF after the error had been reported, %d in io.EOF without any error\n",
			eos, total, eofAfterErr, noErr)
		bad += eofAfterErr + noErr
	}
	if bad > 0 {
		fmt.Println("VIOLATION: the reader reports a clean end of stream although its source failed")
		os.Exit(1)
	}
	fmt.Println("ok: no clean end of stream after a source failure")
}
