// Demo 4: the multi-stream loop of xz.Reader.Read tells "four bytes of stream
// padding were skipped" from "the source failed" by comparing the error VALUE
// with an internal sentinel. The same sentinel leaks to users: NewReader
// returns it for an input that starts with four zero bytes. A source that
// hands this value back from its Read (for instance a source that lazily opens
// a nested xz reader and passes the open error on) is not recognised as
// failing: a single failure is swallowed (clean end of stream), a persistent
// failure makes Read spin forever instead of returning the error.
package main

import (
	"bytes"
	"errors"
	"fmt"
	"io"
	"os"

	"github.com/ulikunitz/xz"
)

type src struct {
	data  []byte
	off   int
	err   error
	once  bool
	fails int
}

var errGiveUp = errors.New("demo: source was asked 10000 times after it had failed")

func (s *src) Read(p []byte) (int, error) {
	if len(p) == 0 {
		return 0, nil
	}
	if s.off < len(s.data) {
		n := copy(p, s.data[s.off:])
		s.off += n
		return n, nil
	}
	if s.once && s.fails > 0 {
		return 0, io.EOF
	}
	s.fails++
	if s.fails > 10000 {
		return 0, errGiveUp
	}
	return 0, s.err
}

func main() {
	// error value a failing source may legitimately pass on
	_, srcErr := xz.NewReader(bytes.NewReader(make([]byte, 4)))
	if srcErr == nil {
		fmt.Println("harness problem: NewReader accepts four zero bytes")
		os.Exit(2)
	}
	var b bytes.Buffer
	w, err := xz.WriterConfig{DictCap: 4096}.NewWriter(&b)
	if err == nil {
		_, err = w.Write([]byte("hello"))
	}
	if err == nil {
		err = w.Close()
	}
	if err != nil {
		fmt.Println("harness problem:", err)
		os.Exit(2)
	}
	bad := 0
	for _, once := range []bool{true, false} {
		s := &src{data: b.Bytes(), err: srcErr, once: once}
		r, err := xz.ReaderConfig{DictCap: 4096}.NewReader(s)
		if err != nil {
			fmt.Println("harness problem:", err)
			os.Exit(2)
		}
		out, err := io.ReadAll(r)
		switch {
		case err == nil:
			fmt.Printf("source fails after the stream with %q (once=%v): reader returned %q and a clean end of stream\n",
				srcErr, once, out)
			bad++
		case errors.Is(err, errGiveUp):
			fmt.Printf("source fails after the stream with %q (once=%v): reader never returned; it asked the failing source %d times\n",
				srcErr, once, s.fails-1)
			bad++
		case errors.Is(err, srcErr):
			// fine
		default:
			fmt.Printf("once=%v: different error: %v\n", once, err)
			bad++
		}
	}
	if bad > 0 {
		fmt.Println("VIOLATION: a source error other than EOF did not surface")
		os.Exit(1)
	}
	fmt.Println("ok: the source error surfaced")
}
