#!/bin/sh
# Run with the current directory = root of a checkout of github.com/ulikunitz/xz
demo=$(dirname "$(readlink -f "$0")")
export GOFLAGS=-mod=mod GOPROXY=off GOSUMDB=off GOTOOLCHAIN=local
tmp=$(mktemp -d ./zz_c11_demo1_XXXXXX) || exit 2
cp "$demo/main.go" "$tmp/main.go"
go run "./$tmp"
rc=$?
rm -rf "$tmp"
exit $rc
