// Demo for C11 finding 1: a small, perfectly valid .xz file whose blocks
// are empty but declare a 64 MiB dictionary makes a single Read call of
// xz.Reader take time proportional to (number of blocks) x (declared
// dictionary size), because every block allocates and zeroes a fresh
// dictionary. 64 extra empty blocks are 1 KiB of extra input.
package main

import (
	"bytes"
	"fmt"
	"hash/crc32"
	"io"
	"os"
	"runtime"
	"time"

	"github.com/ulikunitz/xz"
)

func le32(x uint32) []byte { return []byte{byte(x), byte(x >> 8), byte(x >> 16), byte(x >> 24)} }

func uvarint(x uint64) []byte {
	var p []byte
	for x >= 0x80 {
		p = append(p, byte(x)|0x80)
		x >>= 7
	}
	return append(p, byte(x))
}

// gen builds a valid xz stream (check CRC32) with n empty blocks. Each
// block: 12-byte header (one LZMA2 filter, dictionary size code
// dictCode), LZMA2 end marker 0x00, 3 bytes block padding, CRC32 of the
// empty string.
func gen(n int, dictCode byte) []byte {
	var b bytes.Buffer
	hdr := []byte{0xfd, '7', 'z', 'X', 'Z', 0, 0, 1}
	b.Write(hdr)
	b.Write(le32(crc32.ChecksumIEEE(hdr[6:8])))
	bh := []byte{2, 0, 0x21, 1, dictCode, 0, 0, 0}
	bh = append(bh, le32(crc32.ChecksumIEEE(bh))...)
	for i := 0; i < n; i++ {
		b.Write(bh)
		b.Write([]byte{0, 0, 0, 0})
		b.Write([]byte{0, 0, 0, 0})
	}
	var idx bytes.Buffer
	idx.WriteByte(0)
	idx.Write(uvarint(uint64(n)))
	for i := 0; i < n; i++ {
		idx.Write(uvarint(12 + 1 + 4))
		idx.Write(uvarint(0))
	}
	for idx.Len()%4 != 0 {
		idx.WriteByte(0)
	}
	idx.Write(le32(crc32.ChecksumIEEE(idx.Bytes())))
	b.Write(idx.Bytes())
	ft := make([]byte, 12)
	copy(ft[4:], le32(uint32(idx.Len()/4-1)))
	ft[9] = 1
	ft[10], ft[11] = 'Y', 'Z'
	copy(ft, le32(crc32.ChecksumIEEE(ft[4:10])))
	b.Write(ft)
	return b.Bytes()
}

// measure opens the stream and performs ONE Read call with a 4 KiB
// buffer; it returns the wall time of that call and the bytes the Go
// runtime allocated during it.
func measure(data []byte) (time.Duration, uint64, error) {
	r, err := xz.NewReader(bytes.NewReader(data))
	if err != nil {
		return 0, 0, fmt.Errorf("NewReader: %v", err)
	}
	var m0, m1 runtime.MemStats
	runtime.GC()
	runtime.ReadMemStats(&m0)
	p := make([]byte, 4096)
	st := time.Now()
	n, err := r.Read(p)
	d := time.Since(st)
	runtime.ReadMemStats(&m1)
	if n != 0 || err != io.EOF {
		return d, 0, fmt.Errorf("Read = (%d, %v); want (0, EOF) - the file is valid", n, err)
	}
	return d, m1.TotalAlloc - m0.TotalAlloc, nil
}

func best(data []byte) (time.Duration, uint64) {
	var bt time.Duration = 1 << 62
	var ba uint64
	for i := 0; i < 3; i++ {
		d, a, err := measure(data)
		if err != nil {
			fmt.Println("unexpected:", err)
			os.Exit(3)
		}
		if d < bt {
			bt, ba = d, a
		}
	}
	return bt, ba
}

func main() {
	const dict64MiB = 28 // (2|0)<<(11+14) = 64 MiB
	const N = 64
	one := gen(1, dict64MiB)
	many := gen(N, dict64MiB)
	manySmall := gen(N, 0) // same structure, 4 KiB dictionary

	t1, a1 := best(one)
	tN, aN := best(many)
	tS, aS := best(manySmall)
	fmt.Printf("valid xz file,  1 empty block , dict 64 MiB: %5d bytes input, Read took %v, allocated %d MiB\n", len(one), t1, a1>>20)
	fmt.Printf("valid xz file, %2d empty blocks, dict 64 MiB: %5d bytes input, Read took %v, allocated %d MiB\n", N, len(many), tN, aN>>20)
	fmt.Printf("valid xz file, %2d empty blocks, dict  4 KiB: %5d bytes input, Read took %v, allocated %d KiB\n", N, len(manySmall), tS, aS>>10)

	// 63 additional empty blocks are 1071 additional input bytes and no
	// output. A reader whose Read time is bounded by the request, the
	// window and the consumed input needs about the same time for both
	// 64 MiB files.
	limit := 5*t1 + 50*time.Millisecond
	if tN > limit {
		fmt.Printf("VIOLATION: one Read call on a %d-byte valid file took %v (> %v = 5 x one-block time + 50ms): "+
			"every empty block costs a fresh %d MiB dictionary; the time of a single Read grows with "+
			"blocks x declared dictionary size (about %.1f ms per 20 input bytes)\n",
			len(many), tN, limit, 64, float64(tN.Milliseconds())/N)
		os.Exit(1)
	}
	fmt.Println("ok: Read time does not grow with the number of empty blocks")
}
