// Demo for C11 finding 2: the LZMA2 reader accepts chunk property bytes
// with lc+lp > 4 (forbidden in LZMA2; xz-utils rejects them) and builds a
// new literal-coder table of 0x300<<(lc+lp) probabilities (6 MiB for
// lc=8, lp=4) for EVERY chunk that resets the state. A chunk needs 12
// input bytes, so a few KiB of input keep a single Read call busy for
// seconds.
package main

import (
	"bytes"
	"fmt"
	"hash/crc32"
	"io"
	"os"
	"runtime"
	"time"

	"github.com/ulikunitz/xz"
	"github.com/ulikunitz/xz/lzma"
)

func le32(x uint32) []byte { return []byte{byte(x), byte(x >> 8), byte(x >> 16), byte(x >> 24)} }

func uvarint(x uint64) []byte {
	var p []byte
	for x >= 0x80 {
		p = append(p, byte(x)|0x80)
		x >>= 7
	}
	return append(p, byte(x))
}

// lzma2 returns n chunks "state reset + new properties" (the first one
// with dictionary reset), each declaring 1 uncompressed byte and 6
// compressed bytes 00 00 00 00 00 00, which decode to the literal 0x00,
// followed by the end marker.
func lzma2(n int, props byte) []byte {
	var pl bytes.Buffer
	for i := 0; i < n; i++ {
		h := byte(0xC0)
		if i == 0 {
			h = 0xE0
		}
		pl.Write([]byte{h, 0, 0, 0, 5, props, 0, 0, 0, 0, 0, 0})
	}
	pl.WriteByte(0)
	return pl.Bytes()
}

// wrap puts the LZMA2 data into a one-block xz stream (dictionary 4 KiB,
// CRC32) with correct index and footer.
func wrap(pl []byte, n int) []byte {
	var b bytes.Buffer
	hdr := []byte{0xfd, '7', 'z', 'X', 'Z', 0, 0, 1}
	b.Write(hdr)
	b.Write(le32(crc32.ChecksumIEEE(hdr[6:8])))
	bh := []byte{2, 0, 0x21, 1, 0, 0, 0, 0}
	bh = append(bh, le32(crc32.ChecksumIEEE(bh))...)
	b.Write(bh)
	b.Write(pl)
	for b.Len()%4 != 0 {
		b.WriteByte(0)
	}
	b.Write(le32(crc32.ChecksumIEEE(make([]byte, n))))
	var idx bytes.Buffer
	idx.WriteByte(0)
	idx.Write(uvarint(1))
	idx.Write(uvarint(uint64(12 + len(pl) + 4)))
	idx.Write(uvarint(uint64(n)))
	for idx.Len()%4 != 0 {
		idx.WriteByte(0)
	}
	idx.Write(le32(crc32.ChecksumIEEE(idx.Bytes())))
	b.Write(idx.Bytes())
	ft := make([]byte, 12)
	copy(ft[4:], le32(uint32(idx.Len()/4-1)))
	ft[9] = 1
	ft[10], ft[11] = 'Y', 'Z'
	copy(ft, le32(crc32.ChecksumIEEE(ft[4:10])))
	b.Write(ft)
	return b.Bytes()
}

type opener func([]byte) (io.Reader, error)

func openLZMA2(d []byte) (io.Reader, error) {
	r, err := lzma.Reader2Config{DictCap: 4096}.NewReader2(bytes.NewReader(d))
	if err != nil {
		return nil, err
	}
	return r, nil
}

func openXZ(d []byte) (io.Reader, error) {
	r, err := xz.NewReader(bytes.NewReader(d))
	if err != nil {
		return nil, err
	}
	return r, nil
}

// measure: open + ONE Read call with a 4 KiB buffer. Returns the wall
// time of the Read call, its result and the bytes allocated meanwhile.
func measure(open opener, data []byte) (d time.Duration, n int, err error, alloc uint64) {
	var m0, m1 runtime.MemStats
	runtime.GC()
	runtime.ReadMemStats(&m0)
	st := time.Now()
	r, err := open(data)
	if err == nil {
		n, err = r.Read(make([]byte, 4096))
	}
	d = time.Since(st)
	runtime.ReadMemStats(&m1)
	return d, n, err, m1.TotalAlloc - m0.TotalAlloc
}

func best(open opener, data []byte) (bt time.Duration, n int, err error, alloc uint64) {
	bt = 1 << 62
	for i := 0; i < 3; i++ {
		d, k, e, a := measure(open, data)
		if d < bt {
			bt, n, err, alloc = d, k, e, a
		}
	}
	return
}

func main() {
	const N = 300
	const good = (0*5+4)*9 + 0 // lc=0 lp=4 pb=0: allowed in LZMA2 (lc+lp = 4)
	const bad = (0*5+4)*9 + 8  // lc=8 lp=4 pb=0: lc+lp = 12, not allowed in LZMA2
	rc := 0
	for _, c := range []struct {
		name string
		open opener
		mk   func(props byte) []byte
	}{
		{"lzma.Reader2", openLZMA2, func(p byte) []byte { return lzma2(N, p) }},
		{"xz.Reader   ", openXZ, func(p byte) []byte { return wrap(lzma2(N, p), N) }},
	} {
		gd, bd := c.mk(good), c.mk(bad)
		tg, ng, eg, ag := best(c.open, gd)
		tb, nb, eb, ab := best(c.open, bd)
		fmt.Printf("%s %d chunks lc=0 lp=4: %d bytes input: open+Read took %v -> (%d, %v), allocated %d KiB\n", c.name, N, len(gd), tg, ng, eg, ag>>10)
		fmt.Printf("%s %d chunks lc=8 lp=4: %d bytes input: open+Read took %v -> (%d, %v), allocated %d MiB\n", c.name, N, len(bd), tb, nb, eb, ab>>20)
		if ng != N {
			fmt.Println("unexpected: the valid stream was not decoded")
			os.Exit(3)
		}
		limit := 10*tg + 40*time.Millisecond
		if tb > limit {
			fmt.Printf("VIOLATION: %s: one Read call on %d bytes of input took %v (> %v = 10 x time of the same "+
				"stream with legal properties + 40ms): every 12-byte chunk with lc+lp=12 costs a new 6 MiB "+
				"probability table (%.1f ms per chunk); xz-utils rejects such a chunk at once\n",
				c.name, len(bd), tb, limit, float64(tb.Microseconds())/1000/N)
			rc = 1
		}
	}
	if rc == 0 {
		fmt.Println("ok: chunks with lc+lp > 4 do not stall the reader")
	}
	os.Exit(rc)
}
