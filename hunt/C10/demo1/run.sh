#!/bin/bash
# Demo 1: an existing entry under the target name (a dangling symbolic link)
# is silently replaced although -f was not given.
# Run with the current directory set to the root of a checkout.
export GOFLAGS=-mod=mod GOPROXY=off GOSUMDB=off GOTOOLCHAIN=local
root=$(pwd)
work=$(mktemp -d "$root/demo1tmp.XXXXXX") || exit 99
trap 'rm -rf "$work"' EXIT
go build -o "$work/gxz" ./cmd/gxz || { echo "cannot build gxz"; exit 99; }
bad=0

check() { # $1 label, $2 input name, $3 target name, remaining: gxz args
	label=$1; in=$2; target=$3; shift 3
	d="$work/$label"; mkdir "$d"; cd "$d" || exit 99
	if [ "$label" = compress ]; then
		printf 'precious payload %s\n' "$label" > "$in"
	else
		printf 'precious payload %s\n' "$label" > plain
		"$work/gxz" -c plain > "$in" || exit 99
		rm plain
	fi
	before=$(sha256sum < "$in")
	ln -s /nonexistent/annex/object-4711 "$target"   # existing target: a (currently) dangling symlink
	"$work/gxz" "$@" "$in" 2> err.txt
	code=$?
	echo "[$label] gxz $* $in -> exit $code; stderr: $(tr '\n' ' ' < err.txt)"
	rm -f err.txt
	echo "[$label] directory afterwards:"; ls -la | tail -n +4 | sed 's/^/    /'
	if [ "$code" -eq 0 ]; then
		echo "[$label] WRONG: exit status 0 although the target name '$target' existed and -f was not given"; bad=1
	fi
	if [ ! -L "$target" ] || [ "$(readlink "$target")" != /nonexistent/annex/object-4711 ]; then
		echo "[$label] WRONG: the existing entry '$target' (symlink -> /nonexistent/annex/object-4711) was replaced without -f"; bad=1
	fi
	if [ ! -f "$in" ] || [ "$(sha256sum < "$in")" != "$before" ]; then
		echo "[$label] WRONG: the input '$in' was not left untouched"; bad=1
	fi
	if ls | grep -q -E '\.(de)?compress$'; then
		echo "[$label] WRONG: temporary file left behind"; bad=1
	fi
	cd "$root"
}

check compress   data.txt     data.txt.xz
check decompress data.txt.xz  data.txt    -d

if [ $bad -ne 0 ]; then
	echo "VIOLATION: gxz overwrote an existing target without -f (xz-utils answers 'File exists' and exits 1 here)"
	exit 1
fi
echo "ok: existing target respected"
exit 0
