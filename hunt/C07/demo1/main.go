// Demo 1 (C07): lzma.Writer states any DictCap verbatim in the .lzma header.
// The reference implementation (xz-utils: xz, unlzma, lzma, xzcat, and
// liblzma's lzma_auto_decoder) only recognises .lzma headers whose dictionary
// size is 2^n or 2^n+2^(n-1) (or 2^32-1); liblzma's own encoder therefore
// rounds the header value up. A stream written by the library with, e.g.,
// DictCap 5000 is refused by the reference tools ("File format not
// recognized") - and by the library's own lzma.ValidHeader / gxz.
package main

import (
	"bytes"
	"fmt"
	"os"
	"os/exec"

	"github.com/ulikunitz/xz/lzma"
)

// xzAcceptsDict is the rule used by xz-utils (src/xz/coder.c is_format_lzma,
// src/liblzma/common/alone_decoder.c in picky mode).
func xzAcceptsDict(dictSize uint32) bool {
	if dictSize == 0xffffffff {
		return true
	}
	if dictSize == 0 {
		return false
	}
	d := dictSize - 1
	d |= d >> 2
	d |= d >> 3
	d |= d >> 4
	d |= d >> 8
	d |= d >> 16
	d++
	return d == dictSize
}

func main() {
	data := bytes.Repeat([]byte("The quick brown fox jumps over the lazy dog.\n"), 400)
	xzPath, _ := exec.LookPath("xz")
	bad := 0
	for _, dc := range []int{4096, 4097, 5000, 100000, 8<<20 + 1, 8 << 20} {
		var buf bytes.Buffer
		w, err := lzma.WriterConfig{DictCap: dc}.NewWriter(&buf)
		if err != nil {
			// refusing the configuration is an acceptable repair
			fmt.Printf("DictCap %d: NewWriter refuses: %v (fine)\n", dc, err)
			continue
		}
		if _, err = w.Write(data); err != nil {
			fmt.Printf("DictCap %d: Write: %v\n", dc, err)
			os.Exit(2)
		}
		if err = w.Close(); err != nil {
			fmt.Printf("DictCap %d: Close: %v\n", dc, err)
			os.Exit(2)
		}
		file := buf.Bytes()
		hd := uint32(file[1]) | uint32(file[2])<<8 | uint32(file[3])<<16 | uint32(file[4])<<24
		if int64(hd) < int64(dc) {
			fmt.Printf("DictCap %d: VIOLATION: header dictionary size %d is smaller than the dictionary used\n", dc, hd)
			bad++
		}
		if !xzAcceptsDict(hd) {
			fmt.Printf("DictCap %d: VIOLATION: header states dictionary size %d, which xz-utils does not recognise as .lzma (only 2^n and 2^n+2^(n-1) are accepted)\n", dc, hd)
			bad++
		}
		if xzPath != "" {
			cmd := exec.Command(xzPath, "--format=lzma", "-dc")
			cmd.Stdin = bytes.NewReader(file)
			var out, errb bytes.Buffer
			cmd.Stdout, cmd.Stderr = &out, &errb
			err := cmd.Run()
			if err != nil || !bytes.Equal(out.Bytes(), data) {
				fmt.Printf("DictCap %d: VIOLATION: `xz --format=lzma -dc` does not decode the library's stream: %v: %s", dc, err, errb.String())
				bad++
			} else {
				fmt.Printf("DictCap %d: xz decodes the stream (header dict %d)\n", dc, hd)
			}
		}
	}
	if bad > 0 {
		os.Exit(1)
	}
	fmt.Println("OK")
}
