#!/bin/sh
# run with the current directory set to the root of a checkout of github.com/ulikunitz/xz
demo=$(dirname "$(readlink -f "$0")")
export GOFLAGS=-mod=mod GOPROXY=off GOSUMDB=off GOTOOLCHAIN=local
tmp=zz_c07_demo2_$$
mkdir "$tmp" || exit 2
cp "$demo/main.go" "$tmp/main.go"
go run "./$tmp"
rc=$?
rm -rf "$tmp"
exit $rc
