// Demo 2 (C07): a valid foreign .lzma stream (LZMA SDK sample from the
// repository) is not decoded when the source delivers it with occasional
// (0, nil) reads, which the io.Reader contract permits ("Callers should treat
// a return of 0 and nil as indicating that nothing happened; in particular it
// does not indicate EOF").
package main

import (
	"bytes"
	"fmt"
	"io"
	"os"

	"github.com/ulikunitz/xz/lzma"
)

// pausingReader returns (0, nil) on every second call.
type pausingReader struct {
	r io.Reader
	k int
}

func (z *pausingReader) Read(p []byte) (int, error) {
	z.k++
	if z.k%2 == 0 {
		return 0, nil
	}
	return z.r.Read(p)
}

// plainReader hides the io.ByteReader of bytes.Reader (control).
type plainReader struct{ r io.Reader }

func (z plainReader) Read(p []byte) (int, error) { return z.r.Read(p) }

func decode(src io.Reader) ([]byte, error) {
	r, err := lzma.NewReader(src)
	if err != nil {
		return nil, fmt.Errorf("NewReader: %v", err)
	}
	return io.ReadAll(r)
}

func main() {
	want, err := os.ReadFile("lzma/examples/a.txt")
	if err != nil {
		fmt.Println(err)
		os.Exit(2)
	}
	bad := 0
	for _, name := range []string{"a.lzma", "a_eos.lzma", "a_eos_and_size.lzma"} {
		file, err := os.ReadFile("lzma/examples/" + name)
		if err != nil {
			fmt.Println(err)
			os.Exit(2)
		}
		got, err := decode(plainReader{bytes.NewReader(file)})
		if err != nil || !bytes.Equal(got, want) {
			fmt.Printf("%s: control failed (ordinary source): %v\n", name, err)
			os.Exit(2)
		}
		got, err = decode(&pausingReader{r: bytes.NewReader(file)})
		if err != nil || !bytes.Equal(got, want) {
			fmt.Printf("%s: VIOLATION: valid stream delivered by a source with (0, nil) reads is not decoded: got %d of %d bytes, error: %v\n", name, len(got), len(want), err)
			bad++
		} else {
			fmt.Printf("%s: decoded correctly from a source with (0, nil) reads\n", name)
		}
	}
	if bad > 0 {
		os.Exit(1)
	}
	fmt.Println("OK")
}
