#!/bin/bash
# Finding 3: the fixed temporary names <target>.compress and
# <target>.decompress make the result for one operand depend on the
# other operands (and on their order).
# Run with the current directory = root of a checkout of the repository.
export GOFLAGS=-mod=mod GOPROXY=off GOSUMDB=off GOTOOLCHAIN=local
root=$(pwd)
tmp=$(mktemp -d "$root/zz_demo3_XXXXXX") || exit 99
trap 'rm -rf "$tmp"' EXIT
go build -o "$tmp/gxz" ./cmd/gxz || { echo "build failed"; exit 99; }
cd "$tmp" || exit 99
bad=0

setup() {
	rm -rf w; mkdir w; cd w || exit 99
	printf 'AAA\n' > a; printf 'BBB\n' > a.decompress
	../gxz a </dev/null >/dev/null 2>&1 && ../gxz a.decompress </dev/null >/dev/null 2>&1 ||
		{ echo "setup failed"; exit 99; }
	# now: a.xz and a.decompress.xz, two unrelated compressed files
}
check() { # $1 description
	if [ $rc -ne 0 ] || [ "$(cat a 2>/dev/null)" != AAA ] || [ "$(cat a.decompress 2>/dev/null)" != BBB ]; then
		echo "VIOLATION: $1: exit status $rc, $(cat err.txt | tr '\n' ' '); directory: $(ls | tr '\n' ' ')"
		bad=1
	fi
}
# each alone and in the order a.xz, a.decompress.xz: works
setup; ../gxz -d a.xz a.decompress.xz 2>err.txt </dev/null; rc=$?; check "control 'gxz -d a.xz a.decompress.xz'"; cd ..
setup; ../gxz -d a.xz 2>err.txt </dev/null; rc=$?; ../gxz -d a.decompress.xz 2>>err.txt </dev/null; rc=$((rc+$?)); check "control, separate invocations"; cd ..
# the other order: a.xz cannot be processed
setup; ../gxz -d a.decompress.xz a.xz 2>err.txt </dev/null; rc=$?; check "'gxz -d a.decompress.xz a.xz' (the same two files in the other order)"; cd ..

# compression: a and a.xz.compress
rm -rf w; mkdir w; cd w
printf 'AAA\n' > a; printf 'CCC\n' > a.xz.compress
../gxz a.xz.compress a 2>err.txt </dev/null; rc=$?
if [ $rc -ne 0 ] || [ ! -f a.xz ] || [ ! -f a.xz.compress.xz ]; then
	echo "VIOLATION (control) 'gxz a.xz.compress a': exit status $rc $(cat err.txt)"; bad=1
fi
cd ..; rm -rf w; mkdir w; cd w
printf 'AAA\n' > a; printf 'CCC\n' > a.xz.compress
../gxz a a.xz.compress 2>err.txt </dev/null; rc=$?
if [ $rc -ne 0 ] || [ ! -f a.xz ] || [ ! -f a.xz.compress.xz ] ||
	[ "$(../gxz -dc a.xz 2>/dev/null)" != AAA ] || [ "$(../gxz -dc a.xz.compress.xz 2>/dev/null)" != CCC ]; then
	echo "VIOLATION: 'gxz a a.xz.compress' (the same two files in the other order): exit status $rc, $(cat err.txt | tr '\n' ' '); directory: $(ls | tr '\n' ' ')"
	bad=1
fi
cd ..
[ $bad -eq 0 ] && echo "ok: the operands are processed independently of their order"
exit $bad
