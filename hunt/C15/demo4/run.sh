#!/bin/bash
# Finding 4 (needs a reduced RLIMIT_NOFILE, see findings.md): every
# operand that fails in newReader after the file was opened (format not
# recognized, ...) leaks its file descriptor; after enough failing
# members a good member cannot be processed any more.
# Run with the current directory = root of a checkout of the repository.
export GOFLAGS=-mod=mod GOPROXY=off GOSUMDB=off GOTOOLCHAIN=local
root=$(pwd)
tmp=$(mktemp -d "$root/zz_demo4_XXXXXX") || exit 99
trap 'rm -rf "$tmp"' EXIT
go build -o "$tmp/gxz" ./cmd/gxz || { echo "build failed"; exit 99; }
cd "$tmp" || exit 99
bad=0
for i in $(seq 100 199); do printf 'this is not compressed data %s\n' $i > bad$i.xz; done
printf 'good\n' > zgood
./gxz zgood </dev/null || { echo "setup failed"; exit 99; }
(
	ulimit -n 64 || exit 99
	./gxz -d bad*.xz zgood.xz </dev/null 2>err.txt
	echo "exit status $? (1 expected: the bad members)"
)
if [ ! -f zgood ] || [ "$(cat zgood)" != good ]; then
	echo "VIOLATION: zgood.xz, the last of 101 operands, was not decompressed although it is a valid file: $(tail -1 err.txt)"
	echo "the 100 members before it failed (format not recognized) and each one leaked a file descriptor (limit 64)"
	bad=1
fi
[ $bad -eq 0 ] && echo "ok: failing members do not exhaust the file descriptors"
exit $bad
