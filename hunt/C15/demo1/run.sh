#!/bin/bash
# Finding 1: a dangling symbolic link that occupies the target name is
# replaced although -f was not given.
# Run with the current directory = root of a checkout of the repository.
export GOFLAGS=-mod=mod GOPROXY=off GOSUMDB=off GOTOOLCHAIN=local
root=$(pwd)
tmp=$(mktemp -d "$root/zz_demo1_XXXXXX") || exit 99
trap 'rm -rf "$tmp"' EXIT
go build -o "$tmp/gxz" ./cmd/gxz || { echo "build failed"; exit 99; }
cd "$tmp" || exit 99
bad=0

# compression: target a.xz exists as a (dangling) symbolic link
printf 'hello\n' > a
ln -s /nonexistent/zz_target a.xz
./gxz a >out.txt 2>err.txt </dev/null
rc=$?
if [ ! -L a.xz ] || [ "$(readlink a.xz)" != /nonexistent/zz_target ]; then
	echo "VIOLATION: 'gxz a' (no -f) replaced the existing directory entry a.xz (a symbolic link) - exit status $rc"
	ls -l a.xz
	bad=1
elif [ $rc -eq 0 ]; then
	echo "VIOLATION: 'gxz a' exits 0 although a.xz exists and a was not compressed"
	bad=1
fi

# decompression: target b exists as a dangling symbolic link
printf 'world\n' > b
./gxz -k b </dev/null >/dev/null 2>&1 || { echo "setup: cannot compress b"; exit 99; }
rm b
ln -s /nonexistent/zz_target2 b
./gxz -d b.xz >out.txt 2>err.txt </dev/null
rc=$?
if [ ! -L b ] || [ "$(readlink b)" != /nonexistent/zz_target2 ]; then
	echo "VIOLATION: 'gxz -d b.xz' (no -f) replaced the existing directory entry b (a symbolic link) - exit status $rc"
	ls -l b
	bad=1
fi

# control: with -f the link may be replaced
printf 'ctl\n' > c
ln -s /nonexistent/zz_target3 c.xz
./gxz -f c </dev/null >/dev/null 2>&1
if [ $? -ne 0 ] || [ -L c.xz ] || [ -e c ]; then
	echo "VIOLATION (control): 'gxz -f c' did not replace c.xz"
	bad=1
fi
[ $bad -eq 0 ] && echo "ok: existing symbolic link at the target name is kept without -f"
exit $bad
