#!/bin/bash
# Finding 2: the operand "-" (standard input, documented in the usage
# text) without -c makes gxz panic; the operands after it are never
# processed.
# Run with the current directory = root of a checkout of the repository.
export GOFLAGS=-mod=mod GOPROXY=off GOSUMDB=off GOTOOLCHAIN=local
root=$(pwd)
tmp=$(mktemp -d "$root/zz_demo2_XXXXXX") || exit 99
trap 'rm -rf "$tmp"' EXIT
go build -o "$tmp/gxz" ./cmd/gxz || { echo "build failed"; exit 99; }
cd "$tmp" || exit 99
bad=0

printf 'file b\n' > b
printf 'from stdin\n' | ./gxz - b >out.bin 2>err.txt
rc=$?
if grep -q '^panic:' err.txt; then
	echo "VIOLATION: 'gxz - b' panics: $(head -1 err.txt) (exit status $rc)"
	bad=1
fi
if [ ! -f b.xz ] || [ "$(./gxz -dc b.xz 2>/dev/null)" != "file b" ]; then
	echo "VIOLATION: operand b was not processed because the operand '-' before it failed (files are not processed independently); directory: $(ls | tr '\n' ' ')"
	bad=1
fi

# same for decompression
printf 'file c\n' > c
./gxz -k c >/dev/null 2>&1 </dev/null || { echo "setup failed"; exit 99; }
rm c
./gxz -d - c.xz < c.xz >out2.bin 2>err2.txt
rc=$?
if grep -q '^panic:' err2.txt; then
	echo "VIOLATION: 'gxz -d - c.xz' panics: $(head -1 err2.txt) (exit status $rc)"
	bad=1
fi
if [ ! -f c ] || [ "$(cat c)" != "file c" ]; then
	echo "VIOLATION: operand c.xz was not processed because the operand '-' before it failed"
	bad=1
fi
[ $bad -eq 0 ] && echo "ok: operand '-' does not prevent the processing of the other operands"
exit $bad
