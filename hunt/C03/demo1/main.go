// Demo for C03 (borderline finding 1): a well-formed .xz stream that is handed
// to xz.NewReader through an io.Reader which now and then returns (0, nil)
// -- explicitly permitted by the io.Reader contract ("Callers should treat a
// return of 0 and nil as indicating that nothing happened") -- is rejected
// with "breader.ReadByte: no data" instead of being decoded.
package main

import (
	"bytes"
	"fmt"
	"io"
	"os"

	"github.com/ulikunitz/xz"
)

// sometimesNothing passes Read through to r, but every second call reports
// "nothing happened": (0, nil).
type sometimesNothing struct {
	r     io.Reader
	calls int
}

func (s *sometimesNothing) Read(p []byte) (int, error) {
	s.calls++
	if s.calls%2 == 0 {
		return 0, nil
	}
	return s.r.Read(p)
}

const want = "The quick brown fox jumps over the lazy dog.\n"

func decode(name string, src io.Reader) bool {
	r, err := xz.NewReader(src)
	if err != nil {
		fmt.Printf("%s: NewReader failed: %v\n", name, err)
		return false
	}
	got, err := io.ReadAll(r)
	if err != nil {
		fmt.Printf("%s: VIOLATION: reading a well-formed stream failed after %d bytes: %v\n", name, len(got), err)
		return false
	}
	if string(got) != want {
		fmt.Printf("%s: VIOLATION: wrong bytes %q\n", name, got)
		return false
	}
	fmt.Printf("%s: ok\n", name)
	return true
}

func main() {
	ok := true
	for _, file := range []string{"fox.xz", "fox-check-none.xz"} {
		data, err := os.ReadFile(file)
		if err != nil {
			fmt.Println("cannot read", file, "- run from the repository root:", err)
			os.Exit(3)
		}
		// control: the same bytes through a plain reader must decode
		if !decode(file+" (plain source)", bytes.NewReader(data)) {
			fmt.Println("control failed; demo not applicable")
			os.Exit(3)
		}
		if !decode(file+" (source that returns (0,nil) on every 2nd call)", &sometimesNothing{r: bytes.NewReader(data)}) {
			ok = false
		}
	}
	if !ok {
		os.Exit(1)
	}
}
