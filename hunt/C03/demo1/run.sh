#!/bin/sh
# Run with the current directory = root of a checkout of github.com/ulikunitz/xz.
# Exits non-zero (and says why) while the defect is present, 0 once repaired.
demo=$(dirname "$(readlink -f "$0")")
export GOFLAGS=-mod=mod GOPROXY=off GOSUMDB=off GOTOOLCHAIN=local
tmp=$(mktemp -d ./zz_c03_demo1_XXXXXX) || exit 3
cp "$demo/main.go" "$tmp/main.go"
go run "./$tmp"
st=$?
rm -rf "$tmp"
exit $st
