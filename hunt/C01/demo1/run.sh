#!/bin/sh
# Run with the current directory set to the root of a checkout of
# github.com/ulikunitz/xz. Exits non-zero if the xz writer fails on the
# crafted (valid) input, 0 if every input is written and read back.
here=$(dirname "$(readlink -f "$0")")
export GOFLAGS=-mod=mod GOPROXY=off GOSUMDB=off GOTOOLCHAIN=local
tmp=$(mktemp -d ./c01demo1.XXXXXX) || exit 99
trap 'rm -rf "$tmp"' EXIT INT TERM
cp "$here/gen_test.go.txt" "$tmp/gen_test.go"
cp "$here/demo_test.go.txt" "$tmp/demo_test.go"
go test -count=1 "$tmp" 2>&1
status=$?
rm -rf "$tmp"
trap - EXIT INT TERM
if [ $status -ne 0 ]; then
	echo "demo1: VIOLATION present (xz writer returns 'limit reached' on a valid input)"
	exit 1
fi
echo "demo1: no violation"
exit 0
