#!/bin/sh
# Run with the current directory set to the root of a checkout of github.com/ulikunitz/xz.
# Exits non-zero if the xz writer fails on (or mis-encodes) the crafted valid input.
here=$(dirname "$(readlink -f "$0")")
export GOFLAGS=-mod=mod GOPROXY=off GOSUMDB=off GOTOOLCHAIN=local
d=zz_demo_c02_1
rm -rf "$d"
mkdir -p "$d/ref" || exit 2
sed "s#DEMODIR#$d#" "$here/main.go.txt" > "$d/main.go"
cp "$here/ref/ref.go.txt" "$d/ref/ref.go"
go run "./$d"
rc=$?
rm -rf "$d"
exit $rc
