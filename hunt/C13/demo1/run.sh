#!/bin/sh
# run with the current directory set to the root of a checkout of github.com/ulikunitz/xz
here=$(dirname "$(readlink -f "$0")")
export GOFLAGS=-mod=mod GOPROXY=off GOSUMDB=off GOTOOLCHAIN=local
tmp=$(mktemp -d ./c13demo1.XXXXXX) || exit 3
cp "$here/main.go" "$tmp/main.go"
go run "$tmp/main.go"
rc=$?
rm -rf "$tmp"
exit $rc
