// Demo for C13 finding 1: an empty read result (0, nil) of the source, which
// the io.Reader contract tells callers to treat as "nothing happened", turns a
// valid stream into a decoding error - but only if it happens to fall into
// range-coded payload (or the xz index); the very same empty result inside a
// header, a stored LZMA2 chunk, block padding, a check or the footer is
// tolerated. So decoded bytes and final status depend on how the source
// fragments its data.
package main

import (
	"bytes"
	"fmt"
	"io"
	"os"
	"testing/iotest"

	"github.com/ulikunitz/xz"
	"github.com/ulikunitz/xz/lzma"
)

// plain hides all optional interfaces of the wrapped reader.
type plain struct{ r io.Reader }

func (p plain) Read(b []byte) (int, error) { return p.r.Read(b) }

// gapReader hands out the data in fragments of at most 3 bytes. Before
// every 5th fragment it reports one empty fragment (0, nil). It never
// reports two empty fragments in a row and it always makes progress.
type gapReader struct {
	data  []byte
	calls int
	gaps  int
}

func (g *gapReader) Read(p []byte) (int, error) {
	if len(p) == 0 {
		return 0, nil
	}
	if len(g.data) == 0 {
		return 0, io.EOF
	}
	g.calls++
	if g.calls%5 == 0 {
		g.gaps++
		return 0, nil
	}
	n := 3
	if n > len(p) {
		n = len(p)
	}
	if n > len(g.data) {
		n = len(g.data)
	}
	copy(p, g.data[:n])
	g.data = g.data[n:]
	return n, nil
}

func decode(format string, src io.Reader) ([]byte, error) {
	var r io.Reader
	var err error
	switch format {
	case "xz":
		r, err = xz.NewReader(src)
	case "lzma":
		r, err = lzma.NewReader(src)
	case "lzma2":
		r, err = lzma.Reader2Config{DictCap: 1 << 20}.NewReader2(src)
	}
	if err != nil {
		return nil, fmt.Errorf("constructor: %v", err)
	}
	var out []byte
	buf := make([]byte, 1000)
	for {
		n, err := r.Read(buf)
		out = append(out, buf[:n]...)
		if err != nil {
			return out, err
		}
	}
}

func must(err error) {
	if err != nil {
		fmt.Println("harness error:", err)
		os.Exit(3)
	}
}

func main() {
	var text bytes.Buffer
	for i := 0; text.Len() < 20000; i++ {
		fmt.Fprintf(&text, "line %d: the quick brown fox jumps over the lazy dog\n", i*i)
	}
	data := text.Bytes()

	streams := map[string][]byte{}
	{
		var b bytes.Buffer
		w, err := xz.NewWriter(&b)
		must(err)
		_, err = w.Write(data)
		must(err)
		must(w.Close())
		streams["xz"] = b.Bytes()
	}
	{
		var b bytes.Buffer
		w, err := lzma.NewWriter(&b)
		must(err)
		_, err = w.Write(data)
		must(err)
		must(w.Close())
		streams["lzma"] = b.Bytes()
	}
	{
		var b bytes.Buffer
		w, err := lzma.NewWriter2(&b)
		must(err)
		_, err = w.Write(data)
		must(err)
		must(w.Close())
		streams["lzma2"] = b.Bytes()
	}

	bad := 0
	for _, format := range []string{"xz", "lzma", "lzma2"} {
		s := streams[format]

		// reference: contiguous source
		out0, err0 := decode(format, plain{bytes.NewReader(s)})
		if err0 != io.EOF || !bytes.Equal(out0, data) {
			fmt.Printf("%s: harness problem, contiguous source gives %d bytes, %v\n", format, len(out0), err0)
			os.Exit(3)
		}

		// judge 1: the fragmenting source is a sane io.Reader: the
		// standard library reassembles the identical byte sequence
		all, err := io.ReadAll(&gapReader{data: s})
		if err != nil || !bytes.Equal(all, s) {
			fmt.Println("harness problem: gapReader does not reproduce the stream")
			os.Exit(3)
		}
		// judge 2: the standard library's conformance test for
		// io.Reader implementations accepts the source
		if err := iotest.TestReader(&gapReader{data: s}, s); err != nil {
			fmt.Println("harness problem: iotest.TestReader rejects gapReader:", err)
			os.Exit(3)
		}

		// the fragmentation under test
		g := &gapReader{data: s}
		out1, err1 := decode(format, g)
		if err1 != err0 || !bytes.Equal(out1, out0) {
			bad++
			fmt.Printf("VIOLATION %-5s: contiguous source: %d bytes, final status %v; "+
				"source with empty fragments (0, nil): %d bytes, final status %q (after %d empty fragments)\n",
				format, len(out0), err0, len(out1), fmt.Sprint(err1), g.gaps)
		} else {
			fmt.Printf("ok        %-5s: %d bytes, final status %v with %d empty fragments\n", format, len(out1), err1, g.gaps)
		}
	}
	if bad > 0 {
		fmt.Println("decoded bytes / final status depend on the fragmentation of the source")
		os.Exit(1)
	}
}
