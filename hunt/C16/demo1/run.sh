#!/bin/sh
# Run with the current directory set to the root of a checkout of
# github.com/ulikunitz/xz. Exits non-zero if the LZMA2 reader accepts a
# chunk whose LZMA data does not fill the declared compressed size and goes
# on parsing chunk headers inside that chunk's payload.
here=$(dirname "$(readlink -f "$0")")
export GOFLAGS=-mod=mod GOPROXY=off GOSUMDB=off GOTOOLCHAIN=local
tmp=zz_c16_demo1_$$
mkdir "$tmp" || exit 2
cp "$here/demo_test.go" "$tmp/demo_test.go"
go test -count=1 "./$tmp"
status=$?
rm -rf "$tmp"
exit $status
