package demo

import (
	"bytes"
	"io"
	"testing"

	"github.com/ulikunitz/xz/lzma"
)

// LZMA payload (lc=3 lp=0 pb=2, fresh state, empty dictionary) of the five
// bytes "hello": literals h,e,l, short rep, literal o. It is exactly 9 bytes
// long; the range decoder has consumed all of them and its code value is 0
// when the fifth byte has been produced.
var hello = []byte{0x00, 0x34, 0x19, 0x49, 0xee, 0x8d, 0xd7, 0x80, 0x00}

func decode(stream []byte) (out []byte, eos bool, err error) {
	r, err := lzma.Reader2Config{DictCap: 4096}.NewReader2(bytes.NewReader(stream))
	if err != nil {
		return nil, false, err
	}
	out, err = io.ReadAll(r)
	return out, r.EOS(), err
}

func cat(parts ...[]byte) []byte {
	var b []byte
	for _, p := range parts {
		b = append(b, p...)
	}
	return b
}

func TestChunkFraming(t *testing.T) {
	// control: the exact chunk, then the end chunk.
	good := cat([]byte{0xe0, 0x00, 0x04, 0x00, 0x08, 0x5d}, hello, []byte{0x00})
	out, _, err := decode(good)
	if err != nil || string(out) != "hello" {
		t.Fatalf("control stream: got %q, %v; want \"hello\", nil", out, err)
	}

	// Stream 1: one chunk (dictionary reset + new properties) whose header
	// declares 13 bytes of compressed data: the 9 LZMA bytes and the four
	// bytes 02 00 00 58. Then the end chunk. By the chunk framing of the
	// format the chunk sequence of this stream is [LZMA+dict reset, end] and
	// the first chunk is corrupt, because its 5 uncompressed bytes are
	// complete after 9 of the declared 13 compressed bytes
	// (xz --format=raw --lzma2 -dc: "Compressed data is corrupt").
	s1 := cat([]byte{0xe0, 0x00, 0x04, 0x00, 0x0c, 0x5d}, hello,
		[]byte{0x02, 0x00, 0x00, 'X'}, []byte{0x00})
	out, _, err = decode(s1)
	if err == nil {
		t.Errorf("stream 1: a chunk that does not use up its declared compressed size was accepted; "+
			"the rest of its payload was parsed as a chunk header: output %q (the stream has no chunk that contains X)", out)
	}

	// Stream 2: the chunk declares 10 compressed bytes (9 LZMA bytes and one
	// 00 byte) and the stream ends there: there is no end chunk at all.
	s2 := cat([]byte{0xe0, 0x00, 0x04, 0x00, 0x09, 0x5d}, hello, []byte{0x00})
	out, eos, err := decode(s2)
	if err == nil {
		t.Errorf("stream 2: corrupt chunk and missing end chunk accepted: output %q, EOS()=%v "+
			"(the last payload byte of the chunk was taken for the end chunk)", out, eos)
	}
}
