#!/bin/sh
# Run with the current directory set to the root of a checkout of github.com/ulikunitz/xz.
demo=$(dirname "$(readlink -f "$0")")
export GOFLAGS=-mod=mod GOPROXY=off GOSUMDB=off GOTOOLCHAIN=local
tmp=$(mktemp -d ./zz_c06_demo2_XXXXXX) || exit 2
cp "$demo/demo_test.go" "$tmp/"
(cd "$tmp" && go test -count=1 -v .)
rc=$?
rm -rf "$tmp"
if [ $rc -ne 0 ]; then
  echo "demo2: violation present: a WriterConfig accepted by Verify (BufSize near the int maximum) makes NewWriter panic (int overflow of DictCap+BufSize)"
fi
exit $rc
