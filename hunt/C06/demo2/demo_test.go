package c06demo2

import (
	"bytes"
	"fmt"
	"io"
	"testing"

	"github.com/ulikunitz/xz/lzma"
)

// maxInt is the largest look-ahead size expressible in the BufSize field.
const maxInt = int(^uint(0) >> 1)

func try(c lzma.WriterConfig) (res string, bad bool) {
	defer func() {
		if r := recover(); r != nil {
			res = fmt.Sprintf("VIOLATION: config passes Verify but NewWriter PANICS: %v", r)
			bad = true
		}
	}()
	if err := c.Verify(); err != nil {
		return fmt.Sprintf("Verify rejects the configuration: %v (ok)", err), false
	}
	var sink bytes.Buffer
	w, err := c.NewWriter(&sink)
	if err != nil {
		// No implementation can provide a look-ahead buffer of 8 EiB, so
		// a clean refusal is accepted here; the crash is the defect.
		return fmt.Sprintf("NewWriter refuses the configuration cleanly: %v (ok)", err), false
	}
	data := []byte("hello hello hello")
	if _, err = w.Write(data); err != nil {
		return fmt.Sprintf("VIOLATION: Write fails: %v", err), true
	}
	if err = w.Close(); err != nil {
		return fmt.Sprintf("VIOLATION: Close fails: %v", err), true
	}
	r, err := lzma.NewReader(&sink)
	if err != nil {
		return fmt.Sprintf("VIOLATION: NewReader fails: %v", err), true
	}
	got, err := io.ReadAll(r)
	if err != nil || !bytes.Equal(got, data) {
		return fmt.Sprintf("VIOLATION: round trip broken: %v", err), true
	}
	return "round trip ok", false
}

// The sum DictCap+BufSize is computed in an int without an overflow check
// (newEncoderDict -> newBuffer(dictCap+bufSize) -> make([]byte, size+1)).
// Verify only demands BufSize >= 273, so these look-ahead sizes pass Verify,
// and NewWriter then panics instead of producing a writer or an error.
func TestBufSizeOverflow(t *testing.T) {
	for _, bs := range []int{maxInt, maxInt - 4096, maxInt - 4097} {
		c := lzma.WriterConfig{DictCap: 4096, BufSize: bs}
		res, bad := try(c)
		if bad {
			t.Errorf("DictCap=4096 BufSize=%d: %s", bs, res)
		} else {
			t.Logf("DictCap=4096 BufSize=%d: %s", bs, res)
		}
	}
}
