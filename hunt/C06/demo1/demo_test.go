package c06demo1

import (
	"bytes"
	"testing"

	"github.com/ulikunitz/xz/lzma"
)

// A WriterConfig that passes Verify must yield a working writer
// ("either match finder", "dictionary sizes": property C06).
// DictCap = lzma.MaxDictCap (2^32-1) is accepted by Verify and works with the
// HashTable4 matcher, but with Matcher = BinaryTree NewWriter fails.
func TestMaxDictCapBinaryTree(t *testing.T) {
	c := lzma.WriterConfig{DictCap: lzma.MaxDictCap, Matcher: lzma.BinaryTree}
	if err := c.Verify(); err != nil {
		// A repaired Verify that rejects the combination is fine: the
		// configuration is then outside the property's quantifier.
		t.Logf("Verify rejects the configuration: %v (ok)", err)
		return
	}
	var sink bytes.Buffer
	w, err := c.NewWriter(&sink)
	if err != nil {
		t.Fatalf("VIOLATION: WriterConfig{DictCap: MaxDictCap, Matcher: BinaryTree} passes Verify, "+
			"but NewWriter fails: %v", err)
	}
	if _, err = w.Write([]byte("hello")); err != nil {
		t.Fatalf("VIOLATION: Write fails: %v", err)
	}
	if err = w.Close(); err != nil {
		t.Fatalf("VIOLATION: Close fails: %v", err)
	}
}
