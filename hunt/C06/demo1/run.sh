#!/bin/sh
# Run with the current directory set to the root of a checkout of github.com/ulikunitz/xz.
demo=$(dirname "$(readlink -f "$0")")
export GOFLAGS=-mod=mod GOPROXY=off GOSUMDB=off GOTOOLCHAIN=local
tmp=$(mktemp -d ./zz_c06_demo1_XXXXXX) || exit 2
cp "$demo/demo_test.go" "$tmp/"
(cd "$tmp" && go test -count=1 -v .)
rc=$?
rm -rf "$tmp"
if [ $rc -ne 0 ]; then
  echo "demo1: violation present: a WriterConfig accepted by Verify (DictCap=MaxDictCap, Matcher=BinaryTree) cannot create a writer"
fi
exit $rc
