// Demo for finding 1: a damaged LZMA2 chunk header (compressed-size field
// larger than the chunk really is) is accepted silently by the xz reader.
package main

import (
	"bytes"
	"encoding/binary"
	"fmt"
	"io"
	"os"
	"strings"

	"github.com/ulikunitz/xz"
)

func build(check byte, none bool, data []byte) []byte {
	cfg := xz.WriterConfig{DictCap: 4096, CheckSum: check, NoCheckSum: none}
	var buf bytes.Buffer
	w, err := cfg.NewWriter(&buf)
	if err != nil {
		panic(err)
	}
	if _, err = w.Write(data); err != nil {
		panic(err)
	}
	if err = w.Close(); err != nil {
		panic(err)
	}
	return buf.Bytes()
}

func decode(b []byte) ([]byte, error) {
	r, err := xz.NewReader(bytes.NewReader(b))
	if err != nil {
		return nil, err
	}
	return io.ReadAll(r)
}

func main() {
	data := []byte(strings.Repeat("The quick brown fox jumps over the lazy dog. ", 40))
	bad := 0
	for _, c := range []struct {
		name  string
		check byte
		none  bool
	}{{"CRC32", xz.CRC32, false}, {"CRC64", xz.CRC64, false}, {"SHA256", xz.SHA256, false}, {"None", 0, true}} {
		b := build(c.check, c.none, data)
		if d, err := decode(b); err != nil || !bytes.Equal(d, data) {
			fmt.Println("harness problem: original stream does not decode:", err)
			os.Exit(2)
		}
		// stream header 12 bytes, then the block header, then the first
		// LZMA2 chunk header: control, uncompressed size-1 (2 bytes BE),
		// compressed size-1 (2 bytes BE), [props]
		chunk := 12 + (int(b[12])+1)*4
		if b[chunk] < 0x80 {
			fmt.Println("harness problem: first chunk is not LZMA compressed")
			os.Exit(2)
		}
		csize := binary.BigEndian.Uint16(b[chunk+3:])
		// single-bit flips in the 16-bit field that make the value larger
		for bit := 0; bit < 16; bit++ {
			if csize&(1<<uint(bit)) != 0 {
				continue
			}
			m := append([]byte(nil), b...)
			binary.BigEndian.PutUint16(m[chunk+3:], csize|1<<uint(bit))
			d, err := decode(m)
			if err == nil {
				bad++
				fmt.Printf("check %-6s: chunk compressed-size field %#04x -> %#04x (one bit flipped at file offset %d): "+
					"reader reports clean EOF (content equal: %v); the chunk header contradicts the data and must be reported\n",
					c.name, csize, csize|1<<uint(bit), chunk+3+(1-bit/8), bytes.Equal(d, data))
			}
		}
	}
	if bad > 0 {
		fmt.Printf("VIOLATION: %d single-bit modifications of the LZMA2 chunk compressed-size field were accepted without error\n", bad)
		os.Exit(1)
	}
	fmt.Println("ok: every enlarged chunk compressed-size field is reported as an error")
}
