#!/bin/sh
# run with the current directory set to the root of a checkout of github.com/ulikunitz/xz
here=$(dirname "$(readlink -f "$0")")
export GOFLAGS=-mod=mod GOPROXY=off GOSUMDB=off GOTOOLCHAIN=local
tmp=$(mktemp -d ./c04demo1.XXXXXX) || exit 2
cp "$here/main.go" "$tmp/main.go"
go run "./$tmp"
rc=$?
rm -rf "$tmp"
exit $rc
