// Demo for finding 2 (borderline): the error of a damaged follow-up stream is
// not sticky. A caller that calls Read again after the error gets a clean
// io.EOF although the content delivered differs from the original.
package main

import (
	"bytes"
	"fmt"
	"io"
	"os"

	"github.com/ulikunitz/xz"
)

func build(data []byte) []byte {
	cfg := xz.WriterConfig{DictCap: 4096, CheckSum: xz.CRC32}
	var buf bytes.Buffer
	w, err := cfg.NewWriter(&buf)
	if err != nil {
		panic(err)
	}
	w.Write(data)
	if err = w.Close(); err != nil {
		panic(err)
	}
	return buf.Bytes()
}

func main() {
	d1 := []byte("first stream: The quick brown fox jumps over the lazy dog.\n")
	d2 := []byte("second stream: Pack my box with five dozen liquor jugs.\n")
	s1, s2 := build(d1), build(d2)
	file := append(append([]byte(nil), s1...), s2...)
	orig := append(append([]byte(nil), d1...), d2...)

	bad := 0
	// every single-bit flip in the 12-byte header of the second stream
	for bit := 0; bit < 12*8; bit++ {
		m := append([]byte(nil), file...)
		m[len(s1)+bit/8] ^= 1 << uint(bit%8)
		r, err := xz.NewReader(bytes.NewReader(m))
		if err != nil {
			fmt.Println("harness problem:", err)
			os.Exit(2)
		}
		var out bytes.Buffer
		buf := make([]byte, 4096)
		var first error
		for i := 0; i < 1000; i++ {
			n, err := r.Read(buf)
			out.Write(buf[:n])
			if err == io.EOF {
				if !bytes.Equal(out.Bytes(), orig) {
					bad++
					if bad <= 5 {
						fmt.Printf("bit %d of the second stream's header flipped: first error %q, "+
							"but a later Read reports io.EOF after %d of %d bytes\n",
							bit, first, out.Len(), len(orig))
					}
				}
				break
			}
			if err != nil {
				if first == nil {
					first = err
				}
				continue // caller goes on reading
			}
		}
		if first == nil {
			fmt.Printf("bit %d: no error at all\n", bit)
			bad++
		}
	}
	if bad > 0 {
		fmt.Printf("VIOLATION: %d of 96 header bit flips end in a clean io.EOF after incomplete content (the error is not sticky)\n", bad)
		os.Exit(1)
	}
	fmt.Println("ok: after the error no clean end of stream is reported")
}
