// Command verif is the entry point of the verification framework:
//
//	verif check <ID> [--tier quick|thorough] [--replay <file>]
//	verif list
package main

import (
	"fmt"
	"os"
	"sort"

	"verif/internal/drive"
	"verif/internal/hx"
)

func main() {
	if len(os.Args) < 2 {
		usage()
	}
	switch os.Args[1] {
	case "list":
		ids := make([]string, 0)
		for id := range drive.Checks {
			ids = append(ids, id)
		}
		sort.Strings(ids)
		for _, id := range ids {
			fmt.Println(id)
		}
	case "racework":
		// free-running concurrent workload for the race detector (C14 clause b)
		var seed int64 = 1
		rounds := 2
		if len(os.Args) > 2 {
			fmt.Sscan(os.Args[2], &seed)
		}
		if len(os.Args) > 3 {
			fmt.Sscan(os.Args[3], &rounds)
		}
		ref := ""
		if len(os.Args) > 4 {
			ref = os.Args[4]
		}
		drive.RaceWork(seed, rounds, ref)
	case "probe":
		// one risky input in this process; C11 judges how the process ends
		arg := 0
		if len(os.Args) > 3 {
			fmt.Sscan(os.Args[3], &arg)
			drive.Probe(os.Args[2], arg)
		}
	case "concref":
		// one instance of the C14 catalogue alone in this fresh process
		var seed int64 = 1
		idx := 0
		if len(os.Args) > 3 {
			fmt.Sscan(os.Args[2], &seed)
			fmt.Sscan(os.Args[3], &idx)
		}
		drive.ConcRef(seed, idx)
	case "check":
		if len(os.Args) < 3 {
			usage()
		}
		id := os.Args[2]
		tier, replay := "", ""
		for i := 3; i < len(os.Args); i++ {
			switch os.Args[i] {
			case "--tier":
				i++
				tier = os.Args[i]
			case "--replay":
				i++
				replay = os.Args[i]
			default:
				usage()
			}
		}
		f, ok := drive.Checks[id]
		if !ok {
			fmt.Fprintf(os.Stderr, "unknown check %q\n", id)
			os.Exit(2)
		}
		c := hx.New(id, tier)
		c.Replay = replay
		defer func() {
			if r := recover(); r != nil {
				c.Inconclusive("driver panic: %v", r)
				c.Finish()
			}
		}()
		f(c)
		c.Finish()
	default:
		usage()
	}
}

func usage() {
	fmt.Fprintln(os.Stderr, "usage: verif check <ID> [--tier quick|thorough] [--replay file] | verif list")
	os.Exit(2)
}
