package ptrtest

import (
	"os"
	"os/exec"
	"path/filepath"
	"testing"
	"time"

	"verif/internal/ptr"
)

func TestTraceGxz(t *testing.T) {
	dir := t.TempDir()
	bin := filepath.Join(dir, "gxz")
	cmd := exec.Command("go", "build", "-o", bin, "github.com/ulikunitz/xz/cmd/gxz")
	cmd.Dir = "/verif"
	if out, err := cmd.CombinedOutput(); err != nil {
		t.Fatalf("%v %s", err, out)
	}
	work := filepath.Join(dir, "w")
	os.Mkdir(work, 0o755)
	os.WriteFile(filepath.Join(work, "a.txt"), []byte("hello hello hello hello"), 0o644)
	res, err := ptr.Run(bin, []string{"a.txt"}, work, nil, ptr.Rel(work), ptr.Plan{}, 20*time.Second)
	if err != nil {
		t.Fatal(err)
	}
	for _, e := range res.Events {
		t.Logf("%+v", e)
	}
	t.Logf("exit=%d killed=%v stderr=%s", res.Exit, res.Killed, res.Stderr)
	ents, _ := os.ReadDir(work)
	for _, e := range ents {
		t.Log(e.Name())
	}
}

func TestParallel(t *testing.T) {
	dir := t.TempDir()
	bin := filepath.Join(dir, "gxz")
	cmd := exec.Command("go", "build", "-o", bin, "github.com/ulikunitz/xz/cmd/gxz")
	cmd.Dir = "/verif"
	if out, err := cmd.CombinedOutput(); err != nil {
		t.Fatalf("%v %s", err, out)
	}
	done := make(chan string, 64)
	for i := 0; i < 16; i++ {
		go func(i int) {
			work := filepath.Join(dir, "w"+string(rune('a'+i)))
			os.Mkdir(work, 0o755)
			os.WriteFile(filepath.Join(work, "a.txt"), []byte("hello hello hello hello"), 0o644)
			for k := 0; k < 5; k++ {
				plan := ptr.Plan{}
				if k > 0 {
					plan.KillAt = 3 * k
				}
				os.WriteFile(filepath.Join(work, "a.txt"), []byte("hello hello hello hello"), 0o644)
				os.Remove(filepath.Join(work, "a.txt.xz"))
				os.Remove(filepath.Join(work, "a.txt.xz.compress"))
				res, err := ptr.Run(bin, []string{"a.txt"}, work, nil, ptr.Rel(work), plan, 10*time.Second)
				if err != nil || res.TimedOut {
					done <- "ERR " + err.Error()
					return
				}
			}
			done <- "ok"
		}(i)
	}
	for i := 0; i < 16; i++ {
		select {
		case s := <-done:
			t.Log(i, s)
		case <-time.After(40 * time.Second):
			panic("hang")
		}
	}
}
