// Package ptr is a small ptrace-based system-call stepper for linux/amd64.
// It runs an unmodified binary, records the file-system relevant system
// calls of all its threads in global order and can (a) kill the process at
// the entry of the j-th relevant call (the call then does not execute) or
// (b) make the j-th relevant call fail with a chosen errno.
package ptr

import (
	"bytes"
	"fmt"
	"os"
	"os/exec"
	"runtime"
	"strings"
	"syscall"
	"time"
)

// Event is one relevant system call.
type Event struct {
	J        int    `json:"j"`    // 1-based index among relevant calls
	Name     string `json:"name"` // openat, read, write, close, renameat, unlinkat, newfstatat, fstat, fchmod...
	A        string `json:"a"`    // first path (or the path behind the fd)
	B        string `json:"b"`    // second path (rename)
	Flags    int    `json:"flags"`
	Ret      int64  `json:"ret"` // return value (negative errno on failure)
	Injected bool   `json:"injected,omitempty"`
	// Unfinished: the call was entered but the process ended (signal, exit of another thread)
	// before its return was seen; whether it took effect is not known.
	Unfinished bool `json:"unfinished,omitempty"`
}

// Plan selects a crash or fault point (1-based index of relevant calls; 0 = none).
type Plan struct {
	KillAt   int
	FailAt   int
	Errno    syscall.Errno
	SignalAt int            // deliver Signal to the process at the entry of this call
	Signal   syscall.Signal // e.g. SIGINT
}

// Result of a traced run.
type Result struct {
	// Foreign lists attempts to remove or rename a path outside the run directory (e.g.
	// /dev/stdout). The stepper does not let them happen - the call is skipped and returns
	// EPERM, as it would for an unprivileged user - so that a check running as root cannot
	// damage the machine it runs on; the attempt itself is reported to the caller.
	Foreign  []Event
	Events   []Event
	Exit     int
	Killed   bool
	Stdout   []byte
	Stderr   []byte
	TimedOut bool
}

// wflags: wait for all kinds of children (__WALL) of THIS thread only
// (__WNOTHREAD): several tracer threads run in parallel and must not steal
// each other's tracee stops.
const wflags = syscall.WALL | 0x20000000

const (
	sysRead       = 0
	sysWrite      = 1
	sysClose      = 3
	sysStat       = 4
	sysFstat      = 5
	sysLstat      = 6
	sysRename     = 82
	sysUnlink     = 87
	sysFchmod     = 91
	sysOpenat     = 257
	sysNewfstatat = 262
	sysUnlinkat   = 263
	sysRenameat   = 264
	sysRenameat2  = 316
	sysFsync      = 74
	sysPwrite     = 18
	sysFchmodat   = 268
)

func peekString(tid int, addr uintptr) string {
	var out []byte
	buf := make([]byte, 8)
	for len(out) < 4096 {
		n, err := syscall.PtracePeekData(tid, addr+uintptr(len(out)), buf)
		if err != nil || n == 0 {
			break
		}
		if i := bytes.IndexByte(buf[:n], 0); i >= 0 {
			out = append(out, buf[:i]...)
			break
		}
		out = append(out, buf[:n]...)
	}
	return string(out)
}

// Run executes bin with args in dir under ptrace. relevant decides which
// paths matter (typically: inside the scenario directory).
func Run(bin string, args []string, dir string, stdin []byte, relevant func(path string) bool, plan Plan, timeout time.Duration) (Result, error) {
	type ret struct {
		r   Result
		err error
	}
	ch := make(chan ret, 1)
	go func() {
		runtime.LockOSThread()
		defer runtime.UnlockOSThread()
		r, err := run(bin, args, dir, stdin, relevant, plan, timeout)
		ch <- ret{r, err}
	}()
	x := <-ch
	return x.r, x.err
}

func run(bin string, args []string, dir string, stdin []byte, relevant func(string) bool, plan Plan, timeout time.Duration) (Result, error) {
	var res Result
	cmd := exec.Command(bin, args...)
	cmd.Dir = dir
	// plain files instead of pipes: no copying goroutines, nothing to wait for
	so, err := os.CreateTemp("", "ptr-out")
	if err != nil {
		return res, err
	}
	se, err := os.CreateTemp("", "ptr-err")
	if err != nil {
		return res, err
	}
	defer func() {
		so.Close()
		se.Close()
		os.Remove(so.Name())
		os.Remove(se.Name())
	}()
	cmd.Stdout, cmd.Stderr = so, se
	if stdin != nil {
		cmd.Stdin = bytes.NewReader(stdin)
	}
	cmd.Env = append(os.Environ(), "GOMAXPROCS=2")
	cmd.SysProcAttr = &syscall.SysProcAttr{Ptrace: true}
	if err := cmd.Start(); err != nil {
		return res, err
	}
	pid := cmd.Process.Pid
	var ws syscall.WaitStatus
	if _, err := syscall.Wait4(pid, &ws, wflags, nil); err != nil {
		return res, fmt.Errorf("initial wait: %w", err)
	}
	opts := syscall.PTRACE_O_TRACESYSGOOD | syscall.PTRACE_O_TRACECLONE | syscall.PTRACE_O_TRACEFORK | syscall.PTRACE_O_TRACEVFORK | 0x100000 /* EXITKILL */
	if err := syscall.PtraceSetOptions(pid, opts); err != nil {
		syscall.Kill(pid, syscall.SIGKILL)
		return res, fmt.Errorf("setoptions: %w", err)
	}
	if err := syscall.PtraceSyscall(pid, 0); err != nil {
		return res, err
	}
	inSys := map[int]bool{}     // tid -> currently between entry and exit
	pending := map[int]*Event{} // tid -> event awaiting its exit
	inject := map[int]bool{}    // tid -> the pending call was turned into a failure
	foreign := map[int]*Event{} // tid -> denied destructive call on a path outside the run directory
	fds := map[int]string{}     // fd -> path (relevant files only)
	j := 0
	deadline := time.Now().Add(timeout)
	kill := func() {
		syscall.Kill(pid, syscall.SIGKILL)
	}
	for {
		if time.Now().After(deadline) {
			res.TimedOut = true
			kill()
		}
		tid, err := syscall.Wait4(-1, &ws, wflags, nil)
		if err != nil {
			if err == syscall.EINTR {
				continue
			}
			if err == syscall.ECHILD {
				break
			}
			return res, fmt.Errorf("wait4: %w", err)
		}
		switch {
		case ws.Exited():
			if tid == pid {
				res.Exit = ws.ExitStatus()
				goto done
			}
			continue
		case ws.Signaled():
			if tid == pid {
				res.Killed = true
				res.Exit = 128 + int(ws.Signal())
				goto done
			}
			continue
		case !ws.Stopped():
			continue
		}
		sig := ws.StopSignal()
		switch {
		case sig == syscall.SIGTRAP|0x80:
			var regs syscall.PtraceRegs
			if err := syscall.PtraceGetRegs(tid, &regs); err != nil {
				syscall.PtraceSyscall(tid, 0)
				continue
			}
			if !inSys[tid] {
				inSys[tid] = true
				ev := decode(tid, &regs, fds)
				if ev != nil && (ev.Name == "unlinkat" || ev.Name == "renameat") && !relevant(ev.A) && !(ev.B != "" && relevant(ev.B)) {
					regs.Orig_rax = ^uint64(0) // skip the call
					syscall.PtraceSetRegs(tid, &regs)
					foreign[tid] = ev
				} else if ev != nil && (relevant(ev.A) || (ev.B != "" && relevant(ev.B))) {
					j++
					ev.J = j
					pending[tid] = ev
					if plan.KillAt == j {
						res.Killed = true
						kill()
						// reap everything
						for {
							t, e := syscall.Wait4(-1, &ws, wflags, nil)
							if e == syscall.ECHILD || (e == nil && t == pid && (ws.Exited() || ws.Signaled())) {
								break
							}
							if e != nil && e != syscall.EINTR {
								break
							}
						}
						res.Exit = 137
						goto done
					}
					if plan.SignalAt == j && plan.Signal != 0 {
						syscall.Kill(pid, plan.Signal)
					}
					if plan.FailAt == j {
						regs.Orig_rax = ^uint64(0) // no such syscall: the kernel skips it
						syscall.PtraceSetRegs(tid, &regs)
						inject[tid] = true
						ev.Injected = true
					}
				}
			} else {
				inSys[tid] = false
				if ev := foreign[tid]; ev != nil {
					eperm := int64(syscall.EPERM)
					regs.Rax = uint64(-eperm)
					syscall.PtraceSetRegs(tid, &regs)
					ev.Ret = -eperm
					res.Foreign = append(res.Foreign, *ev)
					delete(foreign, tid)
				}
				if ev := pending[tid]; ev != nil {
					if inject[tid] {
						regs.Rax = uint64(-int64(plan.Errno))
						syscall.PtraceSetRegs(tid, &regs)
						delete(inject, tid)
					}
					ev.Ret = int64(regs.Rax)
					if ev.Name == "openat" && ev.Ret >= 0 {
						fds[int(ev.Ret)] = ev.A
					}
					if ev.Name == "close" && ev.Ret == 0 {
						// fd number is in Flags for close events
						delete(fds, ev.Flags)
					}
					res.Events = append(res.Events, *ev)
					delete(pending, tid)
				}
			}
			syscall.PtraceSyscall(tid, 0)
		case sig == syscall.SIGTRAP:
			// clone/fork/exec event stops
			syscall.PtraceSyscall(tid, 0)
		case sig == syscall.SIGSTOP && tid != pid && !inSys[tid]:
			// new thread's initial stop
			syscall.PtraceSyscall(tid, 0)
		default:
			syscall.PtraceSyscall(tid, int(sig))
		}
	}
done:
	for _, ev := range pending {
		if ev != nil && plan.KillAt == 0 { // a kill at the entry of a call prevents it; anything else may have happened
			ev.Unfinished = true
			res.Events = append(res.Events, *ev)
		}
	}
	cmd.Process.Release()
	res.Stdout, _ = os.ReadFile(so.Name())
	res.Stderr, _ = os.ReadFile(se.Name())
	return res, nil
}

func decode(tid int, r *syscall.PtraceRegs, fds map[int]string) *Event {
	nr := int64(r.Orig_rax)
	switch nr {
	case sysOpenat:
		p := peekString(tid, uintptr(r.Rsi))
		return &Event{Name: "openat", A: p, Flags: int(r.Rdx)}
	case sysRead:
		if p, ok := fds[int(r.Rdi)]; ok {
			return &Event{Name: "read", A: p}
		}
	case sysWrite, sysPwrite:
		if p, ok := fds[int(r.Rdi)]; ok {
			return &Event{Name: "write", A: p}
		}
	case sysFsync:
		if p, ok := fds[int(r.Rdi)]; ok {
			return &Event{Name: "fsync", A: p}
		}
	case sysClose:
		if p, ok := fds[int(r.Rdi)]; ok {
			return &Event{Name: "close", A: p, Flags: int(r.Rdi)}
		}
	case sysFstat:
		if p, ok := fds[int(r.Rdi)]; ok {
			return &Event{Name: "fstat", A: p}
		}
	case sysFchmod:
		if p, ok := fds[int(r.Rdi)]; ok {
			return &Event{Name: "fchmod", A: p}
		}
	case sysNewfstatat:
		p := peekString(tid, uintptr(r.Rsi))
		if p == "" {
			if q, ok := fds[int(int32(r.Rdi))]; ok {
				return &Event{Name: "fstat", A: q}
			}
			return nil
		}
		return &Event{Name: "newfstatat", A: p, Flags: int(r.R10)}
	case sysStat, sysLstat:
		return &Event{Name: "newfstatat", A: peekString(tid, uintptr(r.Rdi))}
	case sysUnlinkat:
		return &Event{Name: "unlinkat", A: peekString(tid, uintptr(r.Rsi))}
	case sysUnlink:
		return &Event{Name: "unlinkat", A: peekString(tid, uintptr(r.Rdi))}
	case sysRenameat, sysRenameat2:
		return &Event{Name: "renameat", A: peekString(tid, uintptr(r.Rsi)), B: peekString(tid, uintptr(r.R10))}
	case sysRename:
		return &Event{Name: "renameat", A: peekString(tid, uintptr(r.Rdi)), B: peekString(tid, uintptr(r.Rsi))}
	case sysFchmodat:
		return &Event{Name: "fchmodat", A: peekString(tid, uintptr(r.Rsi))}
	}
	return nil
}

// Rel returns a relevance predicate: paths inside dir (absolute) or
// relative paths that do not escape it.
func Rel(dir string) func(string) bool {
	return func(p string) bool {
		if p == "" {
			return false
		}
		if strings.HasPrefix(p, "/") {
			return strings.HasPrefix(p, dir+"/") || p == dir
		}
		return !strings.HasPrefix(p, "..")
	}
}
