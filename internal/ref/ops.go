package ref

import (
	"errors"
	"fmt"
)

// Window is the sliding dictionary as seen by the format: all bytes produced
// since the last dictionary reset, of which the most recent DictSize are
// addressable. The reference keeps the whole history (it is an oracle, not
// a production decoder) and enforces the limit arithmetically.
type Window struct {
	Buf      []byte // everything produced since the last dictionary reset
	DictSize int64  // declared dictionary size (addressable distance limit)
	Total    int64  // bytes produced in the whole stream (all resets)
}

// Avail is the number of bytes a distance may reach back.
func (w *Window) Avail() int64 {
	n := int64(len(w.Buf))
	if n > w.DictSize {
		return w.DictSize
	}
	return n
}

func (w *Window) byteAt(dist int64) byte {
	if dist < 1 || dist > int64(len(w.Buf)) {
		return 0
	}
	return w.Buf[int64(len(w.Buf))-dist]
}

// ResetDict forgets the history (LZMA2 dictionary reset).
func (w *Window) ResetDict() { w.Buf = w.Buf[:0] }

// Errors of the operation layer.
var (
	ErrDist    = errors.New("ref: match distance beyond dictionary")
	ErrEosHere = errors.New("ref: end marker not allowed here")
)

// OpEvent is the abstract record of one decoded/encoded operation: the
// quantities the TLA+ module Lzma talks about, before the operation.
type OpEvent struct {
	K   string   `json:"k"`
	D   int64    `json:"d"`   // real distance (1..), 0 for literals
	N   int      `json:"n"`   // length
	B   int      `json:"b"`   // literal byte
	Pos int64    `json:"pos"` // bytes since last dict reset, before the op
	St  int      `json:"st"`  // state before
	Rep [4]int64 `json:"rep"` // rep distances (real, = stored+1) before
}

// decodeOp decodes one operation, updates model, and (except for EOS)
// appends the produced bytes to the window. limit is the maximum number of
// bytes the op may still produce (-1: unlimited).
func decodeOp(d *rdec, m *Model, w *Window) (Op, error) {
	pos := int64(len(w.Buf))
	posState := int(uint32(pos) & ((1 << uint(m.P.PB)) - 1))
	st := m.State
	if d.bit(&m.isMatch[st][posState]) == 0 {
		probs := m.litProbs(pos, w.byteAt(1))
		sym := uint32(1)
		if st >= 7 {
			mb := uint32(w.byteAt(int64(m.Rep[0]) + 1))
			for sym < 0x100 {
				matchBit := (mb >> 7) & 1
				mb <<= 1
				b := d.bit(&probs[((1+matchBit)<<8)+sym])
				sym = sym<<1 | b
				if matchBit != b {
					break
				}
			}
		}
		for sym < 0x100 {
			sym = sym<<1 | d.bit(&probs[sym])
		}
		m.State = stLit(st)
		b := byte(sym)
		w.Buf = append(w.Buf, b)
		w.Total++
		return Op{K: OpLit, B: b, Len: 1}, nil
	}
	var op Op
	var length int
	if d.bit(&m.isRep[st]) == 0 {
		// simple match
		m.Rep[3], m.Rep[2], m.Rep[1] = m.Rep[2], m.Rep[1], m.Rep[0]
		length = decodeLen(d, &m.lenC, posState)
		m.State = stMatch(st)
		m.Rep[0] = decodeDist(d, m, length)
		if m.Rep[0] == EosDist {
			return Op{K: OpEos}, nil
		}
		op.K = OpMatch
	} else {
		if d.bit(&m.isRepG0[st]) == 0 {
			if d.bit(&m.isRep0Lng[st][posState]) == 0 {
				m.State = stShortRep(st)
				dist := int64(m.Rep[0]) + 1
				if dist > w.Avail() {
					return Op{K: OpShort, Dist: dist, Len: 1}, ErrDist
				}
				w.Buf = append(w.Buf, w.byteAt(dist))
				w.Total++
				return Op{K: OpShort, Dist: dist, Len: 1}, nil
			}
			op.K = OpRep0
		} else {
			var dist uint32
			if d.bit(&m.isRepG1[st]) == 0 {
				dist = m.Rep[1]
				op.K = OpRep1
			} else {
				if d.bit(&m.isRepG2[st]) == 0 {
					dist = m.Rep[2]
					op.K = OpRep2
				} else {
					dist = m.Rep[3]
					m.Rep[3] = m.Rep[2]
					op.K = OpRep3
				}
				m.Rep[2] = m.Rep[1]
			}
			m.Rep[1] = m.Rep[0]
			m.Rep[0] = dist
		}
		length = decodeLen(d, &m.repLenC, posState)
		m.State = stRep(st)
	}
	op.Dist = int64(m.Rep[0]) + 1
	op.Len = length + 2
	if op.Dist > w.Avail() {
		return op, ErrDist
	}
	for i := 0; i < op.Len; i++ {
		w.Buf = append(w.Buf, w.Buf[int64(len(w.Buf))-op.Dist])
	}
	w.Total += int64(op.Len)
	return op, nil
}

func decodeLen(d *rdec, l *lenCoder, posState int) int {
	if d.bit(&l.choice) == 0 {
		return int(d.tree(l.low[posState][:], 3))
	}
	if d.bit(&l.choice2) == 0 {
		return 8 + int(d.tree(l.mid[posState][:], 3))
	}
	return 16 + int(d.tree(l.high[:], 8))
}

func decodeDist(d *rdec, m *Model, length int) uint32 {
	ls := length
	if ls > 3 {
		ls = 3
	}
	slot := d.tree(m.posSlot[ls][:], 6)
	if slot < 4 {
		return slot
	}
	nd := int(slot>>1) - 1
	dist := (2 | (slot & 1)) << uint(nd)
	if slot < 14 {
		dist += d.rtree(m.posSpec[dist-slot:], nd)
	} else {
		dist += d.direct(nd-4) << 4
		dist += d.rtree(m.align[:], 4)
	}
	return dist
}

func encodeLen(e *renc, l *lenCoder, posState int, n int) {
	switch {
	case n < 8:
		e.bit(&l.choice, 0)
		e.tree(l.low[posState][:], 3, uint32(n))
	case n < 16:
		e.bit(&l.choice, 1)
		e.bit(&l.choice2, 0)
		e.tree(l.mid[posState][:], 3, uint32(n-8))
	default:
		e.bit(&l.choice, 1)
		e.bit(&l.choice2, 1)
		e.tree(l.high[:], 8, uint32(n-16))
	}
}

func distSlot(dist uint32) uint32 {
	if dist < 4 {
		return dist
	}
	n := uint(31)
	for dist>>n == 0 {
		n--
	}
	return uint32(n)<<1 | (dist>>(n-1))&1
}

func encodeDist(e *renc, m *Model, dist uint32, length int) {
	ls := length
	if ls > 3 {
		ls = 3
	}
	slot := distSlot(dist)
	e.tree(m.posSlot[ls][:], 6, slot)
	if slot < 4 {
		return
	}
	nd := int(slot>>1) - 1
	base := (2 | (slot & 1)) << uint(nd)
	rest := dist - base
	if slot < 14 {
		e.rtree(m.posSpec[base-slot:], nd, rest)
	} else {
		e.direct(rest>>4, nd-4)
		e.rtree(m.align[:], 4, rest&15)
	}
}

// EncodeOp encodes op against the model/window. The op's kind is honoured
// literally (a simple match may carry a distance that equals a rep distance;
// the format allows that). For rep kinds Dist is ignored and taken from the
// rep queue. Illegal parameters are encoded as given when force is true
// (used to synthesise hostile streams); otherwise an error is returned.
func EncodeOp(e *renc, m *Model, w *Window, op Op, force bool) error {
	pos := int64(len(w.Buf))
	posState := int(uint32(pos) & ((1 << uint(m.P.PB)) - 1))
	st := m.State
	appendCopy := func(dist int64, n int) {
		for i := 0; i < n; i++ {
			w.Buf = append(w.Buf, w.byteAt(dist))
		}
		w.Total += int64(n)
	}
	switch op.K {
	case OpLit:
		if op.Near != 0 && int64(m.Rep[0])+1 <= pos {
			op.B = w.byteAt(int64(m.Rep[0])+1) ^ []byte{0, 0, 1, 0x80, 0x10}[op.Near]
		}
		e.bit(&m.isMatch[st][posState], 0)
		probs := m.litProbs(pos, w.byteAt(1))
		sym := uint32(op.B) | 0x100
		if st >= 7 {
			mb := uint32(w.byteAt(int64(m.Rep[0]) + 1))
			offs := uint32(0x100)
			s := uint32(1)
			for i := 7; i >= 0; i-- {
				b := (uint32(op.B) >> uint(i)) & 1
				mb <<= 1
				matchBit := mb & offs
				e.bit(&probs[offs+matchBit+s], b)
				s = s<<1 | b
				if b != 0 {
					offs &= matchBit
				} else {
					offs &^= matchBit
				}
			}
			_ = sym
		} else {
			e.tree(probs, 8, uint32(op.B))
		}
		m.State = stLit(st)
		w.Buf = append(w.Buf, op.B)
		w.Total++
		return nil
	case OpMatch, OpEos:
		dist := uint32(op.Dist - 1)
		n := op.Len
		if op.K == OpEos {
			dist = EosDist
			if n == 0 {
				n = 2
			}
		} else if !force && (op.Dist < 1 || op.Dist > w.Avail() || n < 2 || n > 273) {
			return fmt.Errorf("ref: illegal match d=%d n=%d avail=%d", op.Dist, n, w.Avail())
		}
		e.bit(&m.isMatch[st][posState], 1)
		e.bit(&m.isRep[st], 0)
		m.Rep[3], m.Rep[2], m.Rep[1], m.Rep[0] = m.Rep[2], m.Rep[1], m.Rep[0], dist
		encodeLen(e, &m.lenC, posState, n-2)
		m.State = stMatch(st)
		encodeDist(e, m, dist, n-2)
		if op.K != OpEos {
			appendCopy(op.Dist, n)
		}
		return nil
	case OpShort:
		if !force && int64(m.Rep[0])+1 > w.Avail() {
			return fmt.Errorf("ref: illegal short rep")
		}
		e.bit(&m.isMatch[st][posState], 1)
		e.bit(&m.isRep[st], 1)
		e.bit(&m.isRepG0[st], 0)
		e.bit(&m.isRep0Lng[st][posState], 0)
		m.State = stShortRep(st)
		appendCopy(int64(m.Rep[0])+1, 1)
		return nil
	case OpRep0, OpRep1, OpRep2, OpRep3:
		g := int(op.K - '0')
		if !force && (int64(m.Rep[g])+1 > w.Avail() || op.Len < 2 || op.Len > 273) {
			return fmt.Errorf("ref: illegal rep%d len=%d", g, op.Len)
		}
		e.bit(&m.isMatch[st][posState], 1)
		e.bit(&m.isRep[st], 1)
		if g == 0 {
			e.bit(&m.isRepG0[st], 0)
			e.bit(&m.isRep0Lng[st][posState], 1)
		} else {
			e.bit(&m.isRepG0[st], 1)
			dist := m.Rep[g]
			if g == 1 {
				e.bit(&m.isRepG1[st], 0)
			} else {
				e.bit(&m.isRepG1[st], 1)
				if g == 2 {
					e.bit(&m.isRepG2[st], 0)
				} else {
					e.bit(&m.isRepG2[st], 1)
					m.Rep[3] = m.Rep[2]
				}
				m.Rep[2] = m.Rep[1]
			}
			m.Rep[1] = m.Rep[0]
			m.Rep[0] = dist
		}
		encodeLen(e, &m.repLenC, posState, op.Len-2)
		m.State = stRep(st)
		appendCopy(int64(m.Rep[0])+1, op.Len)
		return nil
	}
	return fmt.Errorf("ref: unknown op kind %q", op.K)
}

// event builds the abstract event for op given the pre-state.
func event(op Op, pos int64, st int, rep [4]uint32) OpEvent {
	ev := OpEvent{K: string(rune(op.K)), D: op.Dist, N: op.Len, B: int(op.B), Pos: pos, St: st}
	for i := range rep {
		ev.Rep[i] = int64(rep[i]) + 1
	}
	return ev
}
