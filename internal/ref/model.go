// Package ref is an independent implementation of the LZMA / LZMA2 / .xz /
// .lzma formats used as the abstraction function and the reference decoder of
// the verification harness. It does NOT import github.com/ulikunitz/xz. It is
// written from the format documents (xz-file-format-1.0.4, the LZMA SDK
// specification lzma-specification.txt) and cross-checked against liblzma
// when that is present at run time.
package ref

// Props are the LZMA literal-context / literal-position / position bits.
type Props struct{ LC, LP, PB int }

// Code returns the property byte (pb*5+lp)*9+lc.
func (p Props) Code() byte { return byte((p.PB*5+p.LP)*9 + p.LC) }

// PropsFromCode decodes a property byte; ok is false for codes > 224.
func PropsFromCode(c byte) (p Props, ok bool) {
	if c > 224 {
		return p, false
	}
	p.LC = int(c % 9)
	c /= 9
	p.LP = int(c % 5)
	p.PB = int(c / 5)
	return p, true
}

const (
	numStates     = 12
	posStatesMax  = 16
	probInit      = 1024
	numBitModel   = 11
	numMoveBits   = 5
	lenLowSymbols = 8
	// EosDist is the distance value (distance-1) of the end marker.
	EosDist = 0xFFFFFFFF
)

type lenCoder struct {
	choice, choice2 uint16
	low             [posStatesMax][8]uint16
	mid             [posStatesMax][8]uint16
	high            [256]uint16
}

func (l *lenCoder) init() {
	l.choice, l.choice2 = probInit, probInit
	for i := range l.low {
		for j := range l.low[i] {
			l.low[i][j] = probInit
			l.mid[i][j] = probInit
		}
	}
	for i := range l.high {
		l.high[i] = probInit
	}
}

// Model is the adaptive probability model plus the small LZMA state machine
// (state 0..11 and the four most recent distances). It is shared by the
// reference decoder and the reference encoder.
type Model struct {
	P         Props
	State     int
	Rep       [4]uint32 // distance-1 values
	isMatch   [numStates][posStatesMax]uint16
	isRep     [numStates]uint16
	isRepG0   [numStates]uint16
	isRepG1   [numStates]uint16
	isRepG2   [numStates]uint16
	isRep0Lng [numStates][posStatesMax]uint16
	lit       []uint16
	lenC      lenCoder
	repLenC   lenCoder
	posSlot   [4][64]uint16
	posSpec   [115]uint16 // kNumFullDistances - kEndPosModelIndex + 1
	align     [16]uint16
}

// NewModel returns a model in its reset state for the given properties.
func NewModel(p Props) *Model {
	m := &Model{P: p}
	m.Reset()
	return m
}

// Reset performs an LZMA "state reset": probabilities, state and rep
// distances return to their initial values; properties are kept.
func (m *Model) Reset() {
	m.State = 0
	m.Rep = [4]uint32{}
	for i := 0; i < numStates; i++ {
		for j := 0; j < posStatesMax; j++ {
			m.isMatch[i][j] = probInit
			m.isRep0Lng[i][j] = probInit
		}
		m.isRep[i], m.isRepG0[i], m.isRepG1[i], m.isRepG2[i] = probInit, probInit, probInit, probInit
	}
	n := 0x300 << uint(m.P.LC+m.P.LP)
	if len(m.lit) != n {
		m.lit = make([]uint16, n)
	}
	for i := range m.lit {
		m.lit[i] = probInit
	}
	m.lenC.init()
	m.repLenC.init()
	for i := range m.posSlot {
		for j := range m.posSlot[i] {
			m.posSlot[i][j] = probInit
		}
	}
	for i := range m.posSpec {
		m.posSpec[i] = probInit
	}
	for i := range m.align {
		m.align[i] = probInit
	}
}

// SetProps installs new properties and resets the state.
func (m *Model) SetProps(p Props) {
	m.P = p
	m.lit = nil
	m.Reset()
}

func (m *Model) litProbs(pos int64, prev byte) []uint16 {
	lp, lc := uint(m.P.LP), uint(m.P.LC)
	ls := ((uint32(pos) & ((1 << lp) - 1)) << lc) | (uint32(prev) >> (8 - lc))
	return m.lit[0x300*ls : 0x300*ls+0x300]
}

// State transitions of the LZMA specification.
func stLit(s int) int {
	switch {
	case s < 4:
		return 0
	case s < 10:
		return s - 3
	}
	return s - 6
}
func stMatch(s int) int {
	if s < 7 {
		return 7
	}
	return 10
}
func stRep(s int) int {
	if s < 7 {
		return 8
	}
	return 11
}
func stShortRep(s int) int {
	if s < 7 {
		return 9
	}
	return 11
}

// OpKind enumerates LZMA operations.
type OpKind byte

// Operation kinds. R0..R3 are long rep matches, S the one-byte short rep.
const (
	OpLit   OpKind = 'L'
	OpMatch        = 'M'
	OpRep0         = '0'
	OpRep1         = '1'
	OpRep2         = '2'
	OpRep3         = '3'
	OpShort        = 'S'
	OpEos          = 'E'
)

// Op is one LZMA operation. Dist is the real distance (>=1) for M and the
// rep kinds (filled by the decoder), Len the real length, B the literal.
type Op struct {
	K    OpKind
	Dist int64
	Len  int
	B    byte
	// Near (encoder only, literals): 0 = code B; 1..4 = code the byte at the most recent match
	// distance itself / with its lowest bit / its highest bit / bit 4 flipped - the cases the
	// "matched literal" coding treats specially. The byte coded is what ends up in the plaintext.
	Near int
}
