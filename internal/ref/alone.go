package ref

import (
	"encoding/binary"
	"errors"
)

// AloneHeader is the 13-byte header of a classic .lzma file.
type AloneHeader struct {
	PropCode byte
	P        Props
	DictSize uint32
	Size     int64 // -1 = unknown (all ones)
	SizeRaw  uint64
}

// AloneResult is the outcome of decoding a .lzma stream.
type AloneResult struct {
	H        AloneHeader
	Out      []byte
	Marker   bool // an end marker was decoded
	Consumed int  // input bytes consumed
	NOps     int
	MaxD     int64
	Over     int64 // max(dist - min(pos, window)); <= 0 when legal
	Ops      []OpEvent
	Err      error
}

// Errors of the .lzma layer.
var (
	ErrAloneProps = errors.New("ref: invalid .lzma properties byte")
	ErrAloneSize  = errors.New("ref: .lzma content does not match the header size")
)

// ParseAloneHeader parses the 13 header bytes.
func ParseAloneHeader(in []byte) (h AloneHeader, err error) {
	if len(in) < 13 {
		return h, ErrTrunc
	}
	h.PropCode = in[0]
	p, ok := PropsFromCode(in[0])
	if !ok {
		return h, ErrAloneProps
	}
	h.P = p
	h.DictSize = binary.LittleEndian.Uint32(in[1:5])
	h.SizeRaw = binary.LittleEndian.Uint64(in[5:13])
	if h.SizeRaw == 1<<64-1 {
		h.Size = -1
	} else {
		h.Size = int64(h.SizeRaw)
	}
	return h, nil
}

// DecodeAlone decodes a classic .lzma stream. The window is
// max(header dictionary size, 4096) as the LZMA SDK prescribes. All three
// termination modes are accepted: marker only (size unknown), size only,
// size followed by a marker.
func DecodeAlone(in []byte, wantOps bool) AloneResult {
	var r AloneResult
	h, err := ParseAloneHeader(in)
	r.H = h
	if err != nil {
		r.Err = err
		return r
	}
	if h.Size < -1 {
		r.Err = ErrAloneSize
		return r
	}
	ds := int64(h.DictSize)
	if ds < 4096 {
		ds = 4096
	}
	w := &Window{DictSize: ds}
	m := NewModel(h.P)
	d, err := newRdec(in[13:])
	if err != nil {
		r.Err = err
		r.Consumed = len(in)
		return r
	}
	haveOver := false
	finish := func(e error) AloneResult {
		r.Out = w.Buf
		r.Consumed = 13 + d.pos
		if r.Consumed > len(in) {
			r.Consumed = len(in)
		}
		r.Err = e
		return r
	}
	for {
		if h.Size >= 0 && int64(len(w.Buf)) >= h.Size {
			if int64(len(w.Buf)) > h.Size {
				w.Buf = w.Buf[:h.Size]
				return finish(ErrAloneSize)
			}
			if d.code == 0 {
				return finish(nil)
			}
			// an end marker may follow a known size
			op, _ := decodeOp(d, m, w)
			if d.trunc {
				w.Buf = w.Buf[:h.Size]
				return finish(ErrTrunc)
			}
			if op.K != OpEos {
				w.Buf = w.Buf[:h.Size]
				return finish(ErrAloneSize)
			}
			r.Marker = true
			if d.code != 0 {
				return finish(ErrRcTail)
			}
			return finish(nil)
		}
		prePos, preSt, preRep := int64(len(w.Buf)), m.State, m.Rep
		op, err := decodeOp(d, m, w)
		if d.trunc {
			w.Buf = w.Buf[:prePos]
			return finish(ErrTrunc)
		}
		if op.K == OpEos {
			r.Marker = true
			if d.code != 0 {
				return finish(ErrRcTail)
			}
			if h.Size >= 0 {
				return finish(ErrAloneSize)
			}
			return finish(nil)
		}
		if op.K != OpLit {
			if op.Dist > r.MaxD {
				r.MaxD = op.Dist
			}
			if ov := op.Dist - minI64(prePos, ds); !haveOver || ov > r.Over {
				r.Over, haveOver = ov, true
			}
		}
		if err != nil {
			return finish(err)
		}
		r.NOps++
		if wantOps {
			r.Ops = append(r.Ops, event(op, prePos, preSt, preRep))
		}
	}
}
