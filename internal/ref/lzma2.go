package ref

import (
	"errors"
	"fmt"
)

// ChunkEv is the abstract record of one LZMA2 chunk.
type ChunkEv struct {
	Off   int       `json:"off"`  // offset of the control byte in the LZMA2 stream
	Ctrl  int       `json:"ctrl"` // control byte
	Kind  string    `json:"k"`    // EOS UD U L LR LRN LRND BAD
	U     int       `json:"u"`    // uncompressed size (real)
	C     int       `json:"c"`    // compressed size (real; raw chunks: = U)
	LC    int       `json:"lc"`
	LP    int       `json:"lp"`
	PB    int       `json:"pb"`
	NOps  int       `json:"nops"`
	MaxD  int64     `json:"maxd"`  // largest distance used in this chunk
	Over  int64     `json:"over"`  // max(distance - bytes available) ; <= 0 when legal
	Start int64     `json:"start"` // bytes since last dict reset before the chunk
	Ops   []OpEvent `json:"-"`
}

// KindOf maps a control byte to the chunk kind name ("BAD" for 0x03..0x7f).
func KindOf(ctrl byte) string {
	switch {
	case ctrl == 0:
		return "EOS"
	case ctrl == 1:
		return "UD"
	case ctrl == 2:
		return "U"
	case ctrl < 0x80:
		return "BAD"
	}
	switch (ctrl >> 5) & 3 {
	case 0:
		return "L"
	case 1:
		return "LR"
	case 2:
		return "LRN"
	}
	return "LRND"
}

// L2Result is the outcome of decoding an LZMA2 chunk sequence.
type L2Result struct {
	Out      []byte
	Chunks   []ChunkEv
	Consumed int   // bytes of input consumed (incl. the end chunk if Ended)
	Ended    bool  // an end chunk (0x00) was read
	Err      error // nil iff Ended (a sequence without end chunk is ErrTrunc)
	BadChunk int   // index of the chunk at which Err arose (-1 if none)
}

// Errors of the chunk layer.
var (
	ErrChunkCtrl = errors.New("ref: invalid LZMA2 control byte")
	ErrNeedDict  = errors.New("ref: first chunk must reset the dictionary")
	ErrNeedProps = errors.New("ref: LZMA chunk without properties after dictionary reset")
	ErrLcLp      = errors.New("ref: lc+lp > 4 in LZMA2")
	ErrProps     = errors.New("ref: invalid properties byte")
	ErrChunkSize = errors.New("ref: chunk data does not match its declared sizes")
	ErrRcTail    = errors.New("ref: range coder not finished at end of chunk/stream")
)

// L2Opts tunes the LZMA2 reference decoder.
type L2Opts struct {
	DictSize int64 // addressable window; 0 = unlimited (2^32-1)
	WantOps  bool  // record every operation
	// NoEndOK: treat end of input at a chunk boundary as a non-error
	// (used to judge flushed prefixes). Err is still ErrTrunc but
	// Out holds everything decoded.
}

// DecodeLZMA2 decodes an LZMA2 chunk sequence strictly by the format rules.
func DecodeLZMA2(in []byte, o L2Opts) L2Result {
	if o.DictSize <= 0 {
		o.DictSize = 1<<32 - 1
	}
	res := L2Result{BadChunk: -1}
	w := &Window{DictSize: o.DictSize}
	var m *Model
	needDict, needProps := true, true
	pos := 0
	fail := func(err error) L2Result {
		res.Err = err
		res.BadChunk = len(res.Chunks) - 1
		if res.BadChunk < 0 {
			res.BadChunk = 0
		}
		res.Consumed = pos
		return res
	}
	for {
		if pos >= len(in) {
			res.Consumed = pos
			res.Err = ErrTrunc
			res.BadChunk = len(res.Chunks)
			return res
		}
		ctrl := in[pos]
		ev := ChunkEv{Off: pos, Ctrl: int(ctrl), Kind: KindOf(ctrl), Start: int64(len(w.Buf))}
		if ctrl == 0 {
			res.Chunks = append(res.Chunks, ev)
			pos++
			res.Consumed = pos
			res.Ended = true
			return res
		}
		if ev.Kind == "BAD" {
			res.Chunks = append(res.Chunks, ev)
			return fail(ErrChunkCtrl)
		}
		if ctrl < 0x80 {
			// raw chunk
			if pos+3 > len(in) {
				res.Chunks = append(res.Chunks, ev)
				return fail(ErrTrunc)
			}
			u := (int(in[pos+1])<<8 | int(in[pos+2])) + 1
			ev.U, ev.C = u, u
			res.Chunks = append(res.Chunks, ev)
			if ctrl == 1 {
				w.ResetDict()
				needDict = false
				needProps = true
			} else if needDict {
				return fail(ErrNeedDict)
			}
			if pos+3+u > len(in) {
				// deliver what is there, then report truncation
				w.Buf = append(w.Buf, in[pos+3:]...)
				res.Out = append(res.Out, in[pos+3:]...)
				pos = len(in)
				return fail(ErrTrunc)
			}
			w.Buf = append(w.Buf, in[pos+3:pos+3+u]...)
			w.Total += int64(u)
			res.Out = append(res.Out, in[pos+3:pos+3+u]...)
			pos += 3 + u
			// A raw chunk leaves the LZMA state untouched per format,
			// but the next LZMA chunk after a *dict reset* needs props.
			continue
		}
		// LZMA chunk
		hl := 5
		if ctrl >= 0xC0 {
			hl = 6
		}
		if pos+hl > len(in) {
			res.Chunks = append(res.Chunks, ev)
			return fail(ErrTrunc)
		}
		u := (int(ctrl&0x1F)<<16 | int(in[pos+1])<<8 | int(in[pos+2])) + 1
		c := (int(in[pos+3])<<8 | int(in[pos+4])) + 1
		ev.U, ev.C = u, c
		reset := (ctrl >> 5) & 3
		if reset == 3 {
			w.ResetDict()
			ev.Start = 0
			needDict = false
			needProps = true // will be satisfied just below
		} else if needDict {
			res.Chunks = append(res.Chunks, ev)
			return fail(ErrNeedDict)
		}
		if reset >= 2 {
			p, ok := PropsFromCode(in[pos+5])
			ev.LC, ev.LP, ev.PB = p.LC, p.LP, p.PB
			if !ok {
				res.Chunks = append(res.Chunks, ev)
				return fail(ErrProps)
			}
			if p.LC+p.LP > 4 {
				res.Chunks = append(res.Chunks, ev)
				return fail(ErrLcLp)
			}
			if m == nil {
				m = NewModel(p)
			} else {
				m.SetProps(p)
			}
			needProps = false
		} else if needProps {
			res.Chunks = append(res.Chunks, ev)
			return fail(ErrNeedProps)
		} else if reset == 1 {
			m.Reset()
		}
		if m != nil {
			ev.LC, ev.LP, ev.PB = m.P.LC, m.P.LP, m.P.PB
		}
		pos += hl
		avail := len(in) - pos
		truncated := avail < c
		data := in[pos:]
		if !truncated {
			data = in[pos : pos+c]
		}
		startOut := len(w.Buf)
		var derr error
		d, err := newRdec(data)
		if err != nil {
			derr = err
		} else {
			produced := 0
			haveOver := false
			for produced < u {
				prePos, preSt, preRep := int64(len(w.Buf)), m.State, m.Rep
				op, err := decodeOp(d, m, w)
				if d.trunc {
					// roll back the bytes of an op decoded from missing input
					w.Buf = w.Buf[:prePos]
					derr = ErrTrunc
					if !truncated {
						derr = ErrChunkSize
					}
					break
				}
				if op.K == OpEos {
					derr = ErrEosHere
					break
				}
				if op.K != OpLit {
					if op.Dist > ev.MaxD {
						ev.MaxD = op.Dist
					}
					if ov := op.Dist - minI64(prePos, o.DictSize); !haveOver || ov > ev.Over {
						ev.Over, haveOver = ov, true
					}
				}
				if err != nil {
					derr = err
					break
				}
				ev.NOps++
				if o.WantOps {
					ev.Ops = append(ev.Ops, event(op, prePos, preSt, preRep))
				}
				produced += op.Len
				if produced > u {
					w.Buf = w.Buf[:startOut+u]
					derr = ErrChunkSize
					break
				}
			}
			if derr == nil {
				if d.pos != c || truncated {
					derr = ErrChunkSize
					if truncated {
						derr = ErrTrunc
					}
				} else if d.code != 0 {
					derr = ErrRcTail
				}
			}
		}
		res.Chunks = append(res.Chunks, ev)
		res.Out = append(res.Out, w.Buf[startOut:]...)
		if derr != nil {
			if truncated {
				pos = len(in)
			}
			return fail(derr)
		}
		pos += c
	}
}

func minI64(a, b int64) int64 {
	if a < b {
		return a
	}
	return b
}

func (c ChunkEv) String() string {
	return fmt.Sprintf("%s(u=%d,c=%d)", c.Kind, c.U, c.C)
}
