package ref

import (
	"encoding/binary"
	"fmt"
	"hash/crc32"
)

// ChunkSpec describes one LZMA2 chunk to synthesise.
type ChunkSpec struct {
	Kind  string // EOS UD U L LR LRN LRND BAD
	Ctrl  int    // control byte for BAD
	Raw   []byte // payload of U / UD
	Ops   []Op   // operations of an LZMA chunk
	Props Props  // for LRN / LRND
	// Hostile knobs (all zero for valid streams).
	Force      bool // encode illegal ops as given
	USizeDelta int  // added to the declared uncompressed size
	CSizeDelta int  // added to the declared compressed size
	PropByte   int  // if > 0: raw property byte to write instead of Props.Code()
}

// L2Enc synthesises LZMA2 chunk sequences with exact format semantics: the
// coder state continues across chunks unless the chunk kind resets it.
type L2Enc struct {
	M   *Model
	W   *Window
	Out []byte // compressed stream
	Pt  []byte // plaintext produced so far (all chunks)
}

// NewL2Enc returns an encoder; dictSize bounds the distances a non-forced
// operation may use.
func NewL2Enc(dictSize int64) *L2Enc {
	if dictSize <= 0 {
		dictSize = 1<<32 - 1
	}
	return &L2Enc{W: &Window{DictSize: dictSize}}
}

// Add appends one chunk.
func (e *L2Enc) Add(c ChunkSpec) error {
	switch c.Kind {
	case "EOS":
		e.Out = append(e.Out, 0)
		return nil
	case "BAD":
		e.Out = append(e.Out, byte(c.Ctrl), 0, 0)
		return nil
	case "UD", "U":
		if len(c.Raw) == 0 || len(c.Raw) > 1<<16 {
			return fmt.Errorf("synth: raw chunk size %d", len(c.Raw))
		}
		ctrl := byte(2)
		if c.Kind == "UD" {
			ctrl = 1
			e.W.ResetDict()
		}
		u := len(c.Raw) - 1 + c.USizeDelta
		e.Out = append(e.Out, ctrl, byte(u>>8), byte(u))
		e.Out = append(e.Out, c.Raw...)
		e.W.Buf = append(e.W.Buf, c.Raw...)
		e.W.Total += int64(len(c.Raw))
		e.Pt = append(e.Pt, c.Raw...)
		return nil
	case "L", "LR", "LRN", "LRND":
	default:
		return fmt.Errorf("synth: unknown chunk kind %q", c.Kind)
	}
	ctrl := byte(0x80)
	switch c.Kind {
	case "LR":
		ctrl = 0xA0
	case "LRN":
		ctrl = 0xC0
	case "LRND":
		ctrl = 0xE0
	}
	if c.Kind == "LRND" {
		e.W.ResetDict()
	}
	if c.Kind == "LRN" || c.Kind == "LRND" {
		if e.M == nil {
			e.M = NewModel(c.Props)
		} else {
			e.M.SetProps(c.Props)
		}
	} else {
		if e.M == nil {
			e.M = NewModel(Props{3, 0, 2})
		}
		if c.Kind == "LR" {
			e.M.Reset()
		}
	}
	rc := newRenc()
	start := len(e.W.Buf)
	for _, op := range c.Ops {
		if err := EncodeOp(rc, e.M, e.W, op, c.Force); err != nil {
			return err
		}
	}
	data := rc.finish()
	produced := len(e.W.Buf) - start
	if produced == 0 && !c.Force {
		return fmt.Errorf("synth: empty LZMA chunk")
	}
	if (produced > 1<<21 || len(data) > 1<<16) && !c.Force {
		return fmt.Errorf("synth: chunk too large u=%d c=%d", produced, len(data))
	}
	u := produced - 1 + c.USizeDelta
	cs := len(data) - 1 + c.CSizeDelta
	e.Out = append(e.Out, ctrl|byte(u>>16)&0x1F, byte(u>>8), byte(u), byte(cs>>8), byte(cs))
	if ctrl >= 0xC0 {
		pb := c.Props.Code()
		if c.PropByte > 0 {
			pb = byte(c.PropByte)
		}
		e.Out = append(e.Out, pb)
	}
	e.Out = append(e.Out, data...)
	e.Pt = append(e.Pt, e.W.Buf[start:]...)
	return nil
}

// EncodeAlone synthesises a classic .lzma stream from operations.
// mode: "marker" (size unknown + marker), "size" (size only), "both".
func EncodeAlone(p Props, dictSize uint32, ops []Op, mode string, force bool) (stream, plain []byte, err error) {
	return EncodeAloneML(p, dictSize, ops, mode, force, 0)
}

// EncodeAloneML is EncodeAlone with the length field of the end marker chosen by the caller
// (0 = 2, what encoders usually write). The format identifies the marker by its distance
// alone: any length 2..273 is legal.
func EncodeAloneML(p Props, dictSize uint32, ops []Op, mode string, force bool, markerLen int) (stream, plain []byte, err error) {
	ds := int64(dictSize)
	if ds < 4096 {
		ds = 4096
	}
	w := &Window{DictSize: ds}
	m := NewModel(p)
	rc := newRenc()
	for _, op := range ops {
		if err := EncodeOp(rc, m, w, op, force); err != nil {
			return nil, nil, err
		}
	}
	if mode == "marker" || mode == "both" {
		EncodeOp(rc, m, w, Op{K: OpEos, Len: markerLen}, true)
	}
	data := rc.finish()
	h := make([]byte, 13)
	h[0] = p.Code()
	binary.LittleEndian.PutUint32(h[1:], dictSize)
	if mode == "marker" {
		binary.LittleEndian.PutUint64(h[5:], 1<<64-1)
	} else {
		binary.LittleEndian.PutUint64(h[5:], uint64(len(w.Buf)))
	}
	return append(h, data...), w.Buf, nil
}

// ---- container layout (serialiser with explicit fields) ----

// LBlock is the explicit layout of one block.
type LBlock struct {
	Flags       byte // full flags byte (size-present bits are derived from HasC/HasU when Derive is set)
	HasC, HasU  bool
	CSizeField  uint64
	USizeField  uint64
	FilterID    uint64
	PropLen     uint64
	FilterProps []byte
	HdrPad      []byte
	SizeByteAdj int // added to the computed size byte (hostile)
	HdrCrcBad   bool
	Data        []byte
	Pad         []byte
	Check       []byte
	// Wrap names header integers ("csize", "usize", "filter", "proplen") written as the ten-byte
	// encoding of value + 2^64 (hostile: a decoder working modulo 2^64 reads the same value)
	Wrap map[string]bool
}

// LStream is the explicit layout of one stream.
type LStream struct {
	Magic     []byte
	Flag0     byte
	Flag1     byte
	HdrCrcBad bool
	Blocks    []LBlock
	Indicator byte
	Count     uint64
	Recs      []XZRecord
	IdxPad    []byte
	IdxCrcBad bool
	Backward  uint32 // stored value (real size / 4 - 1)
	FtrFlag0  byte
	FtrFlag1  byte
	FtrMagic  []byte
	FtrCrcBad bool
	PadAfter  []byte
	// Wrap names index integers ("count", "unpadded:<i>", "usize:<i>", i 0-based) written as the
	// ten-byte encoding of value + 2^64
	Wrap map[string]bool
}

// HeaderBytes serialises the block header (size byte and CRC computed).
func (b *LBlock) HeaderBytes() []byte {
	h := []byte{0, b.Flags}
	if b.HasC {
		h = putUvarintW(h, b.CSizeField, b.Wrap["csize"])
	}
	if b.HasU {
		h = putUvarintW(h, b.USizeField, b.Wrap["usize"])
	}
	h = putUvarintW(h, b.FilterID, b.Wrap["filter"])
	h = putUvarintW(h, b.PropLen, b.Wrap["proplen"])
	h = append(h, b.FilterProps...)
	h = append(h, b.HdrPad...)
	h = append(h, 0, 0, 0, 0)
	h[0] = byte(len(h)/4 - 1 + b.SizeByteAdj)
	crc := crc32.ChecksumIEEE(h[:len(h)-4])
	if b.HdrCrcBad {
		crc ^= 0x5a5a5a5a
	}
	binary.LittleEndian.PutUint32(h[len(h)-4:], crc)
	return h
}

// FixHdrPad sets the minimal zero header padding.
func (b *LBlock) FixHdrPad() {
	b.HdrPad = nil
	n := len(b.HeaderBytes())
	for n%4 != 0 {
		b.HdrPad = append(b.HdrPad, 0)
		n++
	}
}

// Bytes serialises a list of streams.
func Serialize(streams []LStream) []byte {
	var out []byte
	for i := range streams {
		s := &streams[i]
		out = append(out, s.Magic...)
		out = append(out, s.Flag0, s.Flag1)
		crc := crc32.ChecksumIEEE([]byte{s.Flag0, s.Flag1})
		if s.HdrCrcBad {
			crc ^= 0x5a5a5a5a
		}
		out = binary.LittleEndian.AppendUint32(out, crc)
		for j := range s.Blocks {
			b := &s.Blocks[j]
			out = append(out, b.HeaderBytes()...)
			out = append(out, b.Data...)
			out = append(out, b.Pad...)
			out = append(out, b.Check...)
		}
		idx := []byte{s.Indicator}
		idx = putUvarintW(idx, s.Count, s.Wrap["count"])
		for i, r := range s.Recs {
			idx = putUvarintW(idx, r.Unpadded, s.Wrap[fmt.Sprint("unpadded:", i)])
			idx = putUvarintW(idx, r.USize, s.Wrap[fmt.Sprint("usize:", i)])
		}
		idx = append(idx, s.IdxPad...)
		crc = crc32.ChecksumIEEE(idx)
		if s.IdxCrcBad {
			crc ^= 0x5a5a5a5a
		}
		idx = binary.LittleEndian.AppendUint32(idx, crc)
		out = append(out, idx...)
		f := make([]byte, 12)
		binary.LittleEndian.PutUint32(f[4:], s.Backward)
		f[8], f[9] = s.FtrFlag0, s.FtrFlag1
		copy(f[10:], s.FtrMagic)
		crc = crc32.ChecksumIEEE(f[4:10])
		if s.FtrCrcBad {
			crc ^= 0x5a5a5a5a
		}
		binary.LittleEndian.PutUint32(f, crc)
		out = append(out, f...)
		out = append(out, s.PadAfter...)
	}
	return out
}

// putUvarintW is PutUvarint, or - wrap - the ten-byte encoding of v + 2^64: nine continuation
// bytes carrying the low 63 bits, then a byte with bit 63 of v and bit 64 set.
func putUvarintW(dst []byte, v uint64, wrap bool) []byte {
	if !wrap {
		return PutUvarint(dst, v)
	}
	for i := 0; i < 9; i++ {
		dst = append(dst, byte(v)|0x80)
		v >>= 7
	}
	return append(dst, byte(v)&1|0x02)
}

// IndexSize returns the size of the serialised index (incl. CRC).
func (s *LStream) IndexSize() int {
	n := 1 + len(putUvarintW(nil, s.Count, s.Wrap["count"]))
	for i, r := range s.Recs {
		n += len(putUvarintW(nil, r.Unpadded, s.Wrap[fmt.Sprint("unpadded:", i)])) + len(putUvarintW(nil, r.USize, s.Wrap[fmt.Sprint("usize:", i)]))
	}
	return n + len(s.IdxPad) + 4
}

// FixIndex recomputes index padding and the backward size from the records.
func (s *LStream) FixIndex() {
	s.IdxPad = nil
	n := s.IndexSize() - 4
	for n%4 != 0 {
		s.IdxPad = append(s.IdxPad, 0)
		n++
	}
	s.Backward = uint32(s.IndexSize()/4 - 1)
}

// BlockSpec is the input of BuildStream: an LZMA2 payload and its content.
type BlockSpec struct {
	L2       []byte
	Content  []byte
	WithC    bool
	WithU    bool
	DictCode int
	ExtraPad int // extra 4-byte words of header padding (allowed by the spec)
}

// BuildStream builds a valid stream layout.
func BuildStream(check int, blocks []BlockSpec) LStream {
	s := LStream{Magic: append([]byte{}, xzMagic...), Flag1: byte(check), FtrFlag1: byte(check), FtrMagic: append([]byte{}, xzFooter...)}
	for _, bs := range blocks {
		b := LBlock{HasC: bs.WithC, HasU: bs.WithU, CSizeField: uint64(len(bs.L2)), USizeField: uint64(len(bs.Content)),
			FilterID: 0x21, PropLen: 1, FilterProps: []byte{byte(bs.DictCode)}, Data: bs.L2}
		if b.HasC {
			b.Flags |= 0x40
		}
		if b.HasU {
			b.Flags |= 0x80
		}
		b.FixHdrPad()
		for i := 0; i < bs.ExtraPad*4; i++ {
			b.HdrPad = append(b.HdrPad, 0)
		}
		b.Pad = make([]byte, (4-len(bs.L2)%4)%4)
		b.Check = CheckValue(check, bs.Content)
		hl := len(b.HeaderBytes())
		s.Recs = append(s.Recs, XZRecord{uint64(hl + len(bs.L2) + len(b.Check)), uint64(len(bs.Content))})
		s.Blocks = append(s.Blocks, b)
	}
	s.Count = uint64(len(blocks))
	s.FixIndex()
	return s
}

// LayoutOf reconstructs the explicit layout of a *valid* file from the
// parse result, so that field edits can be applied and re-sealed.
func LayoutOf(in []byte, r XZResult) []LStream {
	var out []LStream
	for _, s := range r.Streams {
		ls := LStream{Magic: append([]byte{}, in[s.Off:s.Off+6]...), Flag0: byte(s.HdrFlag0), Flag1: byte(s.Check),
			Count: s.IdxCount, Recs: append([]XZRecord{}, s.Recs...), IdxPad: make([]byte, s.IdxPadLen),
			Backward: uint32(s.Backward/4 - 1), FtrFlag0: byte(s.FtrFlag0), FtrFlag1: byte(s.FtrCheck),
			FtrMagic: append([]byte{}, in[s.FtrOff+10:s.FtrOff+12]...), PadAfter: make([]byte, s.PadAfter)}
		for _, b := range s.Blocks {
			lb := LBlock{Flags: byte(b.Flags), HasC: b.CSizeField >= 0, HasU: b.USizeField >= 0,
				FilterID: uint64(b.FilterID), PropLen: uint64(b.PropLen), FilterProps: []byte{byte(b.DictCode)},
				HdrPad: make([]byte, b.HdrPadLen), Data: append([]byte{}, in[b.DataOff:b.DataOff+b.CSize]...),
				Pad: make([]byte, b.PadLen), Check: append([]byte{}, in[b.CheckOff:b.CheckOff+b.CheckLen]...)}
			if lb.HasC {
				lb.CSizeField = uint64(b.CSizeField)
			}
			if lb.HasU {
				lb.USizeField = uint64(b.USizeField)
			}
			ls.Blocks = append(ls.Blocks, lb)
		}
		out = append(out, ls)
	}
	return out
}
