package ref

import (
	"errors"
	"sync/atomic"
)

// RcEvents counts rare coincidences the reference range decoder passed through (the encoder that
// wrote the stream passed through the same range values): a range of exactly 2^24-1 (one below
// the normalisation threshold) or exactly 2^24 after a coded bit / after a direct bit. They are
// evidence that the streams a check decoded exercised these boundaries; they decide nothing.
var RcEvents struct{ BitBelowTop, BitAtTop, DirectBelowTop, DirectAtTop atomic.Int64 }

// ErrTrunc is returned when the compressed input ends inside a structure.
var ErrTrunc = errors.New("ref: truncated input")

// rdec is the range decoder (LZMA SDK convention: normalise after each bit,
// so after the last bit of a correctly terminated stream every byte written
// by the encoder's flush has been consumed).
type rdec struct {
	in    []byte
	pos   int
	rng   uint32
	code  uint32
	trunc bool
}

func (d *rdec) next() byte {
	if d.pos >= len(d.in) {
		d.trunc = true
		d.pos++
		return 0
	}
	b := d.in[d.pos]
	d.pos++
	return b
}

var errRcInit = errors.New("ref: range coder: first byte not zero or code >= range")

func newRdec(in []byte) (*rdec, error) {
	d := &rdec{in: in, rng: 0xFFFFFFFF}
	if len(in) < 5 {
		return nil, ErrTrunc
	}
	if d.next() != 0 {
		return nil, errRcInit
	}
	for i := 0; i < 4; i++ {
		d.code = d.code<<8 | uint32(d.next())
	}
	if d.code == d.rng {
		return nil, errRcInit
	}
	return d, nil
}

func (d *rdec) normalize() {
	if d.rng < 1<<24 {
		d.rng <<= 8
		d.code = d.code<<8 | uint32(d.next())
	}
}

func (d *rdec) bit(p *uint16) uint32 {
	v := uint32(*p)
	bound := (d.rng >> numBitModel) * v
	var s uint32
	if d.code < bound {
		v += ((1 << numBitModel) - v) >> numMoveBits
		d.rng = bound
	} else {
		v -= v >> numMoveBits
		d.code -= bound
		d.rng -= bound
		s = 1
	}
	*p = uint16(v)
	if d.rng-(1<<24-1) <= 1 { // 2^24-1 or 2^24 (unsigned difference)
		if d.rng == 1<<24-1 {
			RcEvents.BitBelowTop.Add(1)
		} else if d.rng == 1<<24 {
			RcEvents.BitAtTop.Add(1)
		}
	}
	d.normalize()
	return s
}

func (d *rdec) direct(n int) uint32 {
	var res uint32
	for ; n > 0; n-- {
		d.rng >>= 1
		d.code -= d.rng
		t := 0 - (d.code >> 31)
		d.code += d.rng & t
		if d.rng == 1<<24-1 {
			RcEvents.DirectBelowTop.Add(1)
		} else if d.rng == 1<<24 {
			RcEvents.DirectAtTop.Add(1)
		}
		d.normalize()
		res = res<<1 + t + 1
	}
	return res
}

func (d *rdec) tree(probs []uint16, nbits int) uint32 {
	m := uint32(1)
	for i := 0; i < nbits; i++ {
		m = m<<1 + d.bit(&probs[m])
	}
	return m - 1<<uint(nbits)
}

func (d *rdec) rtree(probs []uint16, nbits int) uint32 {
	m := uint32(1)
	var sym uint32
	for i := 0; i < nbits; i++ {
		b := d.bit(&probs[m])
		m = m<<1 + b
		sym |= b << uint(i)
	}
	return sym
}

// renc is the range encoder.
type renc struct {
	out       []byte
	low       uint64
	rng       uint32
	cache     byte
	cacheSize int64
}

func newRenc() *renc { return &renc{rng: 0xFFFFFFFF, cacheSize: 1} }

func (e *renc) shiftLow() {
	if uint32(e.low) < 0xFF000000 || (e.low>>32) != 0 {
		c := e.cache
		for {
			e.out = append(e.out, c+byte(e.low>>32))
			c = 0xFF
			e.cacheSize--
			if e.cacheSize == 0 {
				break
			}
		}
		e.cache = byte(uint32(e.low) >> 24)
	}
	e.cacheSize++
	e.low = uint64(uint32(e.low) << 8)
}

func (e *renc) bit(p *uint16, b uint32) {
	v := uint32(*p)
	bound := (e.rng >> numBitModel) * v
	if b == 0 {
		e.rng = bound
		v += ((1 << numBitModel) - v) >> numMoveBits
	} else {
		e.low += uint64(bound)
		e.rng -= bound
		v -= v >> numMoveBits
	}
	*p = uint16(v)
	for e.rng < 1<<24 {
		e.rng <<= 8
		e.shiftLow()
	}
}

func (e *renc) direct(val uint32, n int) {
	for i := n - 1; i >= 0; i-- {
		e.rng >>= 1
		if (val>>uint(i))&1 == 1 {
			e.low += uint64(e.rng)
		}
		for e.rng < 1<<24 {
			e.rng <<= 8
			e.shiftLow()
		}
	}
}

func (e *renc) tree(probs []uint16, nbits int, sym uint32) {
	m := uint32(1)
	for i := nbits - 1; i >= 0; i-- {
		b := (sym >> uint(i)) & 1
		e.bit(&probs[m], b)
		m = m<<1 | b
	}
}

func (e *renc) rtree(probs []uint16, nbits int, sym uint32) {
	m := uint32(1)
	for i := 0; i < nbits; i++ {
		b := sym & 1
		sym >>= 1
		e.bit(&probs[m], b)
		m = m<<1 | b
	}
}

// finish flushes the encoder and returns the bytes.
func (e *renc) finish() []byte {
	for i := 0; i < 5; i++ {
		e.shiftLow()
	}
	return e.out
}

// size is the number of bytes finish() would return now.
func (e *renc) size() int { return len(e.out) + int(e.cacheSize) + 4 }
