package ref

import (
	"bytes"
	"crypto/sha256"
	"encoding/binary"
	"errors"
	"fmt"
	"hash/crc32"
	"hash/crc64"
)

// XZBlock is everything the reference parser learned about one block.
type XZBlock struct {
	HdrOff     int      `json:"hdrOff"`
	HdrLen     int      `json:"hdrLen"`
	SizeByte   int      `json:"sizeByte"`
	Flags      int      `json:"flags"`
	CSizeField int64    `json:"csizeField"` // -1 absent
	USizeField int64    `json:"usizeField"` // -1 absent
	NFilters   int      `json:"nfilters"`
	FilterID   int64    `json:"filterId"`
	PropLen    int      `json:"propLen"`
	DictCode   int      `json:"dictCode"`
	HdrPadLen  int      `json:"hdrPadLen"`
	HdrPadZero bool     `json:"hdrPadZero"`
	HdrCrcOk   bool     `json:"hdrCrcOk"`
	DataOff    int      `json:"dataOff"`
	CSize      int      `json:"csize"` // measured
	USize      int      `json:"usize"` // measured
	PadLen     int      `json:"padLen"`
	PadZero    bool     `json:"padZero"`
	CheckOff   int      `json:"checkOff"`
	CheckLen   int      `json:"checkLen"`
	CheckOk    bool     `json:"checkOk"`
	Unpadded   int64    `json:"unpadded"`
	ContentOff int      `json:"contentOff"`
	MaxDist    int64    `json:"maxDist"`
	L2         L2Result `json:"-"`
}

// XZRecord is an index record.
type XZRecord struct{ Unpadded, USize uint64 }

// XZStream is one stream of a .xz file.
type XZStream struct {
	Off        int
	HdrMagicOk bool
	HdrCrcOk   bool
	HdrFlag0   int
	Check      int
	Blocks     []XZBlock
	IdxOff     int
	IdxCount   uint64
	Recs       []XZRecord
	IdxPadLen  int
	IdxPadZero bool
	IdxCrcOk   bool
	IdxSize    int
	FtrOff     int
	FtrCrcOk   bool
	Backward   int64
	FtrFlag0   int
	FtrCheck   int
	FtrMagicOk bool
	PadAfter   int
	End        int // offset just after the footer
}

// XZResult is the outcome of parsing and decoding a .xz file.
type XZResult struct {
	Streams []XZStream
	Content []byte
	Err     error
	What    string // short class tag of the first violation
	ErrOff  int
}

// XZOpts tunes the reference .xz decoder.
type XZOpts struct {
	WantOps bool
}

// CheckSize returns the size of the check field for a check id per the
// xz specification (also for reserved ids).
func CheckSize(id int) int {
	switch {
	case id == 0:
		return 0
	case id <= 3:
		return 4
	case id <= 6:
		return 8
	case id <= 9:
		return 16
	case id <= 12:
		return 32
	}
	return 64
}

var crc64Tab = crc64.MakeTable(crc64.ECMA)

// CheckValue computes the check bytes for the given id (0,1,4,10).
func CheckValue(id int, data []byte) []byte {
	switch id {
	case 1:
		b := make([]byte, 4)
		binary.LittleEndian.PutUint32(b, crc32.ChecksumIEEE(data))
		return b
	case 4:
		b := make([]byte, 8)
		binary.LittleEndian.PutUint64(b, crc64.Checksum(data, crc64Tab))
		return b
	case 10:
		s := sha256.Sum256(data)
		return s[:]
	}
	return nil
}

var (
	xzMagic  = []byte{0xFD, '7', 'z', 'X', 'Z', 0x00}
	xzFooter = []byte{'Y', 'Z'}
)

// DictSizeOfCode decodes an LZMA2 dictionary-size byte (0..40).
func DictSizeOfCode(c int) (int64, bool) {
	if c < 0 || c > 40 {
		return 0, false
	}
	if c == 40 {
		return 1<<32 - 1, true
	}
	return (2 | int64(c&1)) << uint(c/2+11), true
}

// uvarint reads an xz multibyte integer (max 9 bytes, no zero high byte).
func uvarint(b []byte) (v uint64, n int, err error) {
	for i := 0; i < len(b); i++ {
		if i >= 9 {
			return 0, 0, errors.New("ref: varint too long")
		}
		c := b[i]
		v |= uint64(c&0x7F) << (uint(i) * 7)
		if c&0x80 == 0 {
			if c == 0 && i > 0 {
				return 0, 0, errors.New("ref: varint not minimal")
			}
			return v, i + 1, nil
		}
	}
	return 0, 0, ErrTrunc
}

// PutUvarint appends the xz multibyte encoding of v.
func PutUvarint(dst []byte, v uint64) []byte {
	for v >= 0x80 {
		dst = append(dst, byte(v)|0x80)
		v >>= 7
	}
	return append(dst, byte(v))
}

func xerr(r *XZResult, off int, what string, err error) XZResult {
	r.Err = fmt.Errorf("%s at %d: %w", what, off, err)
	r.What = what
	r.ErrOff = off
	return *r
}

var errBad = errors.New("format violation")

// DecodeXZ parses and decodes a (possibly multi-stream) .xz file strictly
// according to xz-file-format-1.0.4, restricted to the LZMA2 filter and the
// checks None/CRC32/CRC64/SHA-256.
func DecodeXZ(in []byte, o XZOpts) XZResult {
	var r XZResult
	pos := 0
	for {
		// stream padding / end of file
		if len(r.Streams) > 0 {
			pad := 0
			for pos+pad < len(in) && in[pos+pad] == 0 {
				pad++
			}
			if pos+pad == len(in) {
				if pad%4 != 0 {
					return xerr(&r, pos, "stream.pad", errBad)
				}
				r.Streams[len(r.Streams)-1].PadAfter = pad
				return r
			}
			if pad%4 != 0 {
				return xerr(&r, pos, "stream.pad", errBad)
			}
			r.Streams[len(r.Streams)-1].PadAfter = pad
			pos += pad
		}
		if pos == len(in) {
			return xerr(&r, pos, "trunc", ErrTrunc)
		}
		var s XZStream
		s.Off = pos
		if pos+12 > len(in) {
			k := minInt(len(in)-pos, 6)
			if !bytes.Equal(in[pos:pos+k], xzMagic[:k]) {
				return xerr(&r, pos, "hdr.magic", errBad)
			}
			return xerr(&r, pos, "trunc", ErrTrunc)
		}
		s.HdrMagicOk = bytes.Equal(in[pos:pos+6], xzMagic)
		if !s.HdrMagicOk {
			r.Streams = append(r.Streams, s)
			return xerr(&r, pos, "hdr.magic", errBad)
		}
		s.HdrFlag0, s.Check = int(in[pos+6]), int(in[pos+7])
		s.HdrCrcOk = crc32.ChecksumIEEE(in[pos+6:pos+8]) == binary.LittleEndian.Uint32(in[pos+8:])
		if !s.HdrCrcOk {
			r.Streams = append(r.Streams, s)
			return xerr(&r, pos+8, "hdr.crc", errBad)
		}
		if s.HdrFlag0 != 0 || s.Check&0xF0 != 0 {
			r.Streams = append(r.Streams, s)
			return xerr(&r, pos+6, "hdr.flags", errBad)
		}
		if s.Check != 0 && s.Check != 1 && s.Check != 4 && s.Check != 10 {
			r.Streams = append(r.Streams, s)
			return xerr(&r, pos+7, "hdr.check", errBad)
		}
		pos += 12
		// blocks
		for {
			if pos >= len(in) {
				r.Streams = append(r.Streams, s)
				return xerr(&r, pos, "trunc", ErrTrunc)
			}
			if in[pos] == 0 {
				break
			}
			var b XZBlock
			b.HdrOff = pos
			b.SizeByte = int(in[pos])
			b.HdrLen = (b.SizeByte + 1) * 4
			b.CSizeField, b.USizeField = -1, -1
			b.ContentOff = len(r.Content)
			failB := func(off int, what string, e error) XZResult {
				s.Blocks = append(s.Blocks, b)
				r.Streams = append(r.Streams, s)
				return xerr(&r, off, what, e)
			}
			if pos+b.HdrLen > len(in) {
				return failB(pos, "trunc", ErrTrunc)
			}
			h := in[pos : pos+b.HdrLen]
			b.HdrCrcOk = crc32.ChecksumIEEE(h[:len(h)-4]) == binary.LittleEndian.Uint32(h[len(h)-4:])
			if !b.HdrCrcOk {
				return failB(pos+b.HdrLen-4, "bhdr.crc", errBad)
			}
			b.Flags = int(h[1])
			if b.Flags&0x3C != 0 {
				return failB(pos+1, "bhdr.reserved", errBad)
			}
			b.NFilters = b.Flags&3 + 1
			q := 2
			body := h[:len(h)-4]
			if b.Flags&0x40 != 0 {
				v, n, err := uvarint(body[q:])
				if err != nil || v == 0 || v >= 1<<63 {
					return failB(pos+q, "bhdr.csize", errBad)
				}
				b.CSizeField = int64(v)
				q += n
			}
			if b.Flags&0x80 != 0 {
				v, n, err := uvarint(body[q:])
				if err != nil || v >= 1<<63 {
					return failB(pos+q, "bhdr.usize", errBad)
				}
				b.USizeField = int64(v)
				q += n
			}
			if b.NFilters != 1 {
				return failB(pos+1, "bhdr.filter", errBad)
			}
			id, n, err := uvarint(body[q:])
			if err != nil {
				return failB(pos+q, "bhdr.filter", errBad)
			}
			b.FilterID = int64(id)
			if id != 0x21 {
				return failB(pos+q, "bhdr.filter", errBad)
			}
			q += n
			pl, n, err := uvarint(body[q:])
			if err != nil {
				return failB(pos+q, "bhdr.filter", errBad)
			}
			b.PropLen = int(pl)
			if pl != 1 {
				return failB(pos+q, "bhdr.proplen", errBad)
			}
			q += n
			if q >= len(body) {
				return failB(pos+q, "bhdr.filter", errBad)
			}
			b.DictCode = int(body[q])
			ds, ok := DictSizeOfCode(b.DictCode)
			if !ok {
				return failB(pos+q, "bhdr.dict", errBad)
			}
			q++
			b.HdrPadLen = len(body) - q
			b.HdrPadZero = true
			for _, c := range body[q:] {
				if c != 0 {
					b.HdrPadZero = false
				}
			}
			if !b.HdrPadZero {
				return failB(pos+q, "bhdr.pad", errBad)
			}
			pos += b.HdrLen
			b.DataOff = pos
			// compressed data
			l2in := in[pos:]
			if b.CSizeField >= 0 && int64(len(l2in)) > b.CSizeField {
				l2in = l2in[:b.CSizeField]
			}
			b.L2 = DecodeLZMA2(l2in, L2Opts{DictSize: ds, WantOps: o.WantOps})
			b.CSize = b.L2.Consumed
			b.USize = len(b.L2.Out)
			for _, c := range b.L2.Chunks {
				if c.MaxD > b.MaxDist {
					b.MaxDist = c.MaxD
				}
			}
			r.Content = append(r.Content, b.L2.Out...)
			if b.L2.Err != nil {
				what := "lzma2"
				if errors.Is(b.L2.Err, ErrTrunc) {
					if b.CSizeField >= 0 && int64(len(in)-pos) >= b.CSizeField {
						what = "block.csize"
					} else {
						what = "trunc"
					}
				}
				return failB(pos+b.L2.Consumed, what, b.L2.Err)
			}
			if b.CSizeField >= 0 && int64(b.CSize) != b.CSizeField {
				return failB(pos, "block.csize", errBad)
			}
			if b.USizeField >= 0 && int64(b.USize) != b.USizeField {
				return failB(pos, "block.usize", errBad)
			}
			pos += b.CSize
			b.PadLen = (4 - b.CSize%4) % 4
			if pos+b.PadLen > len(in) {
				return failB(pos, "trunc", ErrTrunc)
			}
			b.PadZero = true
			for _, c := range in[pos : pos+b.PadLen] {
				if c != 0 {
					b.PadZero = false
				}
			}
			if !b.PadZero {
				return failB(pos, "block.pad", errBad)
			}
			pos += b.PadLen
			b.CheckOff = pos
			b.CheckLen = CheckSize(s.Check)
			if pos+b.CheckLen > len(in) {
				return failB(pos, "trunc", ErrTrunc)
			}
			b.CheckOk = bytes.Equal(in[pos:pos+b.CheckLen], CheckValue(s.Check, b.L2.Out))
			if !b.CheckOk {
				return failB(pos, "block.check", errBad)
			}
			pos += b.CheckLen
			b.Unpadded = int64(b.HdrLen + b.CSize + b.CheckLen)
			s.Blocks = append(s.Blocks, b)
		}
		// index
		failS := func(off int, what string, e error) XZResult {
			r.Streams = append(r.Streams, s)
			return xerr(&r, off, what, e)
		}
		s.IdxOff = pos
		q := pos + 1
		cnt, n, err := uvarint(in[q:])
		if err != nil {
			if errors.Is(err, ErrTrunc) {
				return failS(q, "trunc", ErrTrunc)
			}
			return failS(q, "index.count", errBad)
		}
		s.IdxCount = cnt
		if cnt != uint64(len(s.Blocks)) {
			return failS(q, "index.count", errBad)
		}
		q += n
		for i := 0; i < int(cnt); i++ {
			up, n1, err := uvarint(in[q:])
			if err != nil {
				if errors.Is(err, ErrTrunc) {
					return failS(q, "trunc", ErrTrunc)
				}
				return failS(q, "index.rec", errBad)
			}
			us, n2, err := uvarint(in[q+n1:])
			if err != nil {
				if errors.Is(err, ErrTrunc) {
					return failS(q+n1, "trunc", ErrTrunc)
				}
				return failS(q+n1, "index.rec", errBad)
			}
			s.Recs = append(s.Recs, XZRecord{up, us})
			if up != uint64(s.Blocks[i].Unpadded) || us != uint64(s.Blocks[i].USize) {
				return failS(q, "index.rec", errBad)
			}
			q += n1 + n2
		}
		s.IdxPadLen = (4 - (q-pos)%4) % 4
		if q+s.IdxPadLen+4 > len(in) {
			return failS(q, "trunc", ErrTrunc)
		}
		s.IdxPadZero = true
		for _, c := range in[q : q+s.IdxPadLen] {
			if c != 0 {
				s.IdxPadZero = false
			}
		}
		if !s.IdxPadZero {
			return failS(q, "index.pad", errBad)
		}
		q += s.IdxPadLen
		s.IdxCrcOk = crc32.ChecksumIEEE(in[pos:q]) == binary.LittleEndian.Uint32(in[q:])
		if !s.IdxCrcOk {
			return failS(q, "index.crc", errBad)
		}
		q += 4
		s.IdxSize = q - pos
		pos = q
		// footer
		s.FtrOff = pos
		if pos+12 > len(in) {
			return failS(pos, "trunc", ErrTrunc)
		}
		f := in[pos : pos+12]
		s.FtrMagicOk = bytes.Equal(f[10:], xzFooter)
		if !s.FtrMagicOk {
			return failS(pos+10, "ftr.magic", errBad)
		}
		s.FtrCrcOk = crc32.ChecksumIEEE(f[4:10]) == binary.LittleEndian.Uint32(f[:4])
		if !s.FtrCrcOk {
			return failS(pos, "ftr.crc", errBad)
		}
		s.Backward = (int64(binary.LittleEndian.Uint32(f[4:8])) + 1) * 4
		s.FtrFlag0, s.FtrCheck = int(f[8]), int(f[9])
		if s.FtrFlag0 != s.HdrFlag0 || s.FtrCheck != s.Check {
			return failS(pos+8, "ftr.flags", errBad)
		}
		if s.Backward != int64(s.IdxSize) {
			return failS(pos+4, "ftr.backward", errBad)
		}
		pos += 12
		s.End = pos
		r.Streams = append(r.Streams, s)
		if pos == len(in) {
			return r
		}
	}
}

func minInt(a, b int) int {
	if a < b {
		return a
	}
	return b
}

// Region is a byte range of a valid file with its grammatical kind.
type Region struct {
	Kind     string
	Off, End int
}

// Regions returns the region map of a successfully parsed file (zero-length
// regions are omitted except the BEND markers).
func (r XZResult) Regions() []Region {
	var out []Region
	add := func(k string, off, end int) {
		if end > off || k == "BEND" {
			out = append(out, Region{k, off, end})
		}
	}
	for _, s := range r.Streams {
		add("SHDR", s.Off, s.Off+12)
		for _, b := range s.Blocks {
			add("BHDR", b.HdrOff, b.HdrOff+b.HdrLen)
			add("DATA", b.DataOff, b.DataOff+b.CSize)
			add("BPAD", b.DataOff+b.CSize, b.CheckOff)
			add("BCHECK", b.CheckOff, b.CheckOff+b.CheckLen)
			add("BEND", b.CheckOff+b.CheckLen, b.CheckOff+b.CheckLen)
		}
		add("INDEX", s.IdxOff, s.IdxOff+s.IdxSize)
		add("FOOTER", s.FtrOff, s.FtrOff+12)
		add("SPAD", s.End, s.End+s.PadAfter)
	}
	return out
}
