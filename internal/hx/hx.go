// Package hx is the common frame of every check: tier/seed handling,
// scratch directory, violation reporting with known-findings matching,
// evidence file writing and exit codes (0 held, 1 violation, 2 inconclusive).
package hx

import (
	"encoding/json"
	"fmt"
	"os"
	"path/filepath"
	"runtime"
	"sort"
	"strconv"
	"strings"
	"sync"
	"time"

	"verif/internal/tlc"
)

// Root is the verification directory.
var Root = "/verif"

// OutRoot is where evidence and replay files go: Root, unless VERIF_OUT names
// another directory (used when a seeded change is judged in a scratch worktree
// in parallel with other runs; registered checks never set it).
var OutRoot = func() string {
	if d := os.Getenv("VERIF_OUT"); d != "" {
		return d
	}
	return Root
}()

// RepoDir is the source tree under judgement: /repo, unless the wrapper was
// started with VERIF_REPO (scratch worktree with a seeded change applied).
var RepoDir = func() string {
	if d := os.Getenv("VERIF_REPO"); d != "" {
		return d
	}
	return "/repo"
}()

// GoEnv is the environment for go commands started by a driver (gxz, the
// race-enabled worker): offline, and with the same module file the wrapper used.
func GoEnv(extra ...string) []string {
	fl := "GOFLAGS=-mod=mod"
	if m := os.Getenv("VERIF_MODFILE"); m != "" {
		fl += " -modfile=" + m
	}
	if x := os.Getenv("VERIF_GOFLAGS_EXTRA"); x != "" { // diagnostics only (tools/repocover.sh: -cover builds of gxz)
		fl += " " + x
	}
	return append(append(os.Environ(), fl, "GOPROXY=off", "GOSUMDB=off", "GOTOOLCHAIN=local"), extra...)
}

// Finding is one entry of known_findings.json.
type Finding struct {
	Property string            `json:"property"`
	ID       string            `json:"id"`
	Status   string            `json:"status"` // open | fixed
	Commit   string            `json:"commit,omitempty"`
	Match    map[string]string `json:"match"` // every key must equal the violation signature's value
	What     string            `json:"what"`
}

// Ctx carries the state of one check run.
type Ctx struct {
	ID      string
	Tier    string
	Seed    int64
	Scratch string
	Replay  string
	Start   time.Time
	Level   string

	mu          sync.Mutex
	Evals       int64
	Distinct    int64
	Samples     []any
	States      int64
	Transitions int64
	Traces      int64
	Rule        string
	Exhaustive  bool
	Assumptions []string
	Extra       map[string]any
	Actions     map[string]int64

	findings   []Finding
	knownHit   map[string]int
	violations int
	printed    int
	inconc     []string
	replayN    int
	sigs       map[string]bool
}

// New creates the context from the environment (VERIF_TIER, VERIF_SEED).
func New(id, tier string) *Ctx {
	if t := os.Getenv("VERIF_TIER"); t != "" && tier == "" {
		tier = t
	}
	if tier != "thorough" {
		tier = "quick"
	}
	seed := int64(1)
	if s := os.Getenv("VERIF_SEED"); s != "" {
		if v, err := strconv.ParseInt(s, 10, 64); err == nil {
			seed = v
		}
	}
	scratch, err := os.MkdirTemp("", "verif-"+id+"-")
	if err != nil {
		fmt.Fprintln(os.Stderr, "cannot create scratch:", err)
		os.Exit(2)
	}
	c := &Ctx{ID: id, Tier: tier, Seed: seed, Scratch: scratch, Start: time.Now(), Level: "model_checking",
		Extra: map[string]any{}, Actions: map[string]int64{}, knownHit: map[string]int{}}
	os.RemoveAll(filepath.Join(OutRoot, "replays", id)) // replay files of earlier runs are stale
	b, err := os.ReadFile(filepath.Join(Root, "known_findings.json"))
	if err == nil {
		var all []Finding
		if err := json.Unmarshal(b, &all); err != nil {
			fmt.Fprintln(os.Stderr, "known_findings.json:", err)
			os.Exit(2)
		}
		for _, f := range all {
			if f.Property == id {
				c.findings = append(c.findings, f)
			}
		}
	}
	go c.watchdog()
	return c
}

// watchdog ends the check when it exceeds its time or memory budget - code under judgement
// that loops forever or produces output without end must not hang or kill the check. What
// was observed until then stands: violations already reported give exit 1, otherwise the run
// is inconclusive (exit 2). VERIF_DEADLINE (seconds) and VERIF_MEMLIMIT (MiB) override.
func (c *Ctx) watchdog() {
	deadline := 25 * time.Minute
	if c.Thorough() {
		deadline = 4 * time.Hour
	}
	if v, err := strconv.Atoi(os.Getenv("VERIF_DEADLINE")); err == nil && v > 0 {
		deadline = time.Duration(v) * time.Second
	}
	memLimit := uint64(40 << 30)
	if v, err := strconv.Atoi(os.Getenv("VERIF_MEMLIMIT")); err == nil && v > 0 {
		memLimit = uint64(v) << 20
	}
	for {
		time.Sleep(2 * time.Second)
		var ms runtime.MemStats
		runtime.ReadMemStats(&ms)
		switch {
		case time.Since(c.Start) > deadline:
			c.Inconclusive("check exceeded its deadline of %v", deadline)
		case ms.HeapAlloc > memLimit:
			c.Inconclusive("check exceeded its memory budget (%d MiB in use)", ms.HeapAlloc>>20)
		default:
			continue
		}
		c.Finish()
	}
}

// Thorough reports whether the thorough tier runs.
func (c *Ctx) Thorough() bool { return c.Tier == "thorough" }

// Pick returns q in the quick tier and t in the thorough tier.
func (c *Ctx) Pick(q, t int) int {
	if c.Thorough() {
		return t
	}
	return q
}

// Logf prints progress to stderr.
func (c *Ctx) Logf(format string, a ...any) {
	fmt.Fprintf(os.Stderr, "[%s %6.1fs] %s\n", c.ID, time.Since(c.Start).Seconds(), fmt.Sprintf(format, a...))
}

// Count adds to the evaluation counters.
func (c *Ctx) Count(evals, distinct int64) {
	c.mu.Lock()
	c.Evals += evals
	c.Distinct += distinct
	c.mu.Unlock()
}

// Sample keeps up to 6 sample cases for the evidence file.
func (c *Ctx) Sample(v any) {
	c.mu.Lock()
	if len(c.Samples) < 6 {
		c.Samples = append(c.Samples, v)
	}
	c.mu.Unlock()
}

// Inconclusive records a harness-side problem (exit 2).
func (c *Ctx) Inconclusive(format string, a ...any) {
	c.mu.Lock()
	c.inconc = append(c.inconc, fmt.Sprintf(format, a...))
	c.mu.Unlock()
	c.Logf("INCONCLUSIVE: "+format, a...)
}

// Violation reports a property violation observed on the real code. sig is
// the signature used for known-findings matching; replay is written as JSON.
func (c *Ctx) Violation(sig map[string]string, what string, replay any) {
	c.mu.Lock()
	defer c.mu.Unlock()
	for _, f := range c.findings {
		if f.Status != "open" {
			continue
		}
		ok := true
		for k, v := range f.Match {
			if !matchVal(sig[k], v) {
				ok = false
				break
			}
		}
		if ok {
			c.knownHit[f.ID]++
			return
		}
	}
	c.violations++
	if c.printed < 8 || os.Getenv("VERIF_ALLSIG") != "" && c.sigSeen(sig) {
		c.printed++
		dir := filepath.Join(OutRoot, "replays", c.ID)
		os.MkdirAll(dir, 0o755)
		c.replayN++
		path := filepath.Join(dir, fmt.Sprintf("%s-%s-%d-%d.json", c.ID, c.Tier, c.Seed, c.replayN))
		b, _ := json.MarshalIndent(map[string]any{"property": c.ID, "what": what, "signature": sig, "case": replay}, "", " ")
		os.WriteFile(path, b, 0o644)
		fmt.Printf("VIOLATION property=%s replay=%s\n", c.ID, path)
		fmt.Fprintf(os.Stderr, "  %s  sig=%v\n", what, sig)
	}
}

// matchVal: pattern "a|b" matches either; "prefix*" matches a prefix.
func matchVal(have, pat string) bool {
	for _, p := range strings.Split(pat, "|") {
		if strings.HasSuffix(p, "*") {
			if strings.HasPrefix(have, strings.TrimSuffix(p, "*")) {
				return true
			}
		} else if have == p {
			return true
		}
	}
	return false
}

// Violations returns the number of unlisted violations so far.
func (c *Ctx) Violations() int {
	c.mu.Lock()
	defer c.mu.Unlock()
	return c.violations
}

// TLC runs TLC with the context's scratch directory and accumulates states.
func (c *Ctx) TLC(o tlc.Opts) tlc.Result {
	o.SpecDir = filepath.Join(Root, "spec")
	o.Scratch = c.Scratch
	r, err := tlc.Run(o)
	if err != nil {
		c.Inconclusive("tlc %s/%s: %v", o.Module, o.Cfg, err)
		return r
	}
	c.mu.Lock()
	c.States += r.Distinct
	c.Transitions += r.Generated
	for k, v := range r.Coverage {
		c.Actions[o.Module+"."+k] += v
	}
	c.mu.Unlock()
	c.Logf("tlc %s %s: ok=%v generated=%d distinct=%d depth=%d printed=%d wall=%.1fs %s", o.Module, o.Cfg, r.OK, r.Generated, r.Distinct, r.Depth, len(r.Printed), r.Wall.Seconds(), r.Violation)
	return r
}

// DesignCheck runs an exhaustive TLC check that must pass with every listed
// action covered; anything else is inconclusive (a design-level failure is a
// defect of the specification, not of the code).
func (c *Ctx) DesignCheck(o tlc.Opts, actions []string) tlc.Result {
	o.Coverage = true
	if o.Workers == 0 {
		o.Workers = 4
	}
	r := c.TLC(o)
	if !r.OK {
		c.Inconclusive("design check %s/%s failed: %s %s\n%s", o.Module, o.Cfg, r.Violation, r.ErrText, r.Tail(25))
		return r
	}
	if z := r.ZeroCoverage(actions); len(z) > 0 {
		c.Inconclusive("design check %s/%s: actions never taken: %v", o.Module, o.Cfg, z)
	}
	return r
}

// Finish writes the evidence file, prints known findings and exits.
func (c *Ctx) Finish() {
	c.mu.Lock()
	defer c.mu.Unlock()
	ids := make([]string, 0, len(c.knownHit))
	for id := range c.knownHit {
		ids = append(ids, id)
	}
	sort.Strings(ids)
	for _, id := range ids {
		for _, f := range c.findings {
			if f.ID == id {
				fmt.Printf("KNOWN-FINDING: property=%s %s [%s; %d cases]\n", c.ID, f.What, f.ID, c.knownHit[id])
			}
		}
	}
	cov := map[string]any{
		"evaluations":         c.Evals,
		"distinct_nontrivial": c.Distinct,
		"rule":                c.Rule,
		"samples":             c.Samples,
		"exhaustive":          c.Exhaustive,
	}
	if c.Level == "model_checking" {
		cov["states"] = c.States
		cov["transitions"] = c.Transitions
		cov["traces_validated_against_impl"] = c.Traces
	}
	if len(c.Actions) > 0 {
		cov["coverage_actions"] = c.Actions
	}
	for k, v := range c.Extra {
		cov[k] = v
	}
	if len(c.knownHit) > 0 {
		cov["known_findings_reproduced"] = c.knownHit
	}
	if len(c.Samples) == 0 {
		cov["samples"] = []any{"(none recorded)"}
	}
	ev := map[string]any{
		"property_id": c.ID,
		"tier":        c.Tier,
		"seed":        c.Seed,
		"level":       c.Level,
		"coverage":    cov,
		"assumptions": c.Assumptions,
		"wall_s":      time.Since(c.Start).Seconds(),
		"violations":  c.violations,
	}
	if len(c.inconc) > 0 {
		ev["inconclusive"] = c.inconc
	}
	b, _ := json.MarshalIndent(ev, "", " ")
	os.MkdirAll(filepath.Join(OutRoot, "evidence"), 0o755)
	if err := os.WriteFile(filepath.Join(OutRoot, "evidence", c.ID+".json"), append(b, '\n'), 0o644); err != nil {
		fmt.Fprintln(os.Stderr, "evidence:", err)
	}
	os.RemoveAll(c.Scratch)
	switch {
	case c.violations > 0:
		fmt.Fprintf(os.Stderr, "[%s] %d violation(s)\n", c.ID, c.violations)
		os.Exit(1)
	case len(c.inconc) > 0:
		fmt.Fprintf(os.Stderr, "[%s] inconclusive: %s\n", c.ID, strings.Join(c.inconc, "; "))
		os.Exit(2)
	}
	fmt.Fprintf(os.Stderr, "[%s] ok: %d evaluations, %d distinct non-trivial, %d states, %d traces, %.1fs\n", c.ID, c.Evals, c.Distinct, c.States, c.Traces, time.Since(c.Start).Seconds())
	os.Exit(0)
}

// PickS returns q in the quick tier and t in the thorough tier.
func (c *Ctx) PickS(q, t string) string {
	if c.Thorough() {
		return t
	}
	return q
}

// KnownHits returns the ids of known findings reproduced so far.
func (c *Ctx) KnownHits() []string {
	c.mu.Lock()
	defer c.mu.Unlock()
	var ids []string
	for id := range c.knownHit {
		ids = append(ids, id)
	}
	return ids
}

// sigSeen reports (once per distinct signature) whether sig is new; used
// with VERIF_ALLSIG=1 to list one violation per distinct signature.
func (c *Ctx) sigSeen(sig map[string]string) bool {
	if c.sigs == nil {
		c.sigs = map[string]bool{}
	}
	k := fmt.Sprint(sig)
	if c.sigs[k] {
		return false
	}
	c.sigs[k] = true
	return true
}

// PickInts returns q in the quick tier and t in the thorough tier.
func (c *Ctx) PickInts(q, t []int) []int {
	if c.Thorough() {
		return t
	}
	return q
}
