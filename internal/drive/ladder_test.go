package drive

import (
	"bytes"
	"math/bits"
	"testing"
	"time"

	"verif/internal/ref"
)

// The ladder plaintext makes the real encoder use every distance slot that fits.
func TestLadderCoversSlots(t *testing.T) {
	for _, tc := range []struct {
		class   string
		n, dict int
		matcher int
	}{{"ladder", 1<<25 + 4096, 1 << 25, 0}, {"laddertext", 1<<20 + 4096, 1 << 20, 1}} {
		data := MakeData(tc.class, tc.n, 1)
		t0 := time.Now()
		run := runAlone(AloneCfg{LC: 3, PB: 2, DictCap: tc.dict, BufSize: 4096, Matcher: tc.matcher}, []aloneCall{{Op: "W", N: len(data)}, {Op: "C"}}, data)
		t1 := time.Now()
		r := ref.DecodeAlone(run.Sink, true)
		if r.Err != nil || !bytes.Equal(r.Out, data) {
			t.Fatalf("%s: %v", tc.class, r.Err)
		}
		slots := map[int]bool{}
		short7 := 0
		for _, o := range r.Ops {
			if o.K == "M" && o.D > 256 {
				d := uint32(o.D - 1)
				e := bits.Len32(d) - 1
				slots[2*e+int(d>>(uint(e)-1)&1)] = true
			}
			if o.K == "S" && o.St == 7 {
				short7++
			}
		}
		t.Logf("%s: %d bytes -> %d, encode %v, ref decode %v, %d distance slots used by matches beyond 256: %v", tc.class, len(data), len(run.Sink), t1.Sub(t0), time.Since(t1), len(slots), slots)
	}
	data := MakeData("maxlenruns", 20000, 1)
	run := runAlone(AloneCfg{LC: 3, PB: 2, DictCap: 1 << 16, BufSize: 4096}, []aloneCall{{Op: "W", N: len(data)}, {Op: "C"}}, data)
	r := ref.DecodeAlone(run.Sink, true)
	cnt := map[string]int{}
	for _, o := range r.Ops {
		if o.St == 7 {
			cnt[o.K]++
		}
	}
	t.Logf("maxlenruns: ops in state 7: %v", cnt)
	if cnt["S"] == 0 {
		t.Fatalf("no short repetition directly after a simple match")
	}
}
