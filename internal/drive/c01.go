package drive

import (
	"bytes"
	"fmt"
	"math/rand"
	"os"
	"sync"

	"verif/internal/hx"
)

func init() { Checks["C01"] = C01; Checks["C02"] = C02 }

type xzCase struct {
	G     XZCfg
	Hist  []string
	Seed  int64
	Fixed [][]byte // explicit payloads (small-scope family), else nil
	Tag   string
}

// smallScope enumerates all strings of length <= n over {00,01,ff} and all
// strings 0^a w 0^b with |w| <= 3 over {01,ff}, each followed by a
// compressible tail so that the chunk is stored compressed.
func smallScope(n int) [][]byte {
	var out [][]byte
	alpha := []byte{0x00, 0x01, 0xff}
	tail := bytes.Repeat([]byte{0x55}, 60)
	var rec func(prefix []byte)
	rec = func(prefix []byte) {
		out = append(out, append(append([]byte{}, prefix...), tail...))
		if len(prefix) == n {
			return
		}
		for _, a := range alpha {
			rec(append(prefix, a))
		}
	}
	rec(nil)
	ws := [][]byte{{}, {1}, {0xff}, {1, 1}, {1, 0xff}, {0xff, 1}, {1, 2, 3}, {0xff, 0xff, 1}}
	for a := 0; a <= 9; a++ {
		for _, w := range ws {
			s := append(bytes.Repeat([]byte{0}, a), w...)
			for len(s) < 64 {
				s = append(s, 0)
			}
			out = append(out, s)
		}
	}
	return out
}

// xzCases builds the case list shared by C01 and C02 (different seeds).
func xzCases(c *hx.Ctx, seed int64) []xzCase {
	r := rand.New(rand.NewSource(seed))
	var cases []xzCase
	// (1) small-scope exhaustive family
	for i, s := range smallScope(c.Pick(6, 8)) {
		for m := 0; m < 2; m++ {
			g := XZCfg{LC: 3, LP: 0, PB: 2, DictCap: []int{4096, 65536}[i%2], BufSize: []int{273, 4096}[(i/2)%2], Matcher: m, Check: []int{0, 1, 10, -1}[i%4]}
			cut := 0
			if len(s) > 0 {
				cut = (i * 7) % (len(s) + 1)
			}
			cases = append(cases, xzCase{G: g, Hist: []string{"W", "W", "C"}, Fixed: [][]byte{s[:cut], s[cut:]}, Tag: "smallscope"})
		}
	}
	// (2) TLC call histories over cheap payloads, any configuration incl. tiny blocks
	small := genHistories(c, tokenSet(map[string]int{"W0": 0, "W1": 0, "W273": 0, "W4Kz": 0, "C": 0}), c.Pick(5, 6), 0, 2)
	for i, h := range small {
		g := xzConfig(r, false)
		if g.BlockSize > 0 && g.BlockSize < 4096 && g.DictCap > 65536 {
			g.DictCap = 4096 + r.Intn(2)
		}
		if g.BlockSize > 0 && g.BlockSize < 64 {
			// every block is a fresh LZMA2 writer: keep the block count moderate
			n := 0
			for _, t := range h.Hist {
				if t == "W4Kz" || t == "W273" {
					n++
				}
			}
			if n > 1 {
				g.BlockSize = 4096
			}
		}
		cases = append(cases, xzCase{G: g, Hist: h.Hist, Seed: seed + int64(i), Tag: "hist-small"})
	}
	// (3) TLC call histories with large payloads, blocks >= 4096
	big := genHistories(c, tokenSet(map[string]int{"W0": 0, "W4K": 0, "W70Kr": 2, "W70Kt": 2, "W140Kn": 2, "W80Krr": 2, "W300Kr": 3, "W2M": 3, "C": 0}), c.Pick(4, 5), c.Pick(4, 6), 1)
	r.Shuffle(len(big), func(i, j int) { big[i], big[j] = big[j], big[i] })
	nb := c.Pick(250, 3000)
	for i := 0; i < nb && i < len(big); i++ {
		g := xzConfig(r, c.Thorough() && i%10 == 0)
		if g.BlockSize > 0 && g.BlockSize < 4096 {
			g.BlockSize = 4096 << uint(r.Intn(6))
		}
		cases = append(cases, xzCase{G: g, Hist: big[i].Hist, Seed: seed + int64(i)*17, Tag: "hist-big"})
	}
	// (4) the product of the boundary sets with short data: every (lc,lp,pb) with lc+lp<=4 x
	// DictCap x BufSize x BlockSize x check x matcher; sampled with a stride in the quick tier
	var props [][3]int
	for lc := 0; lc <= 4; lc++ {
		for lp := 0; lp+lc <= 4; lp++ {
			for pb := 0; pb <= 4; pb++ {
				props = append(props, [3]int{lc, lp, pb})
			}
		}
	}
	dicts := []int{4096, 4097, 65536 - 273, 65536, 1 << 20}
	bufs := []int{273, 274, 4096, 65536}
	blocks := []int64{0, 1, 7, 64, 4096, 1 << 40}
	checks := []int{0, 1, 4, 10, -1}
	stride := c.Pick(29, 1)
	idx := int(seed % 29)
	for _, p := range props {
		for _, d := range dicts {
			for _, b := range bufs {
				for _, bl := range blocks {
					for _, ck := range checks {
						for m := 0; m < 2; m++ {
							idx++
							if idx%stride != 0 {
								continue
							}
							data := append(bytes.Repeat([]byte{0}, idx%5), MakeData([]string{"text", "sparse", "random", "zeros"}[idx%4], 40+idx%150, seed+int64(idx))...)
							if bl == 1 && len(data) > 60 {
								data = data[:60] // one block per byte: keep it short
							}
							cut := idx % (len(data) + 1)
							cases = append(cases, xzCase{G: XZCfg{LC: p[0], LP: p[1], PB: p[2], DictCap: d, BufSize: b, BlockSize: bl, Check: ck, Matcher: m},
								Hist: []string{"W", "W", "C"}, Fixed: [][]byte{data[:cut], data[cut:]}, Tag: "product"})
						}
					}
				}
			}
		}
	}
	// (4b) many blocks: the record count and the sizes in the index cross the 1/2-byte boundary of
	// the variable-length integer encoding (128 records; unpadded sizes around 128)
	for k, bs := range []int64{3, 7, 50, 127, 128} {
		n := int(bs)*131 + k
		if bs >= 50 {
			n = int(bs)*9 + k
		}
		data := MakeData([]string{"text", "random", "sparse"}[k%3], n, seed+int64(k)+5000)
		cases = append(cases, xzCase{G: XZCfg{LC: 3, LP: 0, PB: 2, DictCap: 4096, BufSize: 4096, BlockSize: bs, Check: []int{1, 4, 10, -1, 0}[k], Matcher: k % 2},
			Hist: []string{"W", "W", "C"}, Fixed: [][]byte{data[:n/3], data[n/3:]}, Tag: "manyblocks"})
	}
	// (4c) marginally compressible data (uniform over 220..238 symbols: LZMA saves 0-2 %) in chunks
	// that end at the compressed-size limit: the raw-or-compressed decision at its boundary
	for k, a := range []int{220, 224, 228, 232, 236, 238} {
		r2 := rand.New(rand.NewSource(seed + int64(a)))
		perm := r2.Perm(256)
		data := make([]byte, 150000)
		for i := range data {
			data[i] = byte(perm[r2.Intn(a)])
		}
		cases = append(cases, xzCase{G: XZCfg{LC: 3, LP: 0, PB: 2, DictCap: []int{65536, 1 << 20}[k%2], BufSize: 4096, Check: 4, Matcher: 0},
			Hist: []string{"W", "W", "C"}, Fixed: [][]byte{data[:70001], data[70001:]}, Tag: "marginal"})
	}
	// (4d) one repeat at a distance of exactly 2^e: the distance-slot boundaries of the coder
	for _, e := range c.PickInts([]int{16, 20, 24}, []int{12, 13, 14, 15, 16, 17, 18, 19, 20, 21, 22, 23, 24}) {
		data := MakeData("farrepeat", 1<<uint(e)+300, seed+int64(e))
		cases = append(cases, xzCase{G: XZCfg{LC: 3, LP: 0, PB: 2, DictCap: 1 << 25, BufSize: 4096, Check: 1, Matcher: 0},
			Hist: []string{"W", "W", "C"}, Fixed: [][]byte{data[:len(data)/3], data[len(data)/3:]}, Tag: "farrepeat"})
	}
	// (4e) distance ladder: one repeat in every distance slot up to the capacity (both sides of every
	// slot boundary), hash-table finder with zero filler; a short one with text filler for the
	// binary-tree finder; and runs cut at the maximum match length (operations directly after a match)
	for k, e := range c.PickInts([]int{25}, []int{25, 26, 23}) {
		n := 1<<uint(e) + 4096
		data := MakeData("ladder", n, seed+int64(k))
		cases = append(cases, xzCase{G: XZCfg{LC: 3, LP: 0, PB: 2, DictCap: 1 << uint(e), BufSize: 4096, Check: 1, Matcher: 0},
			Hist: []string{"W", "W", "C"}, Fixed: [][]byte{data[:n/3+k], data[n/3+k:]}, Tag: "ladder"})
	}
	{
		data := MakeData("laddertext", 70000, seed)
		cases = append(cases, xzCase{G: XZCfg{LC: 3, LP: 0, PB: 2, DictCap: 65536, BufSize: 4096, Check: 4, Matcher: 1},
			Hist: []string{"W", "C"}, Fixed: [][]byte{data}, Tag: "ladder"})
		data = MakeData("ladder", 100000+4096, seed+1)
		cases = append(cases, xzCase{G: XZCfg{LC: 3, LP: 0, PB: 2, DictCap: 100000, BufSize: 4096, Check: 4, Matcher: 0},
			Hist: []string{"W", "C"}, Fixed: [][]byte{data}, Tag: "ladder"})
	}
	for k, p := range [][3]int{{3, 0, 2}, {0, 2, 0}, {1, 3, 2}, {4, 0, 4}, {0, 4, 0}, {2, 1, 3}} {
		if !c.Thorough() && (k+int(seed))%2 == 0 && k > 0 {
			continue
		}
		data := MakeData("maxlenruns", 30000, seed+int64(k))
		cases = append(cases, xzCase{G: XZCfg{LC: p[0], LP: p[1], PB: p[2], DictCap: []int{4096, 65536}[k%2], BufSize: []int{4096, 273}[k/2%2], Check: 1, Matcher: k % 2},
			Hist: []string{"W", "W", "C"}, Fixed: [][]byte{data[:9000+k], data[9000+k:]}, Tag: "maxlenruns"})
	}
	// (4f) volume of range-coder output: 2 MiB (8 and 64 MiB thorough) of data that compresses to ~96 %
	for k, n := range c.PickInts([]int{2 << 20}, []int{8 << 20, 64 << 20}) {
		data := MakeData("noise200", n, seed+int64(k))
		cases = append(cases, xzCase{G: XZCfg{LC: 3, LP: 0, PB: 2, DictCap: 1 << 16, BufSize: 4096, Check: 1, Matcher: 0},
			Hist: []string{"W", "C"}, Fixed: [][]byte{data}, Tag: "rcvolume"})
	}
	// (4g) end-of-chunk margin (margin.go, construction A): default configuration, one Write (and
	// 4096-byte Writes); the filler length moves a maximally expensive match across the end of a chunk
	// (where the expensive match lands depends on the finder's parse of the training part: the
	// failing lengths were 104850..104854 for the tree as received and 104774..104778 after the
	// finder learned to try repetition distances - hence a window, scanned finer than five)
	lo, hi, step := c.Pick(104740, 104600), c.Pick(104880, 105000), c.Pick(3, 1)
	if v := os.Getenv("VERIF_MARGIN_A"); v != "" { // diagnostics: scan another window of filler lengths
		fmt.Sscanf(v, "%d:%d:%d", &lo, &hi, &step)
	}
	for f := lo; f <= hi; f += step {
		data := marginBuildA(marginParamsA{seed: 1, n: 200, filler: f})
		cs := xzCase{G: XZCfg{LC: 3, LP: 0, PB: 2, DictCap: 8 << 20, BufSize: 4096, Check: 4, Matcher: 0}, Hist: []string{"W", "C"}, Fixed: [][]byte{data}, Tag: "margin"}
		if f%4 == 0 {
			cs.Hist, cs.Fixed = nil, nil
			for o := 0; o < len(data); o += 4096 {
				e := o + 4096
				if e > len(data) {
					e = len(data)
				}
				cs.Hist = append(cs.Hist, "W")
				cs.Fixed = append(cs.Fixed, data[o:e])
			}
			cs.Hist = append(cs.Hist, "C")
		}
		cases = append(cases, cs)
	}
	// (5) ring-wrap family: small dictionaries and look-ahead buffers, inputs several times
	// longer than the encoder's ring (dictionary + look-ahead + 1) with matches at every
	// distance around the wrap point; both match finders; written in odd-sized pieces
	ri := 0
	for _, d := range []int{4096, 4097, 5000, 6144} {
		for _, b := range []int{273, 4096} {
			for m := 0; m < 2; m++ {
				for _, class := range []string{"zeros", "lowentropy", "periodic", "text", "xx", "alternating", "xx-over"} {
					ri++
					if !c.Thorough() && (ri+int(seed))%2 == 0 && class != "xx-over" {
						continue
					}
					n := 3*(d+b+1) + ri%7
					var data []byte
					if class == "xx-over" {
						// a repeat at a distance a little beyond the configured capacity (up to the next
						// representable sizes): an encoder window larger than what is declared would use it
						x := MakeData("random", d+200+(ri%3)*d/4, seed+int64(ri))
						data = append(append([]byte{}, x...), x[:400]...)
					} else {
						data = MakeData(class, n, seed+int64(ri))
					}
					piece := 1 + (ri*997)%(d+b)
					var parts [][]byte
					hist := []string{}
					for o := 0; o < len(data); o += piece {
						e := o + piece
						if e > len(data) {
							e = len(data)
						}
						parts = append(parts, data[o:e])
						hist = append(hist, "W")
					}
					cases = append(cases, xzCase{G: XZCfg{LC: 3, LP: 0, PB: 2, DictCap: d, BufSize: b, Check: []int{4, 1, -1}[ri%3], Matcher: m},
						Hist: append(hist, "C"), Fixed: parts, Tag: "ringwrap"})
				}
			}
		}
	}
	return cases
}

// C01: xz write -> read round trip.
func C01(c *hx.Ctx) {
	c.Rule = "cases = (small-scope exhaustive strings over {00,01,ff} and zero-framed words) + (TLC-generated Write/Close histories incl. zero-length writes, double Close and Write after Close) x boundary WriterConfig values (lc/lp/pb corners, DictCap 4096..1 MiB(+8 MiB thorough), BufSize 273..64 KiB, BlockSize 1..2^40, every check, both matchers); each replayed on xz.Writer, call results judged against the contract, sink decoded by xz.Reader; non-trivial = more than one block or chunk, or calls after Close; plus ring-wrap, many-block and near-incompressible families, alternating sink kinds, smallest reader window, Config.tla decision table on Verify and constructors"
	c.Assumptions = []string{"TLC (CallHist, XzObs)", "payload contents are seeded members of the data classes, not all byte strings"}
	configTable(c, "xz")
	cases := xzCases(c, c.Seed)
	if len(cases) == 0 {
		return
	}
	c.Logf("%d cases", len(cases))
	var mu sync.Mutex
	obs := &obsBatch{}
	parallel(len(cases), func(i int) {
		cs := cases[i]
		run := runXZ(c, cs.G, cs.Hist, cs.Seed, cs.Fixed)
		nt := int64(0)
		if len(run.Written) > int(cs.G.BlockSize) && cs.G.BlockSize > 0 || len(run.Written) > 65536 || run.NCalls > 3 {
			nt = 1
		}
		c.Count(1, nt)
		if run.Failed || !run.Closed {
			return
		}
		replay := map[string]any{"cfg": cs.G, "hist": cs.Hist, "seed": cs.Seed, "tag": cs.Tag, "data": fixedHex(cs.Fixed)}
		judgeRoundTrip(c, cs.G, run, replay)
		if i%97 == 0 {
			if xr, ok := judgeValid(c, cs.G, run, replay); ok {
				mu.Lock()
				obs.add(fmt.Sprint(i), writerObs(cs.G, run, xr.Streams[0]))
				mu.Unlock()
			}
		}
		if i%1499 == 0 {
			c.Sample(map[string]any{"cfg": cs.G.String(), "hist": cs.Hist, "written": len(run.Written), "sink": len(run.Sink), "tag": cs.Tag})
		}
	})
	if bad, ok := obs.validate(c); ok && len(bad) > 0 && c.Violations() == 0 {
		c.Inconclusive("TLC (XzObs) rejects %d writer layouts the driver accepted: cases %v", len(bad), bad)
	}
}

func fixedHex(f [][]byte) []string {
	var out []string
	for _, d := range f {
		out = append(out, hexHead(d, 128))
	}
	return out
}
