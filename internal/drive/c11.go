package drive

import (
	"bytes"
	"encoding/json"
	"fmt"
	"io"
	"math/rand"
	"os"
	"os/exec"
	"strings"
	"sync"
	"sync/atomic"
	"time"

	"github.com/ulikunitz/xz"
	"github.com/ulikunitz/xz/lzma"
	"verif/internal/hx"
	"verif/internal/ref"
	"verif/internal/tlc"
)

func init() { Checks["C11"] = C11 }

// clampDict rewrites dictionary-size declarations above 64 MiB (the
// property's bound: the reader allocates what the header declares).
func clampDict(format string, data []byte) []byte {
	d := append([]byte{}, data...)
	switch format {
	case "alone":
		if len(d) >= 5 && d[4] > 0x03 {
			d[4] = 0x03
		}
		if len(d) >= 5 && d[4] == 0x03 && (d[3] != 0xff || d[2] != 0xff || d[1] != 0xff) && false {
			d[4] = 0x03
		}
	case "xz":
		for i := 0; i+2 < len(d); i++ {
			if d[i] == 0x21 && d[i+1] == 0x01 && d[i+2] > 30 && d[i+2] <= 40 {
				d[i+2] = d[i+2] % 31
			}
		}
	}
	return d
}

type hostile struct {
	format string
	data   []byte
	origin string
}

// monitorRead opens and reads the input under the monitors of C11.
func monitorRead(c *hx.Ctx, h hostile, bufSize int, slow *int64) {
	data := clampDict(h.format, h.data)
	sig := func(kind string) map[string]string {
		return map[string]string{"kind": kind, "format": h.format, "origin": h.origin}
	}
	replay := map[string]any{"format": h.format, "origin": h.origin, "buf": bufSize, "hex": hexHead(data, 8192), "len": len(data)}
	var r io.Reader
	var err error
	t0 := time.Now()
	p := safely(func() {
		switch h.format {
		case "xz":
			r, err = xz.ReaderConfig{DictCap: 4096}.NewReader(bytes.NewReader(data))
		case "lzma2":
			r, err = lzma.Reader2Config{DictCap: 4096}.NewReader2(bytes.NewReader(data))
		case "alone":
			r, err = lzma.ReaderConfig{DictCap: 4096}.NewReader(bytes.NewReader(data))
		}
	})
	if p != nil {
		c.Violation(sig("panic-open"), fmt.Sprintf("opening a %s reader panicked: %v", h.format, p), replay)
		return
	}
	if err != nil || r == nil {
		return
	}
	buf := make([]byte, bufSize)
	total := 0
	limit := 64 << 20
	for calls := 0; ; calls++ {
		var n int
		var e error
		t1 := time.Now()
		if p := safely(func() { n, e = r.Read(buf) }); p != nil {
			c.Violation(sig("panic-read"), fmt.Sprintf("%s Read panicked after %d bytes: %v", h.format, total, p), replay)
			return
		}
		if d := time.Since(t1); d > 5*time.Second {
			atomic.AddInt64(slow, 1)
			c.Violation(sig("slow-read"), fmt.Sprintf("%s Read took %v (input %d bytes)", h.format, d, len(data)), replay)
			return
		}
		if n < 0 || n > len(buf) {
			c.Violation(sig("n-exceeds-len"), fmt.Sprintf("%s Read returned n=%d for a %d-byte buffer", h.format, n, len(buf)), replay)
			return
		}
		total += n
		if e != nil {
			// a caller may read again after an error or the end: that must not panic either
			for k := 0; k < 3; k++ {
				var n2 int
				if p := safely(func() { n2, _ = r.Read(buf) }); p != nil {
					c.Violation(sig("panic-read-after-error"), fmt.Sprintf("%s Read after the reader had returned %q panicked: %v", h.format, e.Error(), p), replay)
					return
				}
				if n2 < 0 || n2 > len(buf) {
					c.Violation(sig("n-exceeds-len"), fmt.Sprintf("%s Read returned n=%d for a %d-byte buffer", h.format, n2, len(buf)), replay)
					return
				}
			}
			return
		}
		if n == 0 && calls > 100000 {
			c.Violation(sig("no-progress"), fmt.Sprintf("%s Read keeps returning (0, nil)", h.format), replay)
			return
		}
		if total > limit || time.Since(t0) > 60*time.Second {
			// decompression bombs are legitimate; stop without a verdict
			return
		}
	}
}

// C11: readers never panic or stall on arbitrary input.
func C11(c *hx.Ctx) {
	c.Level = "exploration"
	c.Rule = "inputs = (every XzDamage field edit on every block of every base stream) + (extreme numeric values in every length/count/offset field) + (all control-byte sequences of length <= 3 plus hostile operations: distances beyond the window/dictionary, lengths past the declared chunk size, rep before any match, end marker inside LZMA2, wrong chunk sizes) + (every cut of every base stream) + seeded random byte strings and random mutations (bit flips, byte stores, splices, duplications, 0xFF runs) of valid seeds of the three formats; each read with buffer sizes 1/7/4096 under recover, a 5 s per-call limit and n <= len(p); declared dictionaries above 64 MiB are clamped as the property states; non-trivial = input that passes the reader's opening checks or is a structured edit; plus every boundary of the .lzma dictionary-size field, stall detection (abandoned call), three reads after an error"
	c.Assumptions = []string{"the specification supplies structure (which fields, which sequences), not exhaustiveness over byte strings; coverage-guided fuzzing is not part of this family", "per-call limit measured in wall time with a generous bound"}
	runProbes(c)
	var inputs []hostile
	add := func(format string, data []byte, origin string) {
		inputs = append(inputs, hostile{format, data, origin})
	}
	bases := baseStreams(c.Seed, false)
	// structural edits (names from the TLC classification)
	r := c.TLC(tlc.Opts{Module: "XzDamage", Cfg: "XzDamage.cfg", Timeout: 5 * time.Minute, Xss: "64m"})
	edits := map[string]bool{}
	for _, p := range r.Printed {
		var m struct {
			Kind  string
			Cases []struct{ Edit string }
		}
		if json.Unmarshal([]byte(p), &m) == nil && m.Kind == "cases" {
			for _, cs := range m.Cases {
				edits[cs.Edit] = true
			}
		}
	}
	if len(edits) < 30 {
		c.Inconclusive("XzDamage gave %d edits: %s", len(edits), r.ErrText)
		return
	}
	for _, b := range bases {
		xr := ref.DecodeXZ(b.Data, ref.XZOpts{})
		for e := range edits {
			for k := 0; k <= len(xr.Streams[0].Blocks); k++ {
				lay := ref.LayoutOf(b.Data, xr)
				if applyEdit(&lay[0], xr.Streams[0], e, k) {
					add("xz", ref.Serialize(lay), "edit:"+e)
				}
			}
		}
		// extreme numbers
		big := []uint64{1<<63 - 1, 1 << 63, 1<<64 - 1, 1 << 32, 1 << 62, 1<<31 - 1, 0}
		for _, v := range big {
			for bi := range xr.Streams[0].Blocks {
				for _, which := range []string{"csize", "usize", "filter", "proplen"} {
					lay := ref.LayoutOf(b.Data, xr)
					lb := &lay[0].Blocks[bi]
					switch which {
					case "csize":
						lb.HasC, lb.CSizeField = true, v
						lb.Flags |= 0x40
					case "usize":
						lb.HasU, lb.USizeField = true, v
						lb.Flags |= 0x80
					case "filter":
						lb.FilterID = v
					case "proplen":
						lb.PropLen = v
					}
					lb.FixHdrPad()
					add("xz", ref.Serialize(lay), "extreme:"+which)
				}
				lay := ref.LayoutOf(b.Data, xr)
				lay[0].Recs[bi] = ref.XZRecord{Unpadded: v, USize: v}
				lay[0].FixIndex()
				add("xz", ref.Serialize(lay), "extreme:record")
			}
			lay := ref.LayoutOf(b.Data, xr)
			lay[0].Count = v
			lay[0].FixIndex()
			add("xz", ref.Serialize(lay), "extreme:count")
			lay = ref.LayoutOf(b.Data, xr)
			lay[0].Backward = uint32(v)
			add("xz", ref.Serialize(lay), "extreme:backward")
		}
		for _, adj := range []int{253, 100, -1} {
			if len(xr.Streams[0].Blocks) > 0 {
				lay := ref.LayoutOf(b.Data, xr)
				lay[0].Blocks[0].SizeByteAdj = adj
				add("xz", ref.Serialize(lay), "extreme:sizebyte")
			}
		}
		for cut := 0; cut <= len(b.Data); cut++ {
			add("xz", b.Data[:cut], "cut")
		}
	}
	// LZMA2: control-byte sequences and hostile operations
	alpha := []int{0, 1, 2, 3, 0x7f, 0x80, 0xa0, 0xc0, 0xe0, 0xff}
	var seqs [][]int
	for _, a := range alpha {
		seqs = append(seqs, []int{a})
		for _, b := range alpha {
			seqs = append(seqs, []int{a, b})
			for _, d := range alpha {
				seqs = append(seqs, []int{a, b, d})
			}
		}
	}
	for i, s := range seqs {
		if stream, _, _, err := realiseSeq(s, i); err == nil {
			add("lzma2", stream, "chunkseq")
		}
	}
	hostileOps := [][]ref.Op{
		{{K: ref.OpMatch, Dist: 1, Len: 5}},                             // match before any byte exists
		{{K: ref.OpLit, B: 1}, {K: ref.OpMatch, Dist: 2, Len: 5}},       // distance = available + 1
		{{K: ref.OpLit, B: 1}, {K: ref.OpMatch, Dist: 5000, Len: 273}},  // distance beyond the 4 KiB window
		{{K: ref.OpLit, B: 1}, {K: ref.OpMatch, Dist: 1 << 31, Len: 2}}, // huge distance
		{{K: ref.OpRep0, Len: 10}},                                      // rep before any match
		{{K: ref.OpShort}},                                              // short rep on an empty window
		{{K: ref.OpLit, B: 1}, {K: ref.OpRep3, Len: 273}},
		{{K: ref.OpLit, B: 1}, {K: ref.OpEos}}, // end marker inside LZMA2
		{{K: ref.OpLit, B: 1}, {K: ref.OpMatch, Dist: 1, Len: 273}, {K: ref.OpMatch, Dist: 1, Len: 273}},
	}
	for i, ops := range hostileOps {
		for _, ud := range []int{0, -1, 1, 40, -300} {
			for _, cd := range []int{0, -1, 1, 7} {
				enc := ref.NewL2Enc(4096)
				if err := enc.Add(ref.ChunkSpec{Kind: "LRND", Props: ref.Props{LC: 3, LP: 0, PB: 2}, Ops: ops, Force: true, USizeDelta: ud, CSizeDelta: cd}); err != nil {
					continue
				}
				enc.Add(ref.ChunkSpec{Kind: "EOS"})
				add("lzma2", enc.Out, fmt.Sprintf("hostile-op-%d", i))
				// the same payload inside an xz block and as a .lzma stream
				s := ref.BuildStream(1, []ref.BlockSpec{{L2: enc.Out, Content: enc.Pt, DictCode: 0}})
				add("xz", ref.Serialize([]ref.LStream{s}), fmt.Sprintf("hostile-op-%d", i))
			}
		}
		for _, mode := range []string{"marker", "size", "both"} {
			if st, _, err := ref.EncodeAlone(ref.Props{LC: 3, LP: 0, PB: 2}, 4096, ops, mode, true); err == nil {
				add("alone", st, fmt.Sprintf("hostile-op-%d", i))
				// lie about the size
				for _, sz := range []uint64{0, 1, 1 << 40, 1<<63 - 1} {
					d := append([]byte{}, st...)
					for k := 0; k < 8; k++ {
						d[5+k] = byte(sz >> (8 * uint(k)))
					}
					add("alone", d, "size-lie")
				}
			}
		}
	}
	// every boundary of the header's dictionary-size field (the reader sizes its window from it):
	// 0, 1, just below/at/above the longest match (273), around the minimum of 4096, 2^32-1
	for _, b := range baseAlone(c.Seed) {
		if len(b.Data) < 13 {
			continue
		}
		for _, ds := range []uint32{0, 1, 2, 100, 271, 272, 273, 274, 4095, 4096, 4097, 1<<16 - 1, 1 << 16, 1<<26 - 1, 1 << 26} {
			d := append([]byte{}, b.Data...)
			d[1], d[2], d[3], d[4] = byte(ds), byte(ds>>8), byte(ds>>16), byte(ds>>24)
			add("alone", d, "dictsize-field")
		}
	}
	for code := 0; code < 256; code++ { // every properties byte, valid or not
		st, _, _ := ref.EncodeAlone(ref.Props{LC: 3, LP: 0, PB: 2}, 4096, []ref.Op{{K: ref.OpLit, B: 65}, {K: ref.OpMatch, Dist: 1, Len: 9}}, "marker", false)
		st[0] = byte(code)
		add("alone", st, "propsbyte")
		enc := ref.NewL2Enc(4096)
		enc.Add(ref.ChunkSpec{Kind: "LRND", Props: ref.Props{LC: 3, LP: 0, PB: 2}, Ops: []ref.Op{{K: ref.OpLit, B: 65}, {K: ref.OpMatch, Dist: 1, Len: 9}}, PropByte: code})
		enc.Add(ref.ChunkSpec{Kind: "EOS"})
		add("lzma2", enc.Out, "propsbyte")
	}
	for _, b := range baseLZMA2(c.Seed) {
		for cut := 0; cut <= len(b.Data); cut++ {
			add("lzma2", b.Data[:cut], "cut")
		}
	}
	for _, b := range baseAlone(c.Seed) {
		for cut := 0; cut <= len(b.Data); cut++ {
			add("alone", b.Data[:cut], "cut")
		}
	}
	structured := len(inputs)
	// random strings and mutations
	rnd := rand.New(rand.NewSource(c.Seed))
	seeds := map[string][][]byte{}
	for _, b := range bases {
		seeds["xz"] = append(seeds["xz"], b.Data)
	}
	for _, b := range baseLZMA2(c.Seed) {
		seeds["lzma2"] = append(seeds["lzma2"], b.Data)
	}
	for _, b := range baseAlone(c.Seed) {
		seeds["alone"] = append(seeds["alone"], b.Data)
	}
	nrand := c.Pick(40000, 1500000)
	for i := 0; i < nrand; i++ {
		format := []string{"xz", "lzma2", "alone"}[i%3]
		if i%10 == 0 {
			n := rnd.Intn(200)
			d := make([]byte, n)
			rnd.Read(d)
			if format == "xz" && n >= 6 && i%20 == 0 {
				copy(d, []byte{0xfd, '7', 'z', 'X', 'Z', 0})
			}
			add(format, d, "random")
			continue
		}
		ss := seeds[format]
		d := append([]byte{}, ss[rnd.Intn(len(ss))]...)
		for m := 0; m < 1+rnd.Intn(4); m++ {
			if len(d) == 0 {
				break
			}
			switch rnd.Intn(7) {
			case 0:
				d[rnd.Intn(len(d))] ^= 1 << uint(rnd.Intn(8))
			case 1:
				d[rnd.Intn(len(d))] = byte(rnd.Intn(256))
			case 2:
				d[rnd.Intn(len(d))] = []byte{0, 0xff, 0x80, 0x7f, 1}[rnd.Intn(5)]
			case 3: // splice
				a, b := rnd.Intn(len(d)), rnd.Intn(len(d))
				if a > b {
					a, b = b, a
				}
				d = append(d[:a], d[b:]...)
			case 4: // duplicate a region
				a := rnd.Intn(len(d))
				b := a + rnd.Intn(len(d)-a)
				d = append(d[:b], append(append([]byte{}, d[a:b]...), d[b:]...)...)
			case 5: // run of 0xff / 0x00
				a := rnd.Intn(len(d))
				for k := a; k < len(d) && k < a+1+rnd.Intn(12); k++ {
					d[k] = []byte{0xff, 0}[m%2]
				}
			case 6: // cross-over with another seed
				o := ss[rnd.Intn(len(ss))]
				a := rnd.Intn(len(d))
				if a < len(o) {
					d = append(d[:a], o[a:]...)
				}
			}
		}
		add(format, d, "mutation")
	}
	c.Logf("%d structured inputs, %d random/mutated", structured, len(inputs)-structured)
	var slow int64
	var mu sync.Mutex
	opened := 0
	parallel(len(inputs), func(i int) {
		h := inputs[i]
		nt := int64(0)
		if i < structured {
			nt = 1
		}
		for bi, bs := range []int{4096, 7, 1} {
			if bs == 1 && (len(h.data) > 400 || i%4 != 0) {
				continue
			}
			if bi > 0 {
				nt = 0
			}
			c.Count(1, nt)
			done := make(chan struct{})
			go func() { monitorRead(c, h, bs, &slow); close(done) }()
			select {
			case <-done:
			case <-time.After(150 * time.Second):
				// monitorRead gives up by itself after 60 s as long as calls return: a call is stuck
				c.Violation(map[string]string{"kind": "stall", "format": h.format, "origin": h.origin}, fmt.Sprintf("%s reader: a call did not return within 150 s (input %d bytes, origin %s)", h.format, len(h.data), h.origin),
					map[string]any{"format": h.format, "origin": h.origin, "buf": bs, "hex": hexHead(clampDict(h.format, h.data), 8192), "len": len(h.data)})
				c.Finish() // the stuck goroutine cannot be stopped; end the check with what was observed
			}
		}
		if i%50000 == 0 {
			mu.Lock()
			opened++
			mu.Unlock()
			c.Sample(map[string]any{"format": h.format, "origin": h.origin, "hex": hexHead(h.data, 64)})
		}
	})
}

// Probe runs one input whose failure mode would take the whole process down (stack
// exhaustion, out of memory) in this process; C11 starts it as a child and judges how the
// child ended. Probes print "PROBE ok ..." on success.
func Probe(name string, arg int) {
	switch name {
	case "xz-stream-padding":
		// two valid streams with arg MiB of stream padding (zero bytes) between them
		a := libXZ(XZCfg{LC: 3, PB: 2, DictCap: 4096, BufSize: 4096, Check: 4}, []byte("hello, "))
		b := libXZ(XZCfg{LC: 3, PB: 2, DictCap: 4096, BufSize: 4096, Check: 1}, []byte("world\n"))
		file := append(append(append([]byte{}, a...), make([]byte, arg<<20)...), b...)
		r, err := xz.NewReader(bytes.NewReader(file))
		if err != nil {
			fmt.Println("PROBE ok open error:", err)
			return
		}
		out, err := io.ReadAll(r)
		fmt.Printf("PROBE ok read %d bytes err=%v\n", len(out), err)
		if err == nil && string(out) != "hello, world\n" {
			fmt.Println("PROBE wrong content")
			os.Exit(3)
		}
	case "xz-many-streams":
		// arg thousand empty streams in a row
		e := libXZ(XZCfg{LC: 3, PB: 2, DictCap: 4096, BufSize: 4096, Check: 4}, nil)
		file := bytes.Repeat(e, arg*1000)
		r, err := xz.NewReader(bytes.NewReader(file))
		if err != nil {
			fmt.Println("PROBE ok open error:", err)
			return
		}
		out, err := io.ReadAll(r)
		fmt.Printf("PROBE ok read %d bytes err=%v\n", len(out), err)
	default:
		fmt.Println("unknown probe")
		os.Exit(2)
	}
}

// runProbes starts every probe as a child process: a child that dies (fatal error, signal,
// timeout) has found an input on which reading takes the caller down.
func runProbes(c *hx.Ctx) {
	self, err := os.Executable()
	if err != nil {
		c.Inconclusive("cannot find the driver binary: %v", err)
		return
	}
	type pr struct {
		name string
		arg  int
	}
	probes := []pr{{"xz-stream-padding", 1}, {"xz-stream-padding", 96}, {"xz-many-streams", 50}}
	if c.Thorough() {
		probes = append(probes, pr{"xz-stream-padding", 300}, pr{"xz-many-streams", 1000})
	}
	for _, p := range probes {
		cmd := exec.Command(self, "probe", p.name, fmt.Sprint(p.arg))
		var out bytes.Buffer
		cmd.Stdout, cmd.Stderr = &out, &out
		done := make(chan error, 1)
		if err := cmd.Start(); err != nil {
			c.Inconclusive("cannot start probe: %v", err)
			return
		}
		go func() { done <- cmd.Wait() }()
		var werr error
		timedOut := false
		select {
		case werr = <-done:
		case <-time.After(5 * time.Minute):
			cmd.Process.Kill()
			werr = <-done
			timedOut = true
		}
		c.Count(1, 1)
		s := out.String()
		if len(s) > 600 {
			s = s[:600]
		}
		sig := map[string]string{"kind": "probe-died", "format": "xz", "origin": p.name}
		replay := map[string]any{"probe": p.name, "arg": p.arg, "output": s}
		switch {
		case timedOut:
			sig["kind"] = "stall"
			c.Violation(sig, fmt.Sprintf("probe %s(%d): reading did not finish within 5 minutes", p.name, p.arg), replay)
		case werr != nil || !strings.Contains(out.String(), "PROBE ok"):
			c.Violation(sig, fmt.Sprintf("probe %s(%d): the reading process died: %v; output: %.300s", p.name, p.arg, werr, s), replay)
		}
	}
}
