package drive

import (
	"bytes"
	"encoding/json"
	"fmt"
	"os"
	"os/exec"
	"path/filepath"
	"time"

	"github.com/ulikunitz/xz"
	"github.com/ulikunitz/xz/lzma"
	"verif/internal/hx"
	"verif/internal/ref"
	"verif/internal/tlc"
)

// XZCfg is a printable xz.WriterConfig.
type XZCfg struct {
	LC, LP, PB int
	DictCap    int
	BufSize    int
	BlockSize  int64
	Check      int // 0 = library default (CRC64); 1,4,10 explicit; -1 = NoCheckSum
	Matcher    int
}

func (g XZCfg) lib() xz.WriterConfig {
	c := xz.WriterConfig{Properties: &lzma.Properties{LC: g.LC, LP: g.LP, PB: g.PB}, DictCap: g.DictCap, BufSize: g.BufSize,
		BlockSize: g.BlockSize, Matcher: lzma.MatchAlgorithm(g.Matcher)}
	if g.Check == -1 {
		c.NoCheckSum = true
	} else {
		c.CheckSum = byte(g.Check)
	}
	return c
}

// EffCheck is the check id the stream must carry.
func (g XZCfg) EffCheck() int {
	switch g.Check {
	case -1:
		return 0
	case 0:
		return 4
	}
	return g.Check
}

func (g XZCfg) String() string {
	return fmt.Sprintf("lc%d lp%d pb%d dict%d buf%d bs%d chk%d m%d", g.LC, g.LP, g.PB, g.DictCap, g.BufSize, g.BlockSize, g.Check, g.Matcher)
}

// layoutJSON converts a parsed stream into the layout record of XzFormat.tla.
func layoutJSON(s ref.XZStream) map[string]any {
	blocks := []any{}
	for _, b := range s.Blocks {
		blocks = append(blocks, map[string]any{
			"sizeByte": b.SizeByte, "resv": b.Flags & 0x3C, "nfilters": b.NFilters, "csizeF": b.CSizeField, "usizeF": b.USizeField,
			"filterId": b.FilterID, "propLen": b.PropLen, "dictCode": b.DictCode, "hpadZero": b.HdrPadZero, "hcrcOk": b.HdrCrcOk,
			"csize": b.CSize, "usize": b.USize, "padLen": b.PadLen, "padZero": b.PadZero, "checkOk": b.CheckOk,
			"l2Ok": b.L2.Err == nil && b.L2.Ended, "maxDist": b.MaxDist,
		})
	}
	recs := []any{}
	for _, r := range s.Recs {
		recs = append(recs, map[string]any{"unpadded": r.Unpadded, "usize": r.USize})
	}
	return map[string]any{
		"magicOk": s.HdrMagicOk, "hflag0": s.HdrFlag0, "check": s.Check, "hcrcOk": s.HdrCrcOk, "blocks": blocks,
		"indicator": 0, "count": s.IdxCount, "recs": recs, "ipadLen": s.IdxPadLen, "ipadZero": s.IdxPadZero, "icrcOk": s.IdxCrcOk,
		"backward": s.Backward, "fflag0": s.FtrFlag0, "fcheck": s.FtrCheck, "fcrcOk": s.FtrCrcOk, "fmagicOk": s.FtrMagicOk,
	}
}

// obsBatch collects observations for XzObs.tla.
type obsBatch struct {
	buf bytes.Buffer
	n   int
	tag []string
}

func (o *obsBatch) add(tag string, v map[string]any) {
	b, _ := json.Marshal(v)
	o.buf.Write(b)
	o.buf.WriteByte('\n')
	o.n++
	o.tag = append(o.tag, tag)
}

// validate runs TLC on the batch; returns the tags TLC flagged.
func (o *obsBatch) validate(c *hx.Ctx) (bad []string, ok bool) {
	if o.n == 0 {
		return nil, true
	}
	r := c.TLC(tlc.Opts{Module: "XzObs", Cfg: "XzObs.cfg", Files: map[string][]byte{"obs.ndjson": o.buf.Bytes()}, Timeout: 10 * time.Minute, Xss: "256m"})
	for _, p := range r.Printed {
		var m struct {
			Kind string
			N    int
			Bad  []int
		}
		if json.Unmarshal([]byte(p), &m) == nil && m.Kind == "obs" {
			for _, i := range m.Bad {
				bad = append(bad, o.tag[i-1])
			}
			c.Traces += int64(m.N - len(m.Bad))
			return bad, true
		}
	}
	c.Inconclusive("XzObs gave no verdict: %s\n%s", r.ErrText, r.Tail(12))
	return nil, false
}

// xzUtils runs `xz -dc` on the files (if xz-utils is installed) and returns
// the concatenated output; ok=false if the tool is absent.
func xzUtilsDecode(dir string, files [][]byte, args ...string) (out []byte, err error, present bool) {
	bin, e := exec.LookPath("xz")
	if e != nil {
		return nil, nil, false
	}
	var names []string
	for i, f := range files {
		n := filepath.Join(dir, fmt.Sprintf("f%06d.bin", i))
		if err := os.WriteFile(n, f, 0o644); err != nil {
			return nil, err, true
		}
		names = append(names, n)
	}
	defer func() {
		for _, n := range names {
			os.Remove(n)
		}
	}()
	cmd := exec.Command(bin, append(append([]string{"-dc"}, args...), names...)...)
	var stderr bytes.Buffer
	cmd.Stderr = &stderr
	out, err = cmd.Output()
	if err != nil {
		err = fmt.Errorf("%v: %s", err, bytes.TrimSpace(stderr.Bytes()))
	}
	return out, err, true
}
