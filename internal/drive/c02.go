package drive

import (
	"bytes"
	"fmt"
	"os"
	"sync"
	"time"

	"verif/internal/hx"
	"verif/internal/ref"
	"verif/internal/tlc"
)

// writerObs builds the XzObs "writer" observation for one emitted stream.
func writerObs(g XZCfg, run XZRun, s ref.XZStream) map[string]any {
	bs := g.BlockSize
	if bs <= 0 || bs > 1<<31-1 {
		bs = 1<<31 - 1
	}
	want := 0
	for {
		sz, _ := ref.DictSizeOfCode(want)
		if sz >= int64(g.DictCap) {
			break
		}
		want++
	}
	return map[string]any{"kind": "writer", "n": len(run.Written), "blockSize": bs, "check": g.EffCheck(), "dictCode": want, "s": layoutJSON(s)}
}

// C02: everything the writer emits is a valid .xz file.
func C02(c *hx.Ctx) {
	c.Rule = "the case space of C01 with a different seed stream; every emitted stream is parsed and decoded by the independent reference (and xz-utils when installed), its layout is judged by TLC against XzFormat.WriterStreamOk (whose block-split formula is a checked lemma of the code-shaped XzWriter life cycle), the call history with per-call results and the parsed block list is validated as a trace (TraceXzWriter); (header/footer/index/backward/padding/check consistency, dictionary code, block sizes, distances <= declared dictionary, chunk limits); non-trivial = multi-block or multi-chunk stream; plus TLC validation (TraceLzma) of the operations of sampled emitted blocks with the window bounded by the declared dictionary size"
	c.Assumptions = []string{"TLC (XzObs/XzFormat)", "internal/ref parser+decoder (independent of /repo)", "xz-utils only as an optional second judge"}
	xzwCfg := "XzWriter_mc.cfg"
	if c.Thorough() {
		xzwCfg = "XzWriter_full.cfg"
	}
	c.DesignCheck(tlc.Opts{Module: "XzWriter", Cfg: xzwCfg, Timeout: 3 * time.Minute}, []string{"BeginWrite", "WriteAfterClose", "Fill", "Roll", "NewBlk", "BeginClose", "CloseAfterClose", "Index", "Footer"})
	cases := xzCases(c, c.Seed+7777)
	if len(cases) == 0 {
		return
	}
	c.Logf("%d cases", len(cases))
	var mu sync.Mutex
	obs := &obsBatch{}
	ops := &opsBatch{}
	var xzTr bytes.Buffer
	xzTrN := 0
	type kept struct {
		sink, plain []byte
		idx         int
	}
	var forXz []kept
	parallel(len(cases), func(i int) {
		cs := cases[i]
		run := runXZ(c, cs.G, cs.Hist, cs.Seed, cs.Fixed)
		if run.Failed || !run.Closed {
			c.Count(1, 0)
			return
		}
		replay := map[string]any{"cfg": cs.G, "hist": cs.Hist, "seed": cs.Seed, "tag": cs.Tag, "data": fixedHex(cs.Fixed)}
		xr, ok := judgeValid(c, cs.G, run, replay)
		nt := int64(0)
		if ok && (len(xr.Streams[0].Blocks) > 1 || len(xr.Streams[0].Blocks[0].L2.Chunks) > 2) {
			nt = 1
		}
		c.Count(1, nt)
		if !ok {
			return
		}
		if i%7 == 0 {
			var bl []int
			for _, b := range xr.Streams[0].Blocks {
				bl = append(bl, b.USize)
			}
			t := xzTrace(cs.G, run, bl)
			mu.Lock()
			xzTr.Write(t)
			xzTrN++
			mu.Unlock()
		}
		if n := len(run.Written); n > 0 && n <= 20000 {
			// operation level: every operation of every block must be enabled in Lzma.tla with the
			// window bounded by the dictionary size the block header declares
			x2 := ref.DecodeXZ(run.Sink, ref.XZOpts{WantOps: true})
			mu.Lock()
			if x2.Err == nil && ops.lines < c.Pick(120000, 600000) {
				for bi, b := range x2.Streams[0].Blocks {
					if d, ok := ref.DictSizeOfCode(b.DictCode); ok {
						ops.addL2(fmt.Sprintf("xz case %d block %d cfg %s", i, bi, cs.G.String()), d, b.L2)
					}
				}
			}
			mu.Unlock()
		}
		mu.Lock()
		if obs.n < c.Pick(3000, 20000) {
			obs.add(fmt.Sprint(i), writerObs(cs.G, run, xr.Streams[0]))
		}
		if len(forXz) < c.Pick(400, 3000) && (i%5 == 0 || nt == 1) {
			forXz = append(forXz, kept{run.Sink, run.Written, i})
		}
		mu.Unlock()
		if i%1499 == 0 {
			var ks []string
			for _, b := range xr.Streams[0].Blocks {
				ks = append(ks, fmt.Sprintf("block(u=%d,c=%d,chunks=%d,dict=%d)", b.USize, b.CSize, len(b.L2.Chunks), b.DictCode))
				if len(ks) > 4 {
					break
				}
			}
			c.Sample(map[string]any{"cfg": cs.G.String(), "hist": cs.Hist, "layout": ks})
		}
	})
	if tag, line, ok := ops.validate(c); ok && tag != "" {
		if c.Violations() == 0 {
			c.Inconclusive("TLC (TraceLzma) rejects the operations of a block the real writer emitted and the reference decoder accepted, at line %d: %s", line, tag)
		} else {
			c.Logf("TraceLzma rejects an emitted block at line %d (%s), consistent with the reported violations", line, tag)
		}
	}
	c.Extra["op_traces_validated"] = ops.cases
	validateXZTraces(c, xzTr.Bytes(), xzTrN)
	c.Extra["xzwriter_call_traces_validated"] = xzTrN
	bad, ok := obs.validate(c)
	if ok {
		for _, t := range bad {
			var i int
			fmt.Sscan(t, &i)
			cs := cases[i]
			// re-evaluate on the real code for the replay file
			run := runXZ(c, cs.G, cs.Hist, cs.Seed, cs.Fixed)
			xr := ref.DecodeXZ(run.Sink, ref.XZOpts{})
			what := "layout violates the writer obligations of XzFormat.tla"
			if len(xr.Streams) == 1 {
				what += describeObligation(cs.G, run, xr.Streams[0])
			}
			c.Violation(map[string]string{"writer": "xz", "kind": "layout-obligation", "matcher": fmt.Sprint(cs.G.Matcher)}, what,
				map[string]any{"cfg": cs.G, "hist": cs.Hist, "seed": cs.Seed, "layout": layoutJSON(xr.Streams[0])})
		}
	}
	// optional second judge: xz-utils
	if len(forXz) > 0 {
		dir, _ := os.MkdirTemp(c.Scratch, "xzutils")
		var files [][]byte
		var want bytes.Buffer
		for _, k := range forXz {
			files = append(files, k.sink)
			want.Write(k.plain)
		}
		out, err, present := xzUtilsDecode(dir, files)
		c.Extra["xz_utils_present"] = present
		if present {
			c.Extra["xz_utils_streams"] = len(files)
			if err != nil || !bytes.Equal(out, want.Bytes()) {
				// find the offending stream individually
				for _, k := range forXz {
					o, e, _ := xzUtilsDecode(dir, [][]byte{k.sink})
					if e != nil || !bytes.Equal(o, k.plain) {
						cs := cases[k.idx]
						c.Violation(map[string]string{"writer": "xz", "kind": "liblzma-rejects", "matcher": fmt.Sprint(cs.G.Matcher)},
							fmt.Sprintf("xz-utils rejects or decodes differently a stream the library wrote: %v", e),
							map[string]any{"cfg": cs.G, "hist": cs.Hist, "seed": cs.Seed, "data": fixedHex(cs.Fixed)})
					}
				}
			}
		}
	}
}

// describeObligation names the first writer obligation a layout breaks.
func describeObligation(g XZCfg, run XZRun, s ref.XZStream) string {
	bs := g.BlockSize
	if bs <= 0 {
		bs = 1<<63 - 1
	}
	n := int64(len(run.Written))
	nb := int64(1)
	if n > bs {
		nb = (n-1)/bs + 1
	}
	if int64(len(s.Blocks)) != nb {
		return fmt.Sprintf(": %d blocks for %d bytes with BlockSize %d (want %d)", len(s.Blocks), n, bs, nb)
	}
	for i, b := range s.Blocks {
		want := bs
		if int64(i) == nb-1 {
			want = n - (nb-1)*bs
		}
		if int64(b.USize) != want {
			return fmt.Sprintf(": block %d carries %d bytes, want %d", i, b.USize, want)
		}
	}
	if s.Check != g.EffCheck() {
		return fmt.Sprintf(": check id %d, configured %d", s.Check, g.EffCheck())
	}
	return ": (dictionary code or another field; see layout)"
}
