package drive

import (
	"bytes"
	"fmt"
	"math/rand"

	"github.com/ulikunitz/xz/lzma"
	"verif/internal/ref"
)

// Base is a valid single-stream .xz file with its plaintext.
type Base struct {
	Name  string
	Data  []byte
	Plain []byte
	Check int
}

func libXZ(g XZCfg, plain []byte) []byte {
	var buf bytes.Buffer
	w, err := g.lib().NewWriter(&buf)
	if err != nil {
		panic(err)
	}
	w.Write(plain)
	if err := w.Close(); err != nil {
		panic(err)
	}
	return buf.Bytes()
}

// synthXZ builds a reference-written stream with size fields, several
// chunk kinds and (optionally) extra header padding.
func synthXZ(seed int64, check int, nblocks int, extraPad int) ([]byte, []byte) {
	r := rand.New(rand.NewSource(seed))
	var blocks []ref.BlockSpec
	var plain []byte
	for b := 0; b < nblocks; b++ {
		enc := ref.NewL2Enc(4096)
		lit := func(n int) []ref.Op {
			var ops []ref.Op
			for i := 0; i < n; i++ {
				ops = append(ops, ref.Op{K: ref.OpLit, B: byte('a' + r.Intn(6))})
			}
			return ops
		}
		enc.Add(ref.ChunkSpec{Kind: "LRND", Props: ref.Props{LC: 3, LP: 0, PB: 2}, Ops: append(lit(12), ref.Op{K: ref.OpMatch, Dist: 5, Len: 9}, ref.Op{K: ref.OpLit, B: 'z'}, ref.Op{K: ref.OpRep0, Len: 4})})
		enc.Add(ref.ChunkSpec{Kind: "U", Raw: []byte("raw!")})
		enc.Add(ref.ChunkSpec{Kind: "LR", Ops: append(lit(5), ref.Op{K: ref.OpMatch, Dist: 20, Len: 6}, ref.Op{K: ref.OpShort})})
		enc.Add(ref.ChunkSpec{Kind: "LRN", Props: ref.Props{LC: 0, LP: 2, PB: 0}, Ops: append(lit(7), ref.Op{K: ref.OpMatch, Dist: 1, Len: 30})})
		enc.Add(ref.ChunkSpec{Kind: "EOS"})
		blocks = append(blocks, ref.BlockSpec{L2: enc.Out, Content: enc.Pt, WithC: true, WithU: b%2 == 0, DictCode: b % 3, ExtraPad: extraPad})
		plain = append(plain, enc.Pt...)
	}
	return ref.Serialize([]ref.LStream{ref.BuildStream(check, blocks)}), plain
}

// baseStreams returns the family of valid single-stream files used by the
// reader-side checks (C04, C05, C09, C12, C13).
func baseStreams(seed int64, thorough bool) []Base {
	var out []Base
	add := func(name string, data, plain []byte) {
		xr := ref.DecodeXZ(data, ref.XZOpts{})
		if xr.Err != nil || !bytes.Equal(xr.Content, plain) || len(xr.Streams) != 1 {
			panic(fmt.Sprintf("base stream %s is not valid: %v", name, xr.Err))
		}
		out = append(out, Base{name, data, plain, xr.Streams[0].Check})
	}
	t := MakeData("text", 100, seed)
	add("lib-crc64-1blk", libXZ(XZCfg{LC: 3, PB: 2, DictCap: 4096, BufSize: 4096, Check: 4}, t), t)
	add("lib-crc32-3blk", libXZ(XZCfg{LC: 3, PB: 2, DictCap: 4096, BufSize: 4096, Check: 1, BlockSize: 40}, t), t)
	t2 := MakeData("zeroprefix", 60, seed+1)
	add("lib-sha256-1blk", libXZ(XZCfg{LC: 0, LP: 2, PB: 1, DictCap: 4096, BufSize: 273, Check: 10, Matcher: 1}, t2), t2)
	add("lib-none-2blk", libXZ(XZCfg{LC: 3, PB: 2, DictCap: 4096, BufSize: 4096, Check: -1, BlockSize: 33}, t2), t2)
	add("lib-empty", libXZ(XZCfg{LC: 3, PB: 2, DictCap: 4096, BufSize: 4096, Check: 4}, nil), nil)
	r3 := MakeData("random", 300, seed+2)
	add("lib-raw-crc64", libXZ(XZCfg{LC: 3, PB: 2, DictCap: 4096, BufSize: 4096, Check: 4}, r3), r3)
	d, p := synthXZ(seed+3, 1, 2, 0)
	add("ref-sized-crc32-2blk", d, p)
	d, p = synthXZ(seed+4, 4, 1, 1)
	add("ref-sized-crc64-extrapad", d, p)
	d, p = synthXZ(seed+5, 0, 2, 0)
	add("ref-sized-none-2blk", d, p)
	corp, err := LoadCorpus(".xz")
	if err != nil {
		panic(err)
	}
	want := map[string]bool{"e0.xz": true, "one6.xz": true, "t300_crc32.xz": true, "t300_sha.xz": true, "t300_none.xz": true, "b3k.xz": true, "t300_0.xz": true}
	if thorough {
		for _, n := range []string{"t20k_blk.xz", "t20k_mt.xz", "r5k.xz", "z70k_4k.xz", "t20k_lc0.xz", "t20k_lp2.xz"} {
			want[n] = true
		}
	}
	for _, f := range corp {
		if want[f.Name] {
			add("xzutils-"+f.Name, f.Stream, f.Plain)
		}
	}
	if thorough {
		big := MakeData("alternating", 70000, seed+9)
		add("lib-70k-crc32-blk16k", libXZ(XZCfg{LC: 3, PB: 2, DictCap: 65536, BufSize: 4096, Check: 1, BlockSize: 16384}, big), big)
	}
	return out
}

// baseLZMA2 returns raw LZMA2 streams (library- and reference-written).
func baseLZMA2(seed int64) []Base {
	var out []Base
	mk := func(name string, g W2Cfg, parts [][]byte) {
		var buf bytes.Buffer
		w, err := g.lib().NewWriter2(&buf)
		if err != nil {
			panic(err)
		}
		var plain []byte
		for _, p := range parts {
			w.Write(p)
			w.Flush()
			plain = append(plain, p...)
		}
		w.Close()
		out = append(out, Base{name, buf.Bytes(), plain, 0})
	}
	mk("l2-lib-text-flush-random", W2Cfg{3, 0, 2, 4096, 4096, 0}, [][]byte{MakeData("text", 200, seed), MakeData("random", 150, seed+1), MakeData("text", 90, seed+2)})
	mk("l2-lib-bt", W2Cfg{0, 2, 1, 4096, 273, 1}, [][]byte{MakeData("zeroprefix", 120, seed+3)})
	mk("l2-lib-empty", W2Cfg{3, 0, 2, 4096, 4096, 0}, nil)
	enc := ref.NewL2Enc(4096)
	enc.Add(ref.ChunkSpec{Kind: "UD", Raw: []byte("hello ")})
	enc.Add(ref.ChunkSpec{Kind: "LRN", Props: ref.Props{LC: 3, LP: 0, PB: 2}, Ops: []ref.Op{{K: ref.OpLit, B: 'w'}, {K: ref.OpMatch, Dist: 7, Len: 5}, {K: ref.OpLit, B: '!'}, {K: ref.OpRep0, Len: 3}}})
	enc.Add(ref.ChunkSpec{Kind: "U", Raw: []byte("tail")})
	enc.Add(ref.ChunkSpec{Kind: "EOS"})
	out = append(out, Base{"l2-ref-ud-lrn-u", enc.Out, enc.Pt, 0})
	return out
}

// baseAlone returns classic .lzma streams in the three termination modes.
func baseAlone(seed int64) []Base {
	var out []Base
	mk := func(name string, cfg lzma.WriterConfig, plain []byte) {
		var buf bytes.Buffer
		w, err := cfg.NewWriter(&buf)
		if err != nil {
			panic(err)
		}
		w.Write(plain)
		if err := w.Close(); err != nil {
			panic(err)
		}
		out = append(out, Base{name, buf.Bytes(), plain, 0})
	}
	t := MakeData("text", 150, seed)
	mk("alone-lib-marker", lzma.WriterConfig{DictCap: 4096}, t)
	mk("alone-lib-size", lzma.WriterConfig{DictCap: 4096, SizeInHeader: true, Size: int64(len(t))}, t)
	mk("alone-lib-both", lzma.WriterConfig{DictCap: 4096, SizeInHeader: true, Size: int64(len(t)), EOSMarker: true, Matcher: lzma.BinaryTree}, t)
	corp, err := LoadCorpus(".lzma")
	if err != nil {
		panic(err)
	}
	for _, f := range corp {
		if len(f.Stream) < 400 {
			out = append(out, Base{"alone-xzutils-" + f.Name, f.Stream, f.Plain, 0})
		}
	}
	return out
}
