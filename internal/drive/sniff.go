package drive

import (
	"encoding/binary"
	"encoding/json"
	"fmt"
	"hash/crc32"
	"time"

	"github.com/ulikunitz/xz"
	"github.com/ulikunitz/xz/lzma"
	"verif/internal/hx"
	"verif/internal/tlc"
)

// sniffTable replays the decision tables of spec/Sniff.tla on the exported header predicates
// xz.ValidHeader and lzma.ValidHeader (the functions gxz detects the file format with).
func sniffTable(c *hx.Ctx) {
	r := c.TLC(tlc.Opts{Module: "Sniff", Cfg: "Sniff.cfg", Timeout: 3 * time.Minute, Xss: "128m"})
	type xzRow struct {
		H struct {
			Len     int  `json:"len"`
			MagicOk bool `json:"magicOk"`
			Flag0   int  `json:"flag0"`
			Check   int  `json:"check"`
			CrcOk   bool `json:"crcOk"`
		} `json:"h"`
		Valid bool `json:"valid"`
	}
	type lzRow struct {
		H struct {
			Len  int    `json:"len"`
			Prop int    `json:"prop"`
			Dict string `json:"dict"`
			Size string `json:"size"`
		} `json:"h"`
		Valid bool `json:"valid"`
	}
	var tab struct {
		Kind string
		Xz   []xzRow
		Lzma []lzRow
	}
	for _, p := range r.Printed {
		var t struct {
			Kind string
			Xz   []xzRow
			Lzma []lzRow
		}
		if json.Unmarshal([]byte(p), &t) == nil && t.Kind == "sniff" {
			tab = t
		}
	}
	if !r.OK || len(tab.Xz) == 0 || len(tab.Lzma) == 0 {
		c.Inconclusive("Sniff tables not generated: %s\n%s", r.ErrText, r.Tail(8))
		return
	}
	c.Traces += int64(len(tab.Xz) + len(tab.Lzma))
	dict := map[string]uint32{"d0": 0, "d1": 1, "d512": 512, "d768": 768, "d1023": 1023, "d1024": 1024, "d1025": 1025, "d1536": 1536, "d4096": 4096,
		"d5000": 5000, "d6144": 6144, "d8MiB": 8 << 20, "d12MiB": 12 << 20, "d2p31": 1 << 31, "d2p31p30": 1<<31 + 1<<30, "d2p32m2": 1<<32 - 2, "d2p32m1": 1<<32 - 1}
	size := map[string]uint64{"unknown": 1<<64 - 1, "s0": 0, "s1": 1, "s2p38": 1 << 38, "s2p38p1": 1<<38 + 1, "s2p62": 1 << 62, "s2p63": 1 << 63, "s2p64m2": 1<<64 - 2}
	for _, row := range tab.Xz {
		h := make([]byte, 12)
		copy(h, []byte{0xFD, '7', 'z', 'X', 'Z', 0})
		if !row.H.MagicOk {
			h[4] = 'z'
		}
		h[6], h[7] = byte(row.H.Flag0), byte(row.H.Check)
		crc := crc32.ChecksumIEEE(h[6:8])
		if !row.H.CrcOk {
			crc ^= 0x01000000
		}
		binary.LittleEndian.PutUint32(h[8:], crc)
		switch {
		case row.H.Len < 12:
			h = h[:row.H.Len]
		case row.H.Len > 12:
			h = append(h, 0)
		}
		var got bool
		p := safely(func() { got = xz.ValidHeader(h) })
		c.Count(1, 1)
		if p != nil || got != row.Valid {
			c.Violation(map[string]string{"part": "sniff", "kind": "xz-header-verdict", "expect": fmt.Sprint(row.Valid)},
				fmt.Sprintf("xz.ValidHeader(% x) = %v (panic %v); Sniff.tla says %v for %+v", h, got, p, row.Valid, row.H), map[string]any{"header": fmt.Sprintf("%x", h), "row": row})
		}
	}
	for _, row := range tab.Lzma {
		h := make([]byte, 13)
		h[0] = byte(row.H.Prop)
		binary.LittleEndian.PutUint32(h[1:], dict[row.H.Dict])
		binary.LittleEndian.PutUint64(h[5:], size[row.H.Size])
		switch {
		case row.H.Len < 13:
			h = h[:row.H.Len]
		case row.H.Len > 13:
			h = append(h, 0)
		}
		var got bool
		p := safely(func() { got = lzma.ValidHeader(h) })
		c.Count(1, 1)
		if p != nil || got != row.Valid {
			c.Violation(map[string]string{"part": "sniff", "kind": "lzma-header-verdict", "expect": fmt.Sprint(row.Valid)},
				fmt.Sprintf("lzma.ValidHeader(% x) = %v (panic %v); Sniff.tla says %v for %+v", h, got, p, row.Valid, row.H), map[string]any{"header": fmt.Sprintf("%x", h), "row": row})
		}
	}
}
