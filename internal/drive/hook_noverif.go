//go:build !verif

package drive

// encoderConsts: the tree under judgement has no verif-tagged export (or the driver was built
// without the tag): the design lemma of OpCost.tla cannot be bound and is skipped with a note.
func encoderConsts() (margin, probBits, moveBits int, ok bool) { return 0, 0, 0, false }
