package drive

// Adversarial plaintexts against the encoder's end-of-chunk margin (lzma/encoder.go: opLenMargin).
// Two independent sub-agents, given only the statements of C01 and C08, found that a single
// match can need about 20 bytes of range-coder output when every adaptive probability on its
// coding path has been trained the other way, while the encoder reserved 16 bytes (of which the
// five needed by rangeEncoder.Close were not usable by the operation): Flush / Close failed with
// "limit reached" on a sink that never fails and the data of the chunk was lost. Both
// constructions are kept here verbatim (identifiers renamed) as plaintext families: A for one
// Write into xz.Writer with the default configuration (the filler length moves the expensive
// match relative to the end of the 64 KiB chunk), B for Writer2 with Flushes that start the
// critical chunk at a known offset. They depend on the greedy parse of the HashTable4 finder;
// the windows of filler lengths used by C01/C08 are wider than the failing ones.

import "math/rand"

// gen builds a byte string whose greedy LZ parse is known.
type marginGenA struct {
	data []byte
	rng  *rand.Rand
	reps []int // recent match distances (most recent first)
}

func (g *marginGenA) pos() int { return len(g.data) }

func (g *marginGenA) pushRep(d int) {
	for i, r := range g.reps {
		if r == d {
			g.reps = append(g.reps[:i], g.reps[i+1:]...)
			break
		}
	}
	g.reps = append([]int{d}, g.reps...)
	if len(g.reps) > 4 {
		g.reps = g.reps[:4]
	}
}

// lit appends one literal byte that cannot be parsed as (part of) a match
// at the short distances, at the recent distances or at the extra distances.
func (g *marginGenA) lit(extra ...int) {
	var forbid [256]bool
	p := g.pos()
	mark := func(d int) {
		if d >= 1 && d <= p {
			forbid[g.data[p-d]] = true
		}
	}
	for d := 1; d <= 8; d++ {
		mark(d)
	}
	for _, d := range g.reps {
		mark(d)
	}
	for _, d := range extra {
		mark(d)
	}
	for {
		b := byte(g.rng.Intn(256))
		if !forbid[b] {
			g.data = append(g.data, b)
			return
		}
	}
}

func (g *marginGenA) lits(n int, extra ...int) {
	for i := 0; i < n; i++ {
		g.lit(extra...)
	}
}

// copyFrom appends l bytes copied from distance d.
func (g *marginGenA) copyFrom(d, l int) {
	p := g.pos()
	if d > p || d < l {
		panic("copyFrom: bad distance")
	}
	g.data = append(g.data, g.data[p-d:p-d+l]...)
	g.pushRep(d)
}

type marginParamsA struct {
	seed    int64
	n       int // ops per training phase
	filler  int // filler literals before the target
	litsPer int // literal multiplier for the isMatch phase
}

func marginBuildA(pr marginParamsA) []byte {
	g := &marginGenA{rng: rand.New(rand.NewSource(pr.seed))}
	n := pr.n
	// R: random area providing fresh match sources
	const rLen = 200000
	g.lits(rLen)
	rNext := 0 // next unused offset in R for long-distance sources

	// simple match with the source in R at a distance >= lo, aligned
	// so that (dist-1)&15 == align (align<0: don't care)
	farMatch := func(l int, align int, nextD func(p int) int) {
		// choose source
		p := g.pos()
		s := rNext
		for {
			d := p - s
			if align < 0 || (d-1)&15 == align {
				break
			}
			s++
		}
		d := p - s
		if d <= 65536 {
			panic("far distance too small")
		}
		rNext = s + l + 3
		if rNext > rLen-300 {
			panic("R exhausted")
		}
		g.copyFrom(d, l)
	}
	_ = farMatch

	// D phases: slot tree for lenState 3, target slot 31 (dist-1 in [49152,65536))
	// sources are taken from R's tail: window s = pos - D.
	dPhase := func(lo, hi int) {
		// D decreases by 2 per unit so that the source windows are disjoint
		// (unit length 6, windows advance by 8)
		span := 2*n + 16
		if hi-lo < span {
			panic("range too small")
		}
		d := lo + span
		for k := 0; k < n; k++ {
			g.copyFrom(d, 5)
			d -= 2
			g.lit(d) // no early start of the next match (source-1 at distance d from this literal)
		}
	}
	// note: distances are 1 + offset; slot ranges are for the offset
	dPhase(32768+1, 49152) // slot 30
	dPhase(16384+1, 32768) // slots 28,29
	dPhase(4096+1, 16384)  // slots 24..27
	// slots 16..23: offsets 256..4095: fresh block
	g.lits(4096)
	{
		d := 4095
		for k := 0; k < n; k++ {
			g.copyFrom(d, 5)
			d -= 2
			g.lit(d)
		}
	}
	// slots 0..15: offsets < 256: units [copy 5][16 lits]
	{
		g.lits(16 * 21)
		for k := 0; k < n; k++ {
			m := 3 + 2*(k%5)
			d := 21*m - 10
			g.copyFrom(d, 5)
			g.lits(16)
		}
	}
	// L phases: high length tree, target symbol 0 (len 18); far distances
	// (slot >= 32 trains the slot tree root), align schedule for target 0
	type lp struct{ l, align int }
	for _, ph := range []lp{
		{19, 8}, {20, 8}, {22, 8}, {26, 8},
		{34, 4}, {50, 4},
		{82, 2}, {146, 2},
		{10, 1}, // mid
		{5, 1},  // low
	} {
		for k := 0; k < n; k++ {
			farMatch(ph.l, ph.align, nil)
			g.lit()
		}
	}
	// phase B: rep matches in state 0 (isRep[0] -> 1)
	{
		blk := n*9 + 64
		g.lits(blk)
		// setter: simple match that defines rep0 = blk - 16
		d := blk - 16
		g.copyFrom(d, 5)
		g.lits(4, d)
		for k := 0; k < n; k++ {
			g.copyFrom(d, 5)
			g.lits(4, d)
		}
	}
	// literal phase and filler
	g.lits(pr.filler)
	// target: len 18, offset in slot 31 with align 0, source in the filler
	{
		p := g.pos()
		d := 50000
		for (d-1)&15 != 0 {
			d++
		}
		_ = p
		// make sure the byte before the source differs from the last literal: redo last literal
		g.data = g.data[:len(g.data)-1]
		g.lit(d)
		g.copyFrom(d, 18)
		g.lits(20)
	}
	return g.data
}

// Deterministic construction of the adversarial payload. No dependency on
// math/rand, so that the bytes are the same with every Go version.

type sm64 uint64

func (s *sm64) next() uint64 {
	*s += 0x9e3779b97f4a7c15
	z := uint64(*s)
	z = (z ^ (z >> 30)) * 0xbf58476d1ce4e5b9
	z = (z ^ (z >> 27)) * 0x94d049bb133111eb
	return z ^ (z >> 31)
}

// rSize is the size of the leading block of random 7-bit bytes; it only
// serves as source for the matches of the later parts.
const rSize = 1310720

// trainLen is the length of training match i. The first 8*120 matches walk
// the 8 levels of the "high" length tree from the deepest level to the root,
// each time with the symbol that differs from the final length (18) in that
// level; then 120 matches with choice2=0 and 120 matches with choice=0.
func trainLen(i int) int {
	ph := i / 120
	if ph < 8 {
		return 18 + (1 << uint(ph))
	}
	if ph == 8 {
		return 10
	}
	return 6
}

// lowPat gives the low four bits of the (distance-1) of training match i;
// it walks the align tree from the deepest level to the root, always opposite
// to the final value 0.
func lowPat(i int) int {
	switch i / 300 {
	case 0:
		return 8
	case 1:
		return 4
	case 2:
		return 2
	default:
		return 1
	}
}

// slotD0 gives the approximate distance for the 5 phases (240 matches each)
// that walk the distance slot tree (slots 37; 38; 32..35; 40; 31 against the
// final slot 36).
var slotD0 = []int{460000, 600000, 150000, 1200000, 62000}

type marginPayloadB struct {
	R, T, F []byte // F includes the final 18 byte match
	all     []byte
}

func marginBuildB(seed uint64, nF int) *marginPayloadB {
	rng := sm64(seed)
	data := make([]byte, rSize, rSize+400000)
	for i := range data {
		data[i] = byte(rng.next()>>32) & 0x7f
	}
	head := rSize
	cursor := -1
	prevEnd := -1
	for i := 0; i < 1200; i++ {
		L := trainLen(i)
		if i%240 == 0 {
			cursor = head - slotD0[i/240] - 1
		}
		pat := lowPat(i)
		src := cursor
		for {
			d := head - src - 1
			if d&15 == pat && (prevEnd < 0 || data[prevEnd] != data[src]) {
				break
			}
			src++
		}
		data = append(data, data[src:src+L]...)
		head += L
		prevEnd = src + L
		cursor = src + L + 1
	}
	tEnd := head
	// filler: bytes >= 0x80 (never matching R or T), no byte equal to one
	// of its 8 predecessors, no 4-gram twice: encoded as literals only.
	f := make([]byte, nF)
	seen := make(map[uint32]bool)
	for i := range f {
	retry:
		c := byte(rng.next()>>32) | 0x80
		for j := i - 8; j < i; j++ {
			if j >= 0 && f[j] == c {
				goto retry
			}
		}
		if i >= 3 {
			x := uint32(f[i-3])<<24 | uint32(f[i-2])<<16 | uint32(f[i-1])<<8 | uint32(c)
			if seen[x] {
				goto retry
			}
			seen[x] = true
		}
		f[i] = c
	}
	data = append(data, f...)
	head += nF
	// final match: distance-1 = 300000 (slot 36, low four bits 0), length 18
	d := 300000 &^ 15
	src := head - d - 1
	data = append(data, data[src:src+18]...)
	return &marginPayloadB{R: data[:rSize], T: data[rSize:tEnd], F: data[tEnd:], all: data}
}
