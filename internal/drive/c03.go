package drive

import (
	"bytes"
	"encoding/json"
	"fmt"
	"io"
	"math/rand"
	"os"
	"os/exec"
	"path/filepath"
	"time"

	"github.com/ulikunitz/xz"
	"verif/internal/hx"
	"verif/internal/ref"
	"verif/internal/tlc"
)

func init() { Checks["C03"] = C03 }

type genEv struct {
	K string `json:"k"`
	D int    `json:"d"`
	N int    `json:"n"`
}

// genBehaviours runs LzmaGen in simulation mode and returns de-duplicated
// behaviours (one per distinct prefix of length Depth-1).
func genBehaviours(c *hx.Ctx, dict, depth, num int, seed int64) [][]genEv {
	return genBehavioursOpt(c, dict, depth, num, seed, true)
}

// genBehavioursOpt: chunkEvents=false restricts LzmaGen to pure operation
// sequences (classic .lzma streams have no chunk layer).
func genBehavioursOpt(c *hx.Ctx, dict, depth, num int, seed int64, chunkEvents bool) [][]genEv {
	cfg := fmt.Sprintf("SPECIFICATION GSpec\nCONSTANTS DictCap = %d\n Depth = %d\n ChunkEvents = %s\nINVARIANTS Emit TypeOK FrontInWindow\nCHECK_DEADLOCK FALSE\n", dict, depth, map[bool]string{true: "TRUE", false: "FALSE"}[chunkEvents])
	r := c.TLC(tlc.Opts{Module: "LzmaGen", Cfg: "gen.cfg", Files: map[string][]byte{"gen.cfg": []byte(cfg)}, Simulate: fmt.Sprintf("num=%d", num), Depth: depth + 1, Seed: seed, Timeout: 10 * time.Minute})
	if !r.OK {
		c.Inconclusive("LzmaGen failed: %s %s\n%s", r.Violation, r.ErrText, r.Tail(10))
		return nil
	}
	seen := map[string]bool{}
	var out [][]genEv
	for _, p := range r.Printed {
		var h []genEv
		if json.Unmarshal([]byte(p), &h) != nil || len(h) < 2 {
			continue
		}
		k, _ := json.Marshal(h[:len(h)-1])
		if seen[string(k)] {
			continue
		}
		seen[string(k)] = true
		out = append(out, h)
	}
	return out
}

var propChoices = func() []ref.Props {
	var ps []ref.Props
	for _, t := range [][3]int{{3, 0, 2}, {0, 0, 0}, {4, 0, 4}, {0, 4, 0}, {2, 2, 2}, {1, 3, 1}, {3, 1, 3}, {0, 0, 4}, {4, 0, 0}, {1, 1, 1}} {
		ps = append(ps, ref.Props{LC: t[0], LP: t[1], PB: t[2]})
	}
	return ps
}()

// realiseL2 turns a behaviour into an LZMA2 stream (with end chunk).
func realiseL2(h []genEv, r *rand.Rand, dict int64) (*ref.L2Enc, error) {
	enc := ref.NewL2Enc(dict)
	var cur *ref.ChunkSpec
	flush := func() error {
		if cur != nil && len(cur.Ops) > 0 {
			if err := enc.Add(*cur); err != nil {
				return err
			}
		}
		cur = nil
		return nil
	}
	rawBytes := func(n int) []byte {
		b := make([]byte, n)
		for i := range b {
			b[i] = byte(r.Intn(4) * 63)
		}
		return b
	}
	for _, e := range h {
		switch e.K {
		case "DRL", "SRN", "SR", "CUT":
			if err := flush(); err != nil {
				return nil, err
			}
			kind := map[string]string{"DRL": "LRND", "SRN": "LRN", "SR": "LR", "CUT": "L"}[e.K]
			cur = &ref.ChunkSpec{Kind: kind, Props: propChoices[r.Intn(len(propChoices))]}
		case "UD", "U":
			if err := flush(); err != nil {
				return nil, err
			}
			if err := enc.Add(ref.ChunkSpec{Kind: e.K, Raw: rawBytes(e.N)}); err != nil {
				return nil, err
			}
		default:
			if cur == nil {
				cur = &ref.ChunkSpec{Kind: "L"}
			}
			switch e.K {
			case "L":
				b := byte(r.Intn(256))
				if r.Intn(3) == 0 {
					b = byte(r.Intn(3))
				}
				// a quarter of the literals are (nearly) the byte at the latest match distance
				near := 0
				if r.Intn(4) == 0 {
					near = 1 + r.Intn(4)
				}
				cur.Ops = append(cur.Ops, ref.Op{K: ref.OpLit, B: b, Near: near})
			case "M":
				cur.Ops = append(cur.Ops, ref.Op{K: ref.OpMatch, Dist: int64(e.D), Len: e.N})
			case "R":
				cur.Ops = append(cur.Ops, ref.Op{K: ref.OpKind('0' + e.D - 1), Len: e.N})
			case "S":
				cur.Ops = append(cur.Ops, ref.Op{K: ref.OpShort})
			}
		}
	}
	if err := flush(); err != nil {
		return nil, err
	}
	if err := enc.Add(ref.ChunkSpec{Kind: "EOS"}); err != nil {
		return nil, err
	}
	return enc, nil
}

func leastDictCode(n int64) int {
	c := 0
	for {
		sz, _ := ref.DictSizeOfCode(c)
		if sz >= n || c == 40 {
			return c
		}
		c++
	}
}

// readXZ decodes data with the library reader under a configuration.
func readXZ(data []byte, dictCap int, single bool, bufSize int) (out []byte, err error, panicked any) {
	return readXZMode(data, dictCap, single, bufSize, "")
}

// readXZMode is readXZ with the source delivering its data in the given fragmentation mode
// of fragSource ("one", "small", "half", "dataeof"; "" = a plain bytes.Reader).
func readXZMode(data []byte, dictCap int, single bool, bufSize int, mode string) (out []byte, err error, panicked any) {
	var r *xz.Reader
	var src io.Reader = bytes.NewReader(data)
	if mode != "" {
		src = &fragSource{data: data, mode: mode, r: rand.New(rand.NewSource(int64(len(data))))}
	}
	if p := safely(func() {
		r, err = xz.ReaderConfig{DictCap: dictCap, SingleStream: single}.NewReader(src)
	}); p != nil {
		return nil, nil, p
	}
	if err != nil {
		return nil, err, nil
	}
	return readAllSafe(r, bufSize, 0)
}

// C03: the reader decodes every valid LZMA2-only .xz stream to the right bytes.
func C03(c *hx.Ctx) {
	c.Rule = "valid streams = frozen xz-utils corpus + fresh xz-utils encodings (when installed) + streams realised from TLC-generated behaviours of LzmaGen (operations x chunk events) wrapped in container layouts (0-3 blocks, optional size fields, every check, extra header padding, dictionary code >= needed); each decoded with ReaderConfig.DictCap in {4096, declared, 2x declared}; the reference decoder (and xz-utils) must agree before the library is judged; non-trivial = stream with >= 2 chunks or a rep/short-rep operation; plus empty-block layouts with size fields, 127-130-block streams, chunks on the size limits; rotating source fragmentations and read sizes"
	c.Assumptions = []string{"TLC (LzmaMC, LzmaGen, TraceLzma)", "internal/ref encoder/decoder; generated streams are additionally validated by TLC at operation level and by xz-utils when installed"}
	c.DesignCheck(tlc.Opts{Module: "LzmaMC", Cfg: "LzmaMC.cfg", Timeout: 3 * time.Minute}, []string{"Next"})
	configTable(c, "reader")
	type stream struct {
		name  string
		data  []byte
		plain []byte
		dicts []int
		nt    bool
	}
	var streams []stream
	corp, err := LoadCorpus(".xz")
	if err != nil {
		c.Inconclusive("corpus: %v", err)
		return
	}
	for _, f := range corp {
		xr := ref.DecodeXZ(f.Stream, ref.XZOpts{})
		if xr.Err != nil || !bytes.Equal(xr.Content, f.Plain) {
			c.Inconclusive("trusted base: ref cannot decode corpus file %s: %v", f.Name, xr.Err)
			continue
		}
		declared := 4096
		for _, s := range xr.Streams {
			for _, b := range s.Blocks {
				if sz, _ := ref.DictSizeOfCode(b.DictCode); int(sz) > declared && sz <= 64<<20 {
					declared = int(sz)
				}
			}
		}
		streams = append(streams, stream{"corpus/" + f.Name, f.Stream, f.Plain, []int{4096, declared, 2 * declared}, true})
	}
	// fresh xz-utils encodings
	if bin, e := exec.LookPath("xz"); e == nil {
		r := rand.New(rand.NewSource(c.Seed))
		dir, _ := os.MkdirTemp(c.Scratch, "fresh")
		opts := [][]string{{"-0"}, {"-3"}, {"-6e"}, {"--lzma2=lc=0,lp=0,pb=0,dict=4KiB"}, {"--lzma2=lc=1,lp=3,pb=4,dict=8KiB,mf=bt2"}, {"--check=crc32", "-1"}, {"--check=none", "-2"}, {"--check=sha256", "--block-size=5000", "-T1"}, {"-T2", "--block-size=3000"}, {"--lzma2=lc=4,lp=0,pb=2,dict=64KiB,nice=4"}}
		for i := 0; i < c.Pick(20, 120); i++ {
			class := DataClasses[2+r.Intn(len(DataClasses)-2)]
			plain := MakeData(class, 1+r.Intn(40000), c.Seed*1000+int64(i))
			fn := filepath.Join(dir, "in")
			os.WriteFile(fn, plain, 0o644)
			o := opts[r.Intn(len(opts))]
			out, err := exec.Command(bin, append(append([]string{"-c"}, o...), fn)...).Output()
			if err != nil {
				continue
			}
			streams = append(streams, stream{fmt.Sprintf("fresh/%s/%v", class, o), out, plain, []int{4096, 1 << 20}, true})
		}
		c.Extra["xz_utils_present"] = true
	} else {
		c.Extra["xz_utils_present"] = false
	}
	nCorpus := len(streams)
	// TLC-generated behaviours
	type genSet struct{ dict, depth, num int }
	sets := []genSet{{4096, 30, c.Pick(300, 3000)}, {4096, 120, c.Pick(150, 1500)}, {65536, 400, c.Pick(50, 500)}}
	if c.Thorough() {
		sets = append(sets, genSet{4096, 2000, 60}, genSet{1 << 20, 1000, 80})
	}
	r := rand.New(rand.NewSource(c.Seed * 31))
	ops := &opsBatch{}
	var selfFiles [][]byte
	var selfPlain bytes.Buffer
	for si, gs := range sets {
		behs := genBehaviours(c, gs.dict, gs.depth, gs.num, c.Seed+int64(si))
		c.Logf("LzmaGen dict=%d depth=%d: %d distinct behaviours", gs.dict, gs.depth, len(behs))
		for bi := 0; bi < len(behs); {
			nblocks := r.Intn(4)
			check := []int{0, 1, 4, 10}[r.Intn(4)]
			var blocks []ref.BlockSpec
			var plain []byte
			nt := false
			bad := false
			for k := 0; k < nblocks && bi < len(behs); k++ {
				enc, err := realiseL2(behs[bi], r, int64(gs.dict))
				if err != nil {
					c.Inconclusive("cannot realise behaviour %d/%d: %v", si, bi, err)
					bad = true
					bi++
					break
				}
				code := leastDictCode(int64(gs.dict))
				if r.Intn(3) == 0 {
					code += r.Intn(4)
				}
				blocks = append(blocks, ref.BlockSpec{L2: enc.Out, Content: enc.Pt, WithC: r.Intn(2) == 0, WithU: r.Intn(2) == 0, DictCode: code, ExtraPad: r.Intn(5) / 4})
				plain = append(plain, enc.Pt...)
				// operation-level validation of the generator by TLC (bounded volume)
				if ops.lines < c.Pick(60000, 400000) {
					rr := ref.DecodeLZMA2(enc.Out, ref.L2Opts{DictSize: int64(gs.dict), WantOps: true})
					if rr.Err != nil || !bytes.Equal(rr.Out, enc.Pt) {
						c.Inconclusive("trusted base: ref rejects its own synthesised stream: %v", rr.Err)
						bad = true
					} else {
						ops.addL2(fmt.Sprintf("gen%d/%d", si, bi), int64(gs.dict), rr)
					}
				}
				nt = nt || len(behs[bi]) > 3
				bi++
			}
			if nblocks == 0 {
				bi++ // consume one behaviour slot so the loop advances
			}
			if bad {
				continue
			}
			file := ref.Serialize([]ref.LStream{ref.BuildStream(check, blocks)})
			xr := ref.DecodeXZ(file, ref.XZOpts{})
			if xr.Err != nil || !bytes.Equal(xr.Content, plain) {
				c.Inconclusive("trusted base: ref rejects its own container: %v", xr.Err)
				continue
			}
			streams = append(streams, stream{fmt.Sprintf("gen/%d/%d blocks=%d check=%d", si, bi, nblocks, check), file, plain, []int{4096, gs.dict, 2 * gs.dict}, nt})
			if len(selfFiles) < 300 {
				selfFiles = append(selfFiles, file)
				selfPlain.Write(plain)
			}
		}
	}
	// far distances: grow the window cheaply with long matches, then use distances around
	// 2^21 (quick) and up to 2^26-1 (thorough): distance slots with direct and align bits
	for _, far := range c.PickInts([]int{1<<21 + 5}, []int{1<<21 + 5, 1<<24 + 3, 1<<26 - 1}) {
		enc := ref.NewL2Enc(int64(far) + 4096)
		ops := []ref.Op{}
		for i := 0; i < 16; i++ {
			ops = append(ops, ref.Op{K: ref.OpLit, B: byte(17*i + 3)})
		}
		kind := "LRND"
		produced := 16
		flush := func() {
			if err := enc.Add(ref.ChunkSpec{Kind: kind, Props: ref.Props{LC: 3, LP: 0, PB: 2}, Ops: ops}); err != nil {
				c.Inconclusive("far-distance stream: %v", err)
			}
			kind, ops, produced = "L", nil, 0
		}
		for len(enc.W.Buf)+produced < far+600 {
			ops = append(ops, ref.Op{K: ref.OpMatch, Dist: 16, Len: 273})
			produced += 273
			if produced > 1<<21-600 {
				flush()
			}
		}
		flush()
		avail := int64(len(enc.W.Buf))
		var tail []ref.Op
		for _, d := range []int64{int64(far), int64(far) - 1, avail, avail - 1, 1 << 20, 1<<20 + 1, 65536, 65535, 4097, 129, 128, 127} {
			if d <= avail {
				tail = append(tail, ref.Op{K: ref.OpMatch, Dist: d, Len: 5}, ref.Op{K: ref.OpLit, B: byte(d)}, ref.Op{K: ref.OpRep1, Len: 3}, ref.Op{K: ref.OpShort})
			}
		}
		ops = tail
		flush()
		enc.Add(ref.ChunkSpec{Kind: "EOS"})
		code := leastDictCode(int64(far) + 4096)
		file := ref.Serialize([]ref.LStream{ref.BuildStream(4, []ref.BlockSpec{{L2: enc.Out, Content: enc.Pt, DictCode: code}})})
		if xr := ref.DecodeXZ(file, ref.XZOpts{}); xr.Err != nil || !bytes.Equal(xr.Content, enc.Pt) {
			c.Inconclusive("trusted base: ref rejects its own far-distance stream: %v", xr.Err)
			continue
		}
		declared, _ := ref.DictSizeOfCode(code)
		streams = append(streams, stream{fmt.Sprintf("gen/far-distance-%d", far), file, enc.Pt, []int{4096, int(declared)}, true})
		if len(selfFiles) < 300 && far < 1<<22 {
			selfFiles = append(selfFiles, file)
			selfPlain.Write(enc.Pt)
		}
	}
	// container corner layouts: empty blocks (an end chunk only) with and without the optional
	// size fields (Uncompressed Size 0 is legal, Compressed Size is 1), first / middle / last,
	// for every check type; and blocks whose chunks sit exactly on the LZMA2 size limits
	{
		small := func(seed int) ref.BlockSpec {
			e := ref.NewL2Enc(4096)
			ops := []ref.Op{}
			for i := 0; i < 9; i++ {
				ops = append(ops, ref.Op{K: ref.OpLit, B: byte('a' + (seed+i)%7)})
			}
			e.Add(ref.ChunkSpec{Kind: "LRND", Props: ref.Props{LC: 3, LP: 0, PB: 2}, Ops: append(ops, ref.Op{K: ref.OpMatch, Dist: 4, Len: 11})})
			e.Add(ref.ChunkSpec{Kind: "EOS"})
			return ref.BlockSpec{L2: e.Out, Content: e.Pt, WithC: seed%2 == 0, WithU: seed%3 == 0, DictCode: 0}
		}
		for _, check := range []int{0, 1, 4, 10} {
			for mask := 0; mask < 4; mask++ {
				empty := ref.BlockSpec{L2: []byte{0}, Content: nil, WithC: mask&1 != 0, WithU: mask&2 != 0, DictCode: mask}
				for li, layout := range [][]ref.BlockSpec{{empty}, {empty, small(1)}, {small(2), empty, small(3)}, {small(4), empty}, {empty, empty}} {
					var plain []byte
					for _, b := range layout {
						plain = append(plain, b.Content...)
					}
					file := ref.Serialize([]ref.LStream{ref.BuildStream(check, layout)})
					if xr := ref.DecodeXZ(file, ref.XZOpts{}); xr.Err != nil || !bytes.Equal(xr.Content, plain) {
						c.Inconclusive("trusted base: ref rejects its own empty-block layout: %v", xr.Err)
						continue
					}
					streams = append(streams, stream{fmt.Sprintf("gen/empty-block check=%d sizes=%d layout=%d", check, mask, li), file, plain, []int{4096, 65536}, true})
					if len(selfFiles) < 400 {
						selfFiles = append(selfFiles, file)
						selfPlain.Write(plain)
					}
				}
			}
		}
		// later blocks that declare - and use - a larger dictionary than earlier ones, and the other
		// way round: whatever a reader keeps from one block must fit the next
		{
			far := func(dictSize int64, dist int) ref.BlockSpec {
				e := ref.NewL2Enc(dictSize)
				raw := MakeData("random", dist, c.Seed+int64(dist))
				for o := 0; o < len(raw); o += 65536 {
					end := o + 65536
					if end > len(raw) {
						end = len(raw)
					}
					kind := "U"
					if o == 0 {
						kind = "UD"
					}
					e.Add(ref.ChunkSpec{Kind: kind, Raw: raw[o:end]})
				}
				if err := e.Add(ref.ChunkSpec{Kind: "LRN", Props: ref.Props{LC: 3, LP: 0, PB: 2}, Ops: []ref.Op{{K: ref.OpMatch, Dist: int64(dist), Len: 200}, {K: ref.OpLit, B: 'x'}, {K: ref.OpRep0, Len: 100}}}); err != nil {
					c.Inconclusive("far-block: %v", err)
				}
				e.Add(ref.ChunkSpec{Kind: "EOS"})
				return ref.BlockSpec{L2: e.Out, Content: e.Pt, DictCode: leastDictCode(dictSize), WithU: dist%2 == 0}
			}
			for li, layout := range [][]ref.BlockSpec{
				{small(1), far(1<<20, 100000)}, {far(1<<16, 60000), far(1<<20, 900000), small(2)}, {far(1<<20, 900000), small(3), far(1<<16, 60000)},
				{small(4), {L2: []byte{0}}, far(1<<22, 3000000)},
			} {
				var plain []byte
				for _, b := range layout {
					plain = append(plain, b.Content...)
				}
				file := ref.Serialize([]ref.LStream{ref.BuildStream([]int{4, 1, 10, 0}[li], layout)})
				if xr := ref.DecodeXZ(file, ref.XZOpts{}); xr.Err != nil || !bytes.Equal(xr.Content, plain) {
					c.Inconclusive("trusted base: ref rejects its own growing-dictionary layout: %v", xr.Err)
					continue
				}
				streams = append(streams, stream{fmt.Sprintf("gen/growing-dictionary-%d", li), file, plain, []int{4096, 0, 1 << 16}, true})
				if len(selfFiles) < 400 {
					selfFiles = append(selfFiles, file)
					selfPlain.Write(plain)
				}
			}
		}
		// many blocks: record count >= 128 (two-byte count), sizes on both sides of 128
		for _, nb := range []int{127, 128, 130} {
			var layout []ref.BlockSpec
			var plain []byte
			for k := 0; k < nb; k++ {
				b := small(k)
				if k%5 == 0 {
					b = ref.BlockSpec{L2: []byte{0}, WithC: k%2 == 0, WithU: k%3 == 0}
				}
				layout = append(layout, b)
				plain = append(plain, b.Content...)
			}
			file := ref.Serialize([]ref.LStream{ref.BuildStream([]int{1, 4, 10}[nb%3], layout)})
			if xr := ref.DecodeXZ(file, ref.XZOpts{}); xr.Err != nil || !bytes.Equal(xr.Content, plain) {
				c.Inconclusive("trusted base: ref rejects its own many-block layout: %v", xr.Err)
				continue
			}
			streams = append(streams, stream{fmt.Sprintf("gen/many-blocks-%d", nb), file, plain, []int{4096}, true})
			if len(selfFiles) < 400 {
				selfFiles = append(selfFiles, file)
				selfPlain.Write(plain)
			}
		}
		lim, lerr := sizeLimitStreams(c.Seed)
		if lerr != nil {
			c.Inconclusive("size-limit streams: %v", lerr)
		}
		for i, b := range lim {
			file := ref.Serialize([]ref.LStream{ref.BuildStream([]int{4, 1, 0, 10}[i%4], []ref.BlockSpec{{L2: b.Data, Content: b.Plain, WithC: i%2 == 0, WithU: i%2 == 1, DictCode: leastDictCode(1 << 22)}})})
			if xr := ref.DecodeXZ(file, ref.XZOpts{}); xr.Err != nil || !bytes.Equal(xr.Content, b.Plain) {
				c.Inconclusive("trusted base: ref rejects its own size-limit container: %v", xr.Err)
				continue
			}
			streams = append(streams, stream{"gen/" + b.Name, file, b.Plain, []int{4096, 1 << 22}, true})
			if len(selfFiles) < 400 {
				selfFiles = append(selfFiles, file)
				selfPlain.Write(b.Plain)
			}
		}
	}
	// the generated streams must also be valid for xz-utils (trusted-base check)
	if len(selfFiles) > 0 {
		dir, _ := os.MkdirTemp(c.Scratch, "self")
		out, err, present := xzUtilsDecode(dir, selfFiles)
		if present && (err != nil || !bytes.Equal(out, selfPlain.Bytes())) {
			c.Inconclusive("trusted base: xz-utils disagrees with ref on generated streams: %v", err)
			return
		}
	}
	if tag, line, ok := ops.validate(c); ok && tag != "" {
		c.Inconclusive("trusted base: TLC (TraceLzma) rejects the operation trace of generated stream %s at line %d", tag, line)
	}
	c.Logf("%d streams (%d corpus/fresh, %d generated)", len(streams), nCorpus, len(streams)-nCorpus)
	parallel(len(streams), func(i int) {
		s := streams[i]
		for di, dc := range s.dicts {
			if dc > 64<<20 {
				continue
			}
			nt := int64(0)
			if s.nt && di == 0 {
				nt = 1
			}
			c.Count(1, nt)
			// "whichever encoder wrote it" - and however the bytes arrive: the window sizes rotate
			// through plain in-memory sources and short-reading ones (half buffers, 1-3 bytes, one
			// byte per call, last bytes together with io.EOF); large streams skip the one-byte source
			mode := []string{"", "half", "small", "dataeof", "one", "gaps"}[(i+di)%6]
			if mode == "one" && len(s.data) > 200000 {
				mode = "half"
			}
			bufSize := []int{4096, 70000, 513}[(i+di)%3]
			out, err, p := readXZMode(s.data, dc, false, bufSize, mode)
			if p != nil || err != nil || !bytes.Equal(out, s.plain) {
				c.Violation(map[string]string{"reader": "xz", "kind": "valid-stream-misread", "source": s.name[:3], "rerr": libErrTag(err)},
					fmt.Sprintf("valid stream %s with ReaderConfig.DictCap=%d (source %q, %d-byte reads): got %d bytes (want %d) err=%v panic=%v", s.name, dc, mode, bufSize, len(out), len(s.plain), err, p),
					map[string]any{"stream": s.name, "dictcap": dc, "source": mode, "readBuffer": bufSize, "hex": hexHead(s.data, 2048)})
			}
		}
		if i%40 == 0 {
			c.Sample(map[string]any{"stream": s.name, "len": len(s.data), "plain": len(s.plain)})
		}
	})
}
