package drive

import (
	"bytes"
	"encoding/json"
	"fmt"
	"io"
	"math/rand"
	"time"
	"verif/internal/tlc"

	"github.com/ulikunitz/xz"
	"verif/internal/hx"
	"verif/internal/ref"
)

// XZRun is what replaying a history on the real xz.Writer produced.
type XZRun struct {
	Sink    []byte
	Written []byte
	Closed  bool
	Failed  bool // a call that the contract says must succeed failed
	NCalls  int
	Calls   []xzCall // every public call with its observable result (TraceXzWriter)
}

// xzCall is one line of a TraceXzWriter trace.
type xzCall struct {
	Ev     string `json:"ev"`
	N      int    `json:"n"`
	Ret    int    `json:"ret"`
	Err    string `json:"err"`
	Delta  int    `json:"delta"`
	Parsed bool   `json:"parsed"`
	Blocks []int  `json:"blocks"`
	BS     int64  `json:"bs"`
}

// xzTrace renders the call history of one run as TraceXzWriter lines; the block list of the
// first successful Close is the one the reference parser found in the sink (nil: not parsed).
func xzTrace(g XZCfg, run XZRun, blocks []int) []byte {
	var b bytes.Buffer
	enc := json.NewEncoder(&b)
	bs := g.BlockSize
	if bs > 2000000000 {
		bs = 0
	}
	enc.Encode(xzCall{Ev: "Reset", Err: "nil", Blocks: []int{}, BS: bs})
	first := true
	for _, cl := range run.Calls {
		cl.Blocks = []int{}
		if cl.Ev == "Close" && cl.Err == "nil" && first {
			first = false
			if blocks != nil {
				cl.Parsed, cl.Blocks = true, blocks
			}
		}
		enc.Encode(cl)
	}
	return b.Bytes()
}

// validateXZTraces sends recorded xz.Writer call histories to TLC (TraceXzWriter).
func validateXZTraces(c *hx.Ctx, tr []byte, ncases int) {
	if len(tr) == 0 {
		return
	}
	r := c.TLC(tlc.Opts{Module: "TraceXzWriter", Cfg: "TraceXzWriter.cfg", Files: map[string][]byte{"trace.ndjson": tr}, Timeout: 10 * time.Minute, Xss: "256m"})
	if r.OK {
		c.Traces += int64(ncases)
		return
	}
	depth := -1
	for _, p := range r.Printed {
		var m struct {
			Kind  string
			Depth int
		}
		if json.Unmarshal([]byte(p), &m) == nil && m.Kind == "depth" {
			depth = m.Depth
		}
	}
	lines := bytes.Split(tr, []byte("\n"))
	bad := ""
	if depth >= 1 && depth <= len(lines) {
		bad = string(lines[depth-1])
	}
	if c.Violations() == 0 {
		c.Inconclusive("TLC rejects a recorded xz.Writer trace at line %d (%s %s) that the driver's observable oracle accepted: %.300s\n%s", depth, r.Violation, r.ErrText, bad, r.Tail(6))
	} else {
		c.Logf("TLC rejects the recorded xz.Writer trace at line %d (consistent with reported violations): %.200s", depth, bad)
	}
}

// runXZ replays one call history on xz.Writer and judges the call-level
// clauses of C01 (results of Write/Close, nothing emitted after Close).
func runXZ(c *hx.Ctx, g XZCfg, hist []string, seed int64, fixedData [][]byte) XZRun {
	var res XZRun
	sig := func(kind string, extra ...string) map[string]string {
		m := map[string]string{"writer": "xz", "kind": kind, "matcher": fmt.Sprint(g.Matcher), "dictcap": fmt.Sprint(g.DictCap), "bufsize": fmt.Sprint(g.BufSize)}
		for i := 0; i+1 < len(extra); i += 2 {
			m[extra[i]] = extra[i+1]
		}
		return m
	}
	replay := map[string]any{"cfg": g, "hist": hist, "seed": seed}
	if fixedData != nil {
		var hx []string
		for _, d := range fixedData {
			hx = append(hx, hexHead(d, 256))
		}
		replay["data"] = hx
	}
	sink := &RecSink{}
	var target io.Writer = onlyWriter{sink}
	if (seed+int64(len(hist)))%2 == 1 {
		target = byteSink{sink} // also an io.ByteWriter
	}
	replay["sinkIsByteWriter"] = (seed+int64(len(hist)))%2 == 1
	var w *xz.Writer
	var err error
	if p := safely(func() { w, err = g.lib().NewWriter(target) }); p != nil || err != nil {
		c.Violation(sig("new-failed"), fmt.Sprintf("NewWriter(%v) failed: %v %v", g, err, p), replay)
		res.Failed = true
		return res
	}
	wi := 0
	for i, tok := range hist {
		before := sink.Buf.Len()
		var n int
		var e error
		var p any
		var data []byte
		op := "Write"
		if tok == "C" {
			op = "Close"
			p = safely(func() { e = w.Close() })
		} else {
			if fixedData != nil {
				data = fixedData[wi]
				wi++
			} else {
				data = payload(tok, seed, i, W2Cfg{Matcher: g.Matcher, DictCap: g.DictCap})
			}
			p = safely(func() { n, e = writeVia(w, data, fixedData == nil && (seed+int64(i))%4 == 0) })
		}
		res.NCalls++
		delta := sink.Buf.Len() - before
		res.Calls = append(res.Calls, xzCall{Ev: op, N: len(data), Ret: n, Err: errClass(e, p), Delta: delta})
		if p != nil {
			c.Violation(sig("panic", "op", op), fmt.Sprintf("%s panicked: %v", op, p), replay)
			res.Failed = true
			return res
		}
		if res.Closed {
			if e == nil {
				c.Violation(sig("after-close-accepted", "op", op), op+" after Close returned nil", replay)
			}
			if delta != 0 || n != 0 {
				c.Violation(sig("after-close-emits", "op", op), fmt.Sprintf("%s after Close emitted %d bytes / accepted %d", op, delta, n), replay)
			}
			continue
		}
		if e != nil || (op == "Write" && n != len(data)) {
			c.Violation(sig("call-failed", "op", op, "err", errClass(e, nil), "data", dataTag(tok)), fmt.Sprintf("%s #%d (%s, %d bytes) failed: n=%d err=%v", op, i, tok, len(data), n, e), replay)
			res.Failed = true
			return res
		}
		if op == "Write" {
			res.Written = append(res.Written, data...)
		} else {
			res.Closed = true
		}
	}
	res.Sink = sink.Buf.Bytes()
	return res
}

// judgeRoundTrip: the library's own reader must return the input and EOF.
func judgeRoundTrip(c *hx.Ctx, g XZCfg, run XZRun, replay any) {
	sig := func(kind string, extra ...string) map[string]string {
		m := map[string]string{"writer": "xz", "kind": kind, "matcher": fmt.Sprint(g.Matcher), "dictcap": fmt.Sprint(g.DictCap), "first": firstBytesTag(run.Written)}
		for i := 0; i+1 < len(extra); i += 2 {
			m[extra[i]] = extra[i+1]
		}
		return m
	}
	// Reader options rotate with the case: mostly the smallest window the library accepts (the
	// declared dictionary size then decides), sometimes the default window, sometimes
	// SingleStream (the writer emits exactly one stream); read sizes rotate too.
	rc := xz.ReaderConfig{DictCap: 4096}
	bufSize := 32768
	switch len(run.Sink) % 5 {
	case 1:
		rc = xz.ReaderConfig{}
	case 2:
		rc = xz.ReaderConfig{DictCap: 4096, SingleStream: true}
		bufSize = 1000
	case 3:
		bufSize = 70000
	}
	r, err := rc.NewReader(bytes.NewReader(run.Sink))
	if err != nil {
		c.Violation(sig("reader-open"), fmt.Sprintf("xz.NewReader rejects the writer's output: %v", err), replay)
		return
	}
	out, rerr, p := readAllSafe(r, bufSize, 0)
	if p != nil || rerr != nil || !bytes.Equal(out, run.Written) {
		c.Violation(sig("roundtrip", "rerr", libErrTag(rerr)), fmt.Sprintf("round trip: got %d bytes (want %d) err=%v panic=%v", len(out), len(run.Written), rerr, p), replay)
	}
}

// judgeValid: the emitted stream is a valid .xz file by the independent
// reference; returns the parsed result for further (TLC) validation.
func judgeValid(c *hx.Ctx, g XZCfg, run XZRun, replay any) (ref.XZResult, bool) {
	sig := func(kind string, extra ...string) map[string]string {
		m := map[string]string{"writer": "xz", "kind": kind, "matcher": fmt.Sprint(g.Matcher), "dictcap": fmt.Sprint(g.DictCap), "first": firstBytesTag(run.Written)}
		for i := 0; i+1 < len(extra); i += 2 {
			m[extra[i]] = extra[i+1]
		}
		return m
	}
	xr := ref.DecodeXZ(run.Sink, ref.XZOpts{})
	if xr.Err != nil {
		c.Violation(sig("ref-rejects", "what", xr.What), fmt.Sprintf("reference parser rejects the emitted stream: %v", xr.Err), replay)
		return xr, false
	}
	if !bytes.Equal(xr.Content, run.Written) {
		c.Violation(sig("ref-content"), fmt.Sprintf("reference decoder recovers %d bytes that differ from the %d written", len(xr.Content), len(run.Written)), replay)
		return xr, false
	}
	if len(xr.Streams) != 1 {
		c.Violation(sig("stream-count"), fmt.Sprintf("%d streams emitted", len(xr.Streams)), replay)
		return xr, false
	}
	for bi, b := range xr.Streams[0].Blocks {
		for ci, ch := range b.L2.Chunks {
			switch ch.Kind {
			case "L", "LR", "LRN", "LRND":
				if ch.U > 1<<21 || ch.C > 1<<16 {
					c.Violation(sig("chunk-limit"), fmt.Sprintf("block %d chunk %d %v exceeds the LZMA2 limits", bi, ci, ch), replay)
				}
			case "U", "UD":
				if ch.U > 1<<16 {
					c.Violation(sig("chunk-limit"), fmt.Sprintf("block %d raw chunk %d %v exceeds 64 KiB", bi, ci, ch), replay)
				}
			}
			if ch.Over > 0 {
				c.Violation(sig("distance-beyond-window"), fmt.Sprintf("block %d chunk %d uses a distance %d bytes beyond the window", bi, ci, ch.Over), replay)
			}
		}
	}
	return xr, true
}

// xzConfigs returns boundary configurations; the i-th call rotates through
// the cross product deterministically from the seed.
func xzConfig(r *rand.Rand, big bool) XZCfg {
	props := [][3]int{{3, 0, 2}, {0, 0, 0}, {4, 0, 4}, {0, 4, 0}, {2, 2, 2}, {1, 3, 1}, {3, 1, 3}, {0, 0, 4}, {4, 0, 0}}
	dicts := []int{4096, 4097, 5000, 6144, 32768, 49152, 65536 - 273, 65536, 100000, 1 << 20}
	if big {
		dicts = append(dicts, 8<<20, 3<<20+1)
	}
	bufs := []int{273, 274, 4096, 8192, 49152, 65536}
	blocks := []int64{0, 1, 2, 7, 4096, 65536, 65537, 100000, 1 << 40}
	checks := []int{0, 1, 4, 10, -1}
	p := props[r.Intn(len(props))]
	return XZCfg{LC: p[0], LP: p[1], PB: p[2], DictCap: dicts[r.Intn(len(dicts))], BufSize: bufs[r.Intn(len(bufs))],
		BlockSize: blocks[r.Intn(len(blocks))], Check: checks[r.Intn(len(checks))], Matcher: r.Intn(2)}
}
