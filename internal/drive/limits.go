package drive

import (
	"bytes"
	"fmt"
	"math/rand"

	"verif/internal/ref"
)

// sizeLimitStreams builds raw LZMA2 streams whose chunks sit exactly on the size limits of
// the format (Lzma2.tla: MaxLzmaC = 65536 compressed, MaxLzmaU = 2097152 uncompressed,
// MaxRawU = 65536) and one byte below them. The library's own writer never produces such
// chunks, a reader must accept them.
func sizeLimitStreams(seed int64) ([]Base, error) {
	var out []Base
	// (a) an LZMA chunk with exactly `target` compressed bytes: random literals, count found
	// by bisection (the compressed size is monotone in the number of literals)
	r := rand.New(rand.NewSource(seed*13 + 5))
	for _, target := range []int{65536, 65535} {
		var found *ref.L2Enc
		// the compressed size grows by 0..2 bytes per literal, so a given literal sequence may
		// jump over the target: try further sequences until one lands on it
		for attempt := 0; attempt < 40 && found == nil; attempt++ {
			lits := make([]ref.Op, 70000)
			for i := range lits {
				lits[i] = ref.Op{K: ref.OpLit, B: byte(r.Intn(256))}
			}
			csize := func(n int) (int, *ref.L2Enc, error) {
				e := ref.NewL2Enc(1 << 22)
				if err := e.Add(ref.ChunkSpec{Kind: "LRND", Props: ref.Props{LC: 3, LP: 0, PB: 2}, Ops: lits[:n]}); err != nil {
					return 0, nil, err
				}
				return (int(e.Out[3])<<8 | int(e.Out[4])) + 1, e, nil
			}
			lo, hi := 1000, 65000
			for lo <= hi {
				mid := (lo + hi) / 2
				cs, e, err := csize(mid)
				if err != nil {
					hi = mid - 1 // chunk too large for the synthesiser: fewer literals
					continue
				}
				switch {
				case cs == target:
					found, lo = e, hi+1
				case cs < target:
					lo = mid + 1
				default:
					hi = mid - 1
				}
			}
		}
		if found == nil {
			return nil, fmt.Errorf("no literal count yields a chunk of %d compressed bytes", target)
		}
		// continue the stream: a second chunk without reset, then the end
		found.Add(ref.ChunkSpec{Kind: "L", Ops: []ref.Op{{K: ref.OpMatch, Dist: 7, Len: 40}, {K: ref.OpLit, B: 'x'}}})
		found.Add(ref.ChunkSpec{Kind: "EOS"})
		out = append(out, Base{fmt.Sprintf("l2-lzma-chunk-csize-%d", target), found.Out, found.Pt, 0})
	}
	// (b) LZMA chunks with exactly 2^21 and 2^21-1 uncompressed bytes; (c) raw chunks of 65536 / 65535 bytes
	for _, u := range []int{1 << 21, 1<<21 - 1} {
		e := ref.NewL2Enc(1 << 22)
		ops := []ref.Op{}
		for i := 0; i < 16; i++ {
			ops = append(ops, ref.Op{K: ref.OpLit, B: byte(11*i + 1)})
		}
		left := u - 16
		for left > 0 {
			n := 273
			if left < n {
				n = left
			}
			if left-n == 1 { // a match is at least 2 bytes long
				n--
			}
			ops = append(ops, ref.Op{K: ref.OpMatch, Dist: 16, Len: n})
			left -= n
		}
		if err := e.Add(ref.ChunkSpec{Kind: "LRND", Props: ref.Props{LC: 0, LP: 0, PB: 0}, Ops: ops}); err != nil {
			return nil, err
		}
		raw := make([]byte, 65536-(1<<21-u))
		r.Read(raw)
		if err := e.Add(ref.ChunkSpec{Kind: "U", Raw: raw}); err != nil {
			return nil, err
		}
		e.Add(ref.ChunkSpec{Kind: "LR", Ops: []ref.Op{{K: ref.OpLit, B: 'q'}, {K: ref.OpMatch, Dist: 65000, Len: 9}}})
		e.Add(ref.ChunkSpec{Kind: "EOS"})
		out = append(out, Base{fmt.Sprintf("l2-lzma-chunk-usize-%d-raw-%d", u, len(raw)), e.Out, e.Pt, 0})
	}
	for _, b := range out {
		rr := ref.DecodeLZMA2(b.Data, ref.L2Opts{DictSize: 1 << 22})
		if rr.Err != nil || !rr.Ended || !bytes.Equal(rr.Out, b.Plain) {
			return nil, fmt.Errorf("trusted base: ref rejects its own size-limit stream %s: %v", b.Name, rr.Err)
		}
	}
	return out, nil
}
