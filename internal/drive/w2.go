package drive

import (
	"bytes"
	"encoding/json"
	"errors"
	"fmt"
	"io"
	"math/rand"
	"strings"
	"sync"

	"github.com/ulikunitz/xz/lzma"
	"verif/internal/hx"
	"verif/internal/ref"
)

var marginCache sync.Map

// payload realises a Write token of the CallHist alphabet.
func payload(tok string, seed int64, idx int, g W2Cfg) []byte {
	s := seed*131 + int64(idx)
	switch tok {
	case "WmR", "WmT", "WmF":
		// margin attack B (margin.go): the job's seed is the filler length
		v, ok := marginCache.Load(seed)
		if !ok {
			v, _ = marginCache.LoadOrStore(seed, marginBuildB(1, int(seed)))
		}
		p := v.(*marginPayloadB)
		return map[string][]byte{"WmR": p.R, "WmT": p.T, "WmF": p.F}[tok]
	}
	if g.Matcher == 1 && tok == "W5Mrz" {
		// same reason: the extremely compressible tail is a long period of random bytes
		p := g.DictCap / 2
		if p > 50000 {
			p = 50000
		}
		r := rand.New(rand.NewSource(s))
		b := make([]byte, 70000+5<<20)
		r.Read(b[:70000+p])
		for i := 70000 + p; i < len(b); i++ {
			b[i] = b[i-p]
		}
		return b
	}
	if g.Matcher == 1 && (tok == "W2M" || tok == "W2Mt") {
		// The BinaryTree matcher degenerates to a linked list on long runs of
		// equal 4-byte words (quadratic time; not a property under test), so
		// the highly redundant payload for it is a long period of random bytes.
		p := g.DictCap / 2
		if p > 50000 {
			p = 50000
		}
		r := rand.New(rand.NewSource(s))
		unit := make([]byte, p)
		r.Read(unit)
		b := make([]byte, 2200000)
		for i := range b {
			b[i] = unit[i%p]
		}
		return b
	}
	switch tok {
	case "W0":
		return []byte{}
	case "W1":
		return MakeData("one", 1, s)
	case "W273":
		return MakeData("text", 273, s)
	case "W4K":
		return MakeData("text", 4096, s)
	case "W4Kz":
		return MakeData("zeroprefix", 4100, s)
	case "W70Kr":
		return MakeData("random", 70000, s)
	case "W70Kt":
		return MakeData("text", 70000, s)
	case "W140Kn":
		// two alphabets eight apart: whatever band the raw/compressed decision is sensitive to
		return append(MakeData("nearrandom", 70000, s), MakeData("nearrandom", 70000, s+4)...)
	case "W4Mr":
		return MakeData("random", 4<<20, s)
	case "W5Mrz":
		// incompressible head and a long, extremely compressible tail handed over in ONE call: the
		// chunk that follows the compressed-size limit starts with look-ahead already buffered
		return append(MakeData("random", 70000, s), make([]byte, 5<<20)...)
	case "WLad32M":
		return MakeData("ladder", 1<<25+4096, s)
	case "WLad16M":
		return MakeData("ladder", 1<<24+4096, s)
	case "WLad64Kt":
		return MakeData("laddertext", 70000, s)
	case "WMaxRuns":
		return MakeData("maxlenruns", 30000, s)
	case "W80Krr":
		return MakeData("randomrepeats", 80000, s)
	case "W300Kr":
		return MakeData("random", 300000, s)
	case "W2M":
		return MakeData("run", 2200000, s)
	case "W2Mt":
		return MakeData("periodic", 2200000, s)
	}
	panic("unknown token " + tok)
}

// W2Cfg is a printable Writer2 configuration.
type W2Cfg struct {
	LC, LP, PB int
	DictCap    int
	BufSize    int
	Matcher    int
}

func (g W2Cfg) lib() lzma.Writer2Config {
	return lzma.Writer2Config{Properties: &lzma.Properties{LC: g.LC, LP: g.LP, PB: g.PB}, DictCap: g.DictCap, BufSize: g.BufSize, Matcher: lzma.MatchAlgorithm(g.Matcher)}
}

func (g W2Cfg) String() string {
	return fmt.Sprintf("lc%d lp%d pb%d dict%d buf%d m%d", g.LC, g.LP, g.PB, g.DictCap, g.BufSize, g.Matcher)
}

// errClass abstracts an error of a writer call for traces.
func errClass(err error, panicked any) string {
	switch {
	case panicked != nil:
		return "panic"
	case err == nil:
		return "nil"
	case strings.Contains(err.Error(), "closed"):
		return "closed"
	case errors.Is(err, errSinkFault):
		return "sink"
	case errors.Is(err, lzma.ErrNoSpace) || strings.Contains(err.Error(), "no space") || strings.Contains(err.Error(), "insufficient space"):
		return "nospace"
	}
	return "other"
}

var errSinkFault = errors.New("verif: injected sink fault")

type chunkJ struct {
	K string `json:"k"`
	U int    `json:"u"`
	C int    `json:"c"`
}

type callRec struct {
	Ev      string   `json:"ev"`
	N       int      `json:"n"`
	Ret     int      `json:"ret"`
	Err     string   `json:"err"`
	Delta   int      `json:"delta"`
	Chunks  []chunkJ `json:"chunks"`
	sinkLen int
	errText string
}

// W2Result is what runW2 learned.
type W2Result struct {
	Calls   []callRec
	Sink    []byte
	Written []byte
	Chunks  []ref.ChunkEv
	NonTriv bool
	NChunks int
}

// runW2 replays one call history on the real Writer2, judges every clause of
// C08 (and the writer side of C16) on the observables, and appends the
// abstract trace to tr for TLC. expect[i] is the spec's prediction.
func runW2(c *hx.Ctx, prop string, g W2Cfg, hist, expect []string, seed int64, tr *bytes.Buffer) W2Result {
	var res W2Result
	sig := func(kind string, extra ...string) map[string]string {
		m := map[string]string{"writer": "lzma2", "kind": kind, "matcher": fmt.Sprint(g.Matcher), "dictcap": fmt.Sprint(g.DictCap), "bufsize": fmt.Sprint(g.BufSize)}
		for i := 0; i+1 < len(extra); i += 2 {
			m[extra[i]] = extra[i+1]
		}
		return m
	}
	replay := map[string]any{"cfg": g, "hist": hist, "seed": seed}
	sink := &RecSink{}
	// the sink is a plain io.Writer or (every other case) also an io.ByteWriter: the writers
	// choose different output paths for the two
	var target io.Writer = onlyWriter{sink}
	if (seed+int64(len(hist)))%2 == 1 {
		target = byteSink{sink}
	}
	replay["sinkIsByteWriter"] = (seed+int64(len(hist)))%2 == 1
	var w *lzma.Writer2
	var err error
	libCfg := g.lib()
	if p := safely(func() { w, err = libCfg.NewWriter2(target) }); p != nil || err != nil {
		c.Violation(sig("new-failed"), fmt.Sprintf("NewWriter2(%v) failed: %v %v", g, err, p), replay)
		return res
	}
	// the configuration belongs to the caller again once the writer exists: reusing (here:
	// overwriting) it for something else must not reach into the running writer
	if libCfg.Properties != nil {
		*libCfg.Properties = lzma.Properties{LC: (g.LC + 1) % 4, LP: 0, PB: (g.PB + 2) % 5}
	}
	closed := false
	var flushPoints []int // indices into res.Calls of successful flushes
	writtenAt := []int{}
	for i, tok := range hist {
		rec := callRec{}
		before := sink.Buf.Len()
		var n int
		var e error
		var p any
		var data []byte
		switch tok {
		case "F":
			rec.Ev = "Flush"
			p = safely(func() { e = w.Flush() })
		case "C":
			rec.Ev = "Close"
			p = safely(func() { e = w.Close() })
		default:
			rec.Ev = "Write"
			data = payload(tok, seed, i, g)
			rec.N = len(data)
			p = safely(func() { n, e = writeVia(w, data, (seed+int64(i))%4 == 0) })
			rec.Ret = n
		}
		rec.Err = errClass(e, p)
		if e != nil {
			rec.errText = e.Error()
		}
		rec.Delta = sink.Buf.Len() - before
		rec.sinkLen = sink.Buf.Len()
		if p != nil {
			c.Violation(sig("panic", "op", rec.Ev), fmt.Sprintf("%s panicked: %v", rec.Ev, p), replay)
			return res
		}
		if closed {
			if e == nil {
				c.Violation(sig("after-close-accepted", "op", rec.Ev), rec.Ev+" after Close returned nil", replay)
			}
			if rec.Delta != 0 || n != 0 {
				c.Violation(sig("after-close-emits", "op", rec.Ev), fmt.Sprintf("%s after Close emitted %d bytes / accepted %d", rec.Ev, rec.Delta, n), replay)
			}
		} else {
			if e != nil || (rec.Ev == "Write" && n != len(data)) {
				c.Violation(sig("call-failed", "op", rec.Ev, "err", rec.Err, "data", dataTag(tok)), fmt.Sprintf("%s #%d (%s) failed: n=%d err=%v", rec.Ev, i, tok, n, e), replay)
				res.Calls = append(res.Calls, rec)
				return res
			}
			if rec.Ev == "Write" {
				res.Written = append(res.Written, data...)
			}
			if rec.Ev == "Flush" {
				flushPoints = append(flushPoints, len(res.Calls))
			}
			if rec.Ev == "Close" {
				closed = true
			}
		}
		if i < len(expect) && ((expect[i] == "closed") != (rec.Err != "nil")) {
			// already reported above in the property's own terms; keep trace faithful
		}
		writtenAt = append(writtenAt, len(res.Written))
		res.Calls = append(res.Calls, rec)
	}
	res.Sink = sink.Buf.Bytes()
	// chunk events of the whole sink, attributed to calls by end offset
	full := ref.DecodeLZMA2(res.Sink, ref.L2Opts{DictSize: int64(g.DictCap)})
	res.Chunks = full.Chunks
	res.NChunks = len(full.Chunks)
	ends := make([]int, len(full.Chunks))
	for i := range full.Chunks {
		if i+1 < len(full.Chunks) {
			ends[i] = full.Chunks[i+1].Off
		} else {
			ends[i] = full.Consumed
		}
	}
	ci := 0
	for j := range res.Calls {
		res.Calls[j].Chunks = []chunkJ{}
		for ci < len(full.Chunks) && ends[ci] <= res.Calls[j].sinkLen && (full.Err == nil || ci < full.BadChunk || errors.Is(full.Err, ref.ErrTrunc)) {
			ch := full.Chunks[ci]
			if ch.Kind == "EOS" || ends[ci] > ch.Off {
				res.Calls[j].Chunks = append(res.Calls[j].Chunks, chunkJ{ch.Kind, ch.U, ch.C})
			}
			ci++
		}
	}
	// C16 writer side: legal sequence and size limits, judged on the bytes
	for i, ch := range full.Chunks {
		if i == full.BadChunk && full.Err != nil && !errors.Is(full.Err, ref.ErrTrunc) {
			break
		}
		switch ch.Kind {
		case "L", "LR", "LRN", "LRND":
			if ch.U > 1<<21 || ch.C > 1<<16 || ch.U < 1 || ch.C < 1 {
				c.Violation(sig("chunk-limit", "ck", ch.Kind), fmt.Sprintf("chunk %d %v exceeds LZMA2 limits", i, ch), replay)
			}
		case "U", "UD":
			if ch.U > 1<<16 || ch.U < 1 {
				c.Violation(sig("chunk-limit", "ck", ch.Kind), fmt.Sprintf("raw chunk %d %v exceeds 64 KiB", i, ch), replay)
			}
		}
		if ch.Over > 0 {
			c.Violation(sig("distance-beyond-window", "ck", ch.Kind), fmt.Sprintf("chunk %d uses a distance %d bytes beyond the available window", i, ch.Over), replay)
		}
	}
	if full.Err != nil && !errors.Is(full.Err, ref.ErrTrunc) {
		kind := "invalid-stream"
		if errors.Is(full.Err, ref.ErrNeedDict) || errors.Is(full.Err, ref.ErrNeedProps) || errors.Is(full.Err, ref.ErrChunkCtrl) {
			kind = "illegal-seq"
		}
		c.Violation(sig(kind, "referr", refErrTag(full.Err), "first", firstBytesTag(res.Written)), fmt.Sprintf("reference decoder rejects the emitted LZMA2 stream at chunk %d: %v", full.BadChunk, full.Err), replay)
	}
	// Flush clauses
	emittedBefore := func(j int) int { // sum of U of chunks attributed to calls < j
		s := 0
		for k := 0; k < j; k++ {
			for _, ch := range res.Calls[k].Chunks {
				s += ch.U
			}
		}
		return s
	}
	for _, j := range flushPoints {
		prefix := res.Sink[:res.Calls[j].sinkLen]
		want := res.Written[:writtenAt[j]]
		pr := ref.DecodeLZMA2(prefix, ref.L2Opts{DictSize: int64(g.DictCap)})
		atBoundary := errors.Is(pr.Err, ref.ErrTrunc) && pr.BadChunk == len(pr.Chunks)
		if !bytes.Equal(pr.Out, want) || !atBoundary {
			kind := "flush-prefix-wrong"
			if len(pr.Out) < len(want) && bytes.Equal(pr.Out, want[:len(pr.Out)]) {
				kind = "flush-not-drained"
			}
			c.Violation(sig(kind, "first", firstBytesTag(want)), fmt.Sprintf("after Flush (call %d) the sink decodes (ref) to %d bytes, %d were written; err=%v", j, len(pr.Out), len(want), pr.Err), replay)
		}
		lr, e := lzma.Reader2Config{DictCap: g.DictCap}.NewReader2(bytes.NewReader(prefix))
		if e == nil {
			out, rerr, p := readAllSafe(lr, 4096, 0)
			if p != nil || !bytes.Equal(out, want) {
				c.Violation(sig("flush-prefix-lib-wrong", "first", firstBytesTag(want), "rerr", libErrTag(rerr)), fmt.Sprintf("after Flush (call %d) Reader2 returns %d bytes (want %d) err=%v panic=%v", j, len(out), len(want), rerr, p), replay)
			}
		}
		if writtenAt[j] == emittedBefore(j) && res.Calls[j].Delta != 0 {
			c.Violation(sig("flush-noop-emits"), fmt.Sprintf("Flush (call %d) with nothing pending emitted %d bytes", j, res.Calls[j].Delta), replay)
		}
		res.NonTriv = true
	}
	if closed {
		if full.Err != nil || !full.Ended || !bytes.Equal(full.Out, res.Written) || full.Consumed != len(res.Sink) {
			if full.Err == nil || errors.Is(full.Err, ref.ErrTrunc) {
				c.Violation(sig("final-wrong", "first", firstBytesTag(res.Written)), fmt.Sprintf("after Close ref decodes %d bytes (want %d) ended=%v consumed=%d/%d err=%v", len(full.Out), len(res.Written), full.Ended, full.Consumed, len(res.Sink), full.Err), replay)
			}
		}
		lr, e := lzma.Reader2Config{DictCap: g.DictCap}.NewReader2(bytes.NewReader(res.Sink))
		var out []byte
		var rerr error
		var p any
		if e == nil {
			out, rerr, p = readAllSafe(lr, 8192, 0)
		} else {
			rerr = e
		}
		if p != nil || rerr != nil || !bytes.Equal(out, res.Written) {
			c.Violation(sig("final-lib-wrong", "first", firstBytesTag(res.Written), "rerr", libErrTag(rerr)), fmt.Sprintf("after Close Reader2 returns %d bytes (want %d) err=%v panic=%v", len(out), len(res.Written), rerr, p), replay)
		}
	}
	if len(full.Chunks) > 2 {
		res.NonTriv = true
	}
	if tr != nil {
		tr.WriteString(`{"ev":"Reset"}` + "\n")
		for _, r := range res.Calls {
			b, _ := json.Marshal(r)
			tr.Write(b)
			tr.WriteByte('\n')
		}
	}
	return res
}

func dataTag(tok string) string {
	switch tok {
	case "W70Kr", "W300Kr":
		return "incompressible"
	}
	return "other"
}

func firstBytesTag(b []byte) string {
	n := 0
	for n < len(b) && n < 64 && b[n] != 0 {
		n++
	}
	if n < len(b) && n < 64 {
		return "early-zero"
	}
	return "no-early-zero"
}

func refErrTag(err error) string {
	switch {
	case errors.Is(err, ref.ErrDist):
		return "distance"
	case errors.Is(err, ref.ErrChunkSize):
		return "chunksize"
	case errors.Is(err, ref.ErrNeedDict), errors.Is(err, ref.ErrNeedProps), errors.Is(err, ref.ErrChunkCtrl):
		return "sequence"
	case errors.Is(err, ref.ErrTrunc):
		return "trunc"
	}
	return "other"
}

func libErrTag(err error) string {
	if err == nil {
		return "nil"
	}
	s := err.Error()
	switch {
	case strings.Contains(s, "distance out of range"):
		return "distance"
	case strings.Contains(s, "unexpected EOF"):
		return "uxeof"
	}
	return "other"
}
