package drive

import (
	"bytes"
	"io"
	"strings"

	"encoding/json"
	"fmt"
	"github.com/ulikunitz/xz"
	"math/rand"
	"time"

	"verif/internal/hx"
	"verif/internal/ref"
	"verif/internal/tlc"
)

func init() { Checks["C04"] = C04 }

// applyEdit applies the named XzDamage edit to block bi (1-based; 0 for
// stream-level edits) of the layout. ok=false if the edit does not apply.
func applyEdit(s *ref.LStream, xs ref.XZStream, edit string, bi int) (ok bool) {
	// "<edit>#<v>": variant v of how a "padding is not all zero" edit is realised (setPad)
	variant := 0
	if k := strings.IndexByte(edit, '#'); k >= 0 {
		variant = int(edit[k+1] - '0')
		edit = edit[:k]
	}
	other := func(c byte) byte {
		if c == 1 {
			return 4
		}
		return 1
	}
	reindex := func(i int) {
		b := &s.Blocks[i]
		s.Recs[i].Unpadded = uint64(len(b.HeaderBytes()) + len(b.Data) + len(b.Check))
		s.FixIndex()
	}
	switch edit {
	case "hmagic":
		s.Magic[1] ^= 0x20
	case "hcrc":
		s.HdrCrcBad = true
	case "hflag0":
		s.Flag0 = 1
	case "checkReserved":
		s.Flag1 = 2
	case "checkOther":
		s.Flag1 = other(s.Flag1)
	case "indicator":
		s.Indicator = 1
	case "countPlus":
		s.Count++
	case "countMinus":
		if s.Count == 0 {
			return false
		}
		s.Count--
	case "ipadNonzero":
		if len(s.IdxPad) == 0 {
			return false
		}
		if variant == 0 {
			s.IdxPad[len(s.IdxPad)-1] = 1
		} else if !setPad(s.IdxPad, variant) {
			return false
		}
	case "ipadPlus4":
		s.IdxPad = append(s.IdxPad, 0, 0, 0, 0)
		s.Backward++
	case "icrc":
		s.IdxCrcBad = true
	case "backwardPlus":
		s.Backward++
	case "backwardMinus":
		if s.Backward == 0 {
			return false
		}
		s.Backward--
	case "backwardHigh28":
		s.Backward ^= 1 << 28
	case "backwardHigh30":
		s.Backward ^= 1 << 30
	case "backwardHigh31":
		s.Backward ^= 1 << 31
	case "countHigh":
		s.Count += 1 << 32
	case "countWrap":
		s.Wrap = map[string]bool{"count": true}
		s.FixIndex()
	case "fflag0":
		s.FtrFlag0 = 1
	case "fcheck":
		s.FtrFlag1 = other(s.FtrFlag1)
	case "fmagic":
		s.FtrMagic[0] ^= 1
	case "fcrc":
		s.FtrCrcBad = true
	case "dropLastRec":
		if len(s.Recs) == 0 {
			return false
		}
		s.Recs = s.Recs[:len(s.Recs)-1]
		s.Count--
		s.FixIndex()
	case "dupLastRec":
		if len(s.Recs) == 0 {
			return false
		}
		s.Recs = append(s.Recs, s.Recs[len(s.Recs)-1])
		s.Count++
		s.FixIndex()
	default:
		if bi < 1 || bi > len(s.Blocks) {
			return false
		}
		i := bi - 1
		b := &s.Blocks[i]
		xb := xs.Blocks[i]
		switch edit {
		case "sizeBytePlus":
			b.SizeByteAdj = 1
		case "sizeByteMinus":
			b.SizeByteAdj = -1
		case "resv":
			b.Flags |= 0x04
		case "nfilters":
			b.Flags |= 0x01
		case "filterId":
			b.FilterID = 3
		case "filterIdLow21":
			b.FilterID = []uint64{0x121, 0x2021, 0x200021, 1<<35 | 0x21, 0x4000000000000021}[variant]
			b.FixHdrPad()
			reindex(i)
		case "propLen":
			b.PropLen = 2
			b.FilterProps = append(b.FilterProps, 0)
			b.FixHdrPad()
			reindex(i)
		case "dict41":
			b.FilterProps[0] = 41
		case "dict255":
			b.FilterProps[0] = 255
		case "dictLarger":
			if b.FilterProps[0]+3 > 40 {
				return false
			}
			b.FilterProps[0] += 3
		case "dictSmaller":
			if xb.MaxDist <= 4096 || b.FilterProps[0] == 0 {
				return false
			}
			b.FilterProps[0] = 0
		case "hpadNonzero":
			if len(b.HdrPad) == 0 {
				return false
			}
			if !setPad(b.HdrPad, variant) {
				return false
			}
		case "hpadPlus4":
			b.HdrPad = append(b.HdrPad, 0, 0, 0, 0)
			reindex(i)
		case "hpadPlus4Nonzero":
			b.HdrPad = append(b.HdrPad, 0, 0, 7, 0)
			if variant > 0 {
				b.HdrPad[len(b.HdrPad)-2] = 0
				if !setPad(b.HdrPad[len(b.HdrPad)-4:], variant) {
					return false
				}
			}
			reindex(i)
		case "hpadPlus8LastNonzero":
			b.HdrPad = append(b.HdrPad, 0, 0, 0, 0, 0, 0, 0, 1)
			if variant > 0 {
				b.HdrPad[len(b.HdrPad)-1] = 0
				if !setPad(b.HdrPad[len(b.HdrPad)-5:], variant) {
					return false
				}
			}
			reindex(i)
		case "hcrcB":
			b.HdrCrcBad = true
		case "addCsize":
			if b.HasC {
				return false
			}
			b.HasC, b.CSizeField = true, uint64(len(b.Data))
			b.Flags |= 0x40
			b.FixHdrPad()
			reindex(i)
		case "addUsize":
			if b.HasU {
				return false
			}
			b.HasU, b.USizeField = true, uint64(xb.USize)
			b.Flags |= 0x80
			b.FixHdrPad()
			reindex(i)
		case "csizeFPlus", "csizeFMinus", "usizeFPlus", "usizeFMinus":
			f, has := &b.CSizeField, b.HasC
			if edit[0] == 'u' {
				f, has = &b.USizeField, b.HasU
			}
			if !has {
				return false
			}
			if edit[len(edit)-4:] == "Plus" {
				*f++
			} else {
				if *f == 0 {
					return false
				}
				*f--
			}
			b.FixHdrPad()
			reindex(i)
		case "padNonzero":
			if len(b.Pad) == 0 {
				return false
			}
			if !setPad(b.Pad, variant) {
				return false
			}
		case "checkValue":
			if len(b.Check) == 0 {
				return false
			}
			b.Check[0] ^= 1
		case "recUnpaddedPlus1":
			s.Recs[i].Unpadded++
			s.FixIndex()
		case "recUnpaddedPlus4":
			s.Recs[i].Unpadded += 4
			s.FixIndex()
		case "recUsizePlus":
			s.Recs[i].USize++
			s.FixIndex()
		case "recUnpaddedHigh":
			s.Recs[i].Unpadded += 1 << 32
			s.FixIndex()
		case "recUsizeHigh":
			s.Recs[i].USize += 1 << 32
			s.FixIndex()
		case "csizeFHigh", "usizeFHigh":
			f, has := &b.CSizeField, b.HasC
			if edit[0] == 'u' {
				f, has = &b.USizeField, b.HasU
			}
			if !has {
				return false
			}
			*f += 1 << 32
			b.FixHdrPad()
			reindex(i)
		case "recUnpaddedWrap", "recUsizeWrap":
			s.Wrap = map[string]bool{fmt.Sprint(map[bool]string{true: "unpadded:", false: "usize:"}[edit == "recUnpaddedWrap"], i): true}
			s.FixIndex()
		case "csizeFWrap", "usizeFWrap", "filterIdWrap", "propLenWrap":
			if (edit == "csizeFWrap" && !b.HasC) || (edit == "usizeFWrap" && !b.HasU) {
				return false
			}
			b.Wrap = map[string]bool{map[string]string{"csizeFWrap": "csize", "usizeFWrap": "usize", "filterIdWrap": "filter", "propLenWrap": "proplen"}[edit]: true}
			b.FixHdrPad()
			reindex(i)
		case "recSwap":
			j := (i + 1) % len(s.Recs)
			if len(s.Recs) < 2 || s.Recs[i] == s.Recs[j] {
				return false
			}
			s.Recs[i], s.Recs[j] = s.Recs[j], s.Recs[i]
			s.FixIndex()
		default:
			return false
		}
	}
	return true
}

// readXZPastErrors reads like readXZ but keeps calling Read after errors (up to 8 of them):
// it returns nil only if the reader finally reports a clean end of stream.
func readXZPastErrors(data []byte, dictCap int, bufSize int) (out []byte, err error, panicked any) {
	var r io.Reader
	if p := safely(func() { r, err = xz.ReaderConfig{DictCap: dictCap}.NewReader(bytes.NewReader(data)) }); p != nil || err != nil {
		return nil, err, p
	}
	buf := make([]byte, bufSize)
	nerr := 0
	var last error
	p := safely(func() {
		for calls := 0; calls < 1<<22 && len(out) < 64<<20; calls++ {
			n, e := r.Read(buf)
			if n > 0 && n <= len(buf) {
				out = append(out, buf[:n]...)
			}
			if e == io.EOF {
				last = nil
				return
			}
			if e != nil {
				last = e
				if nerr++; nerr >= 8 {
					return
				}
			}
		}
		last = errStalled
	})
	return out, last, p
}

// setPad makes a padding "not all zero" in one of several ways: the specification only knows
// padZero = FALSE; which bytes carry what is a dimension of the realisation.  Variants 2..4 are
// byte patterns that cancel under addition modulo 256, under exclusive-or, or under both.
func setPad(pad []byte, v int) bool {
	n := len(pad)
	switch {
	case n == 0:
		return false
	case v == 0:
		pad[0] = 1
	case v == 1:
		pad[n-1] = 0x80
	case n < 2:
		return false
	case v == 2:
		pad[0], pad[n-1] = 0x80, 0x80 // sum and xor cancel
	case v == 3:
		pad[0], pad[1] = 0x01, 0xff // sum cancels
	case v == 4 && n >= 3:
		pad[0], pad[1], pad[2] = 0x55, 0x55, 0x56 // sum cancels over three bytes
	case v == 4:
		pad[0], pad[1] = 0x5a, 0x5a // xor cancels
	default:
		return false
	}
	return true
}

var padEdits = map[string]bool{"ipadNonzero": true, "hpadNonzero": true, "padNonzero": true, "hpadPlus4Nonzero": true, "hpadPlus8LastNonzero": true}

// C04: a damaged stream never decodes "successfully" to different content.
func C04(c *hx.Ctx) {
	c.Rule = "structural part: every single-field edit that TLC classifies from XzDamage (MustReject / Benign / Weak), applied to every block of every base stream (library-, reference- and xz-utils-written; all check types incl. none) with the enclosing CRC-32 re-sealed; byte part: every single-bit flip at every position, bursts <= 32 bits, one-byte insertions and deletions at every offset of every base stream that carries a check; oracle = error, or clean end with identical content; MustReject edits must error; non-trivial = modification outside the check field; edits include high-order-bit changes and non-zero padding in over-long headers; structural edits are read with two buffer sizes (777, 1); a quarter of the byte-level modifications are read on after errors"
	c.Assumptions = []string{"TLC (XzDamage classification over XzFormat)", "internal/ref serialiser for re-sealing; ref's own verdict must agree with the classification (else exit 2)", "CRC-32 collisions of payload edits (2^-32 per case)"}
	c.Exhaustive = true
	// classification table from TLC
	r := c.TLC(tlc.Opts{Module: "XzDamage", Cfg: "XzDamage.cfg", Timeout: 5 * time.Minute, Xss: "64m"})
	class := map[string]string{}
	for _, p := range r.Printed {
		var m struct {
			Kind  string
			Cases []struct {
				Base, Edit, Class string
				Block             int
			}
		}
		if json.Unmarshal([]byte(p), &m) == nil && m.Kind == "cases" {
			for _, cs := range m.Cases {
				if old, ok := class[cs.Edit]; ok && old != cs.Class {
					c.Inconclusive("XzDamage classifies edit %s differently on different bases", cs.Edit)
				}
				class[cs.Edit] = cs.Class
			}
		}
	}
	if !r.OK || len(class) < 30 {
		c.Inconclusive("XzDamage classification failed (%d edits): %s\n%s", len(class), r.ErrText, r.Tail(10))
		return
	}
	bases := baseStreams(c.Seed, c.Thorough())
	type job struct {
		base  int
		edit  string
		block int
	}
	var jobs []job
	for bi, b := range bases {
		xr := ref.DecodeXZ(b.Data, ref.XZOpts{})
		for e := range class {
			vs := []string{e}
			if padEdits[e] || e == "filterIdLow21" {
				vs = []string{e, e + "#1", e + "#2", e + "#3", e + "#4"}
			}
			for _, ev := range vs {
				jobs = append(jobs, job{bi, ev, 0})
				for k := 1; k <= len(xr.Streams[0].Blocks); k++ {
					jobs = append(jobs, job{bi, ev, k})
				}
			}
		}
	}
	applied := 0
	parallel(len(jobs), func(i int) {
		j := jobs[i]
		b := bases[j.base]
		xr := ref.DecodeXZ(b.Data, ref.XZOpts{})
		lay := ref.LayoutOf(b.Data, xr)
		isBlockEdit := false
		probe := ref.LayoutOf(b.Data, xr)
		if j.block == 0 {
			// stream-level edits only
			if !applyEdit(&probe[0], xr.Streams[0], j.edit, 0) {
				return
			}
		} else {
			if applyEdit(&probe[0], xr.Streams[0], j.edit, 0) {
				return // a stream-level edit: handled by the block==0 job
			}
			isBlockEdit = true
		}
		_ = isBlockEdit
		if !applyEdit(&lay[0], xr.Streams[0], j.edit, j.block) {
			return
		}
		file := ref.Serialize(lay)
		cl := class[strings.Split(j.edit, "#")[0]]
		// trusted base: ref agrees with the classification
		rx := ref.DecodeXZ(file, ref.XZOpts{})
		refRejects := rx.Err != nil
		if (cl == "MustReject") != refRejects && cl != "Weak" {
			c.Inconclusive("trusted base: edit %s on %s block %d classified %s but ref says err=%v", j.edit, b.Name, j.block, cl, rx.Err)
			return
		}
		// every edit is read twice: with a buffer that never ends on a block boundary and byte by
		// byte (every Read ends exactly where a block ends before the reader has seen its end marker)
		for _, bufSize := range []int{777, 1} {
			c.Count(1, 1)
			out, err, p := readXZ(file, 4096, false, bufSize)
			sig := map[string]string{"kind": "", "edit": j.edit, "class": cl, "check": fmt.Sprint(b.Check), "buf": fmt.Sprint(bufSize)}
			replay := map[string]any{"base": b.Name, "edit": j.edit, "block": j.block, "class": cl, "readBuffer": bufSize, "file": hexHead(file, 4096)}
			switch {
			case p != nil:
				sig["kind"] = "panic"
				c.Violation(sig, fmt.Sprintf("edit %s on %s: panic %v", j.edit, b.Name, p), replay)
			case cl == "MustReject" && err == nil:
				sig["kind"] = "inconsistency-accepted"
				c.Violation(sig, fmt.Sprintf("edit %s (block %d) on %s makes the metadata inconsistent but the reader reports a clean end (%d bytes)", j.edit, j.block, b.Name, len(out)), replay)
			case err == nil && !bytes.Equal(out, b.Plain):
				sig["kind"] = "different-content-accepted"
				c.Violation(sig, fmt.Sprintf("edit %s on %s: clean end with different content", j.edit, b.Name), replay)
			}
			if bufSize == 1 {
				continue
			}
			if applied%400 == 0 {
				c.Sample(map[string]any{"base": b.Name, "edit": j.edit, "block": j.block, "class": cl, "reader_err": fmt.Sprint(err)})
			}
			applied++
		}
	})
	c.Logf("structural edits done: %d evaluations", c.Evals)
	c.Traces += c.Evals // TLC-classified edits replayed on the real reader
	// LZMA2 chunk headers (one layer below the container, inside the block data and under no header
	// CRC): the size fields of every compressed chunk made larger or smaller. The chunk's compressed
	// size is redundant (the range decoder knows where it ends), the uncompressed size too for the
	// last chunk of a block with a size field - an inconsistent value must be reported.
	for _, b := range bases {
		xr := ref.DecodeXZ(b.Data, ref.XZOpts{})
		if xr.Err != nil || len(xr.Streams) != 1 {
			continue
		}
		for bi, blk := range xr.Streams[0].Blocks {
			for ci, ch := range blk.L2.Chunks {
				if ch.Ctrl < 0x80 {
					continue
				}
				at := blk.DataOff + ch.Off
				for _, ed := range []struct {
					name  string
					field int // offset of the 16-bit big-endian field after the control byte
					delta int
				}{{"l2csizePlus1", 3, 1}, {"l2csizePlus2", 3, 2}, {"l2csizePlus256", 3, 256}, {"l2csizeMinus1", 3, -1}, {"l2usizePlus1", 1, 1}, {"l2usizeMinus1", 1, -1}} {
					v := int(b.Data[at+ed.field])<<8 | int(b.Data[at+ed.field+1])
					v += ed.delta
					if v < 0 || v > 0xffff {
						continue
					}
					file := append([]byte{}, b.Data...)
					file[at+ed.field], file[at+ed.field+1] = byte(v>>8), byte(v)
					for _, bufSize := range []int{777, 1} {
						c.Count(1, 1)
						out, err, p := readXZ(file, 4096, false, bufSize)
						sig := map[string]string{"kind": "", "edit": ed.name, "check": fmt.Sprint(b.Check), "buf": fmt.Sprint(bufSize)}
						replay := map[string]any{"base": b.Name, "edit": ed.name, "block": bi + 1, "chunk": ci, "chunkOffset": at, "readBuffer": bufSize, "file": hexHead(file, 4096)}
						switch {
						case p != nil:
							sig["kind"] = "panic"
							c.Violation(sig, fmt.Sprintf("edit %s on %s: panic %v", ed.name, b.Name, p), replay)
						case err == nil && !bytes.Equal(out, b.Plain):
							sig["kind"] = "different-content-accepted"
							c.Violation(sig, fmt.Sprintf("edit %s on %s: clean end with different content", ed.name, b.Name), replay)
						case err == nil:
							sig["kind"] = "inconsistency-accepted"
							c.Violation(sig, fmt.Sprintf("edit %s (block %d, chunk %d) on %s: the chunk header states a size the chunk does not have, but the reader reports a clean end (%d bytes)", ed.name, bi+1, ci, b.Name, len(out)), replay)
						}
					}
				}
			}
		}
	}
	// byte-level modifications
	type mod struct {
		base int
		kind string
		off  int
		arg  int
	}
	var mods []mod
	rnd := rand.New(rand.NewSource(c.Seed))
	for bi, b := range bases {
		if b.Check == 0 {
			continue
		}
		n := len(b.Data)
		if n > 1200 {
			// large base: sample offsets
			for k := 0; k < c.Pick(600, 6000); k++ {
				mods = append(mods, mod{bi, "flip", rnd.Intn(n), rnd.Intn(8)})
			}
			for k := 0; k < c.Pick(200, 3000); k++ {
				mods = append(mods, mod{bi, "burst", rnd.Intn(n), 2 + rnd.Intn(31)}, mod{bi, "ins", rnd.Intn(n + 1), rnd.Intn(256)}, mod{bi, "del", rnd.Intn(n), 0})
			}
			continue
		}
		for off := 0; off < n; off++ {
			for bit := 0; bit < 8; bit++ {
				mods = append(mods, mod{bi, "flip", off, bit})
			}
			mods = append(mods, mod{bi, "del", off, 0}, mod{bi, "ins", off, int(b.Data[off])}, mod{bi, "ins", off, rnd.Intn(256)}, mod{bi, "sub", off, rnd.Intn(256)})
			if c.Thorough() || off%3 == 0 {
				mods = append(mods, mod{bi, "burst", off, 2 + rnd.Intn(31)})
			}
		}
		mods = append(mods, mod{bi, "ins", n, 0}, mod{bi, "ins", n, 0xfd})
	}
	c.Logf("%d byte-level modifications", len(mods))
	parallel(len(mods), func(i int) {
		m := mods[i]
		b := bases[m.base]
		data := append([]byte{}, b.Data...)
		switch m.kind {
		case "flip":
			data[m.off] ^= 1 << uint(m.arg)
		case "sub":
			if data[m.off] == byte(m.arg) {
				return
			}
			data[m.off] = byte(m.arg)
		case "burst":
			// XOR a burst of m.arg bits with a pattern that starts and ends with 1
			for k := 0; k < m.arg; k++ {
				pos := m.off*8 + k
				if pos/8 >= len(data) {
					break
				}
				if k == 0 || k == m.arg-1 || (k*7+m.off)%3 == 0 {
					data[pos/8] ^= 1 << uint(pos%8)
				}
			}
		case "ins":
			data = append(data[:m.off], append([]byte{byte(m.arg)}, data[m.off:]...)...)
		case "del":
			data = append(data[:m.off], data[m.off+1:]...)
		}
		if bytes.Equal(data, b.Data) {
			return
		}
		c.Count(1, 1)
		out, err, p := readXZ(data, 4096, false, 4096)
		if p == nil && err != nil && i%4 == 0 {
			// a caller that reads on after the error must not be told "clean end" either
			if o2, e2, p2 := readXZPastErrors(data, 4096, []int{1, 700, 65536}[i%3]); p2 != nil || (e2 == nil && !bytes.Equal(o2, b.Plain)) {
				out, err, p = o2, e2, p2
			}
		}
		if p != nil || (err == nil && !bytes.Equal(out, b.Plain)) {
			c.Violation(map[string]string{"kind": "different-content-accepted", "mod": m.kind, "check": fmt.Sprint(b.Check)},
				fmt.Sprintf("%s at offset %d (arg %d) of %s: clean end with different content (%d vs %d bytes) panic=%v", m.kind, m.off, m.arg, b.Name, len(out), len(b.Plain), p),
				map[string]any{"base": b.Name, "mod": m, "file": hexHead(data, 4096)})
		}
		if err == nil && bytes.Equal(out, b.Plain) {
			// benign byte change (e.g. stream padding): fine
		}
		if i%20000 == 0 {
			c.Sample(map[string]any{"base": b.Name, "mod": m.kind, "off": m.off, "reader_err": fmt.Sprint(err)})
		}
	})
}
