package drive

import (
	"bytes"
	"encoding/json"
	"fmt"
	"io"
	"sync"
	"time"

	"github.com/ulikunitz/xz/lzma"
	"verif/internal/hx"
	"verif/internal/ref"
	"verif/internal/tlc"
)

func init() { Checks["C05"] = C05 }

type cutObs struct {
	Start    string   `json:"start"`
	Regions  []string `json:"regions"`
	Partial  string   `json:"partial"`
	PadBytes int      `json:"padBytes"`
	Outcome  string   `json:"outcome"`
}

// regionsAt abstracts a cut position into the grammar's terms.
func regionsAt(regs []ref.Region, cut int) (before []string, partial string, padBytes int) {
	partial = "none"
	before = []string{}
	for _, r := range regs {
		switch {
		case r.End <= cut && (r.End > r.Off || r.Off < cut || r.Kind == "BEND" && r.Off <= cut):
			before = append(before, r.Kind)
		case r.Off < cut && cut < r.End:
			partial = r.Kind
			if r.Kind == "SPAD" {
				padBytes = cut - r.Off
			}
		}
	}
	return
}

func l2Regions(data []byte) []ref.Region {
	res := ref.DecodeLZMA2(data, ref.L2Opts{})
	var out []ref.Region
	for i, ch := range res.Chunks {
		end := res.Consumed
		if i+1 < len(res.Chunks) {
			end = res.Chunks[i+1].Off
		}
		if ch.Kind == "EOS" {
			out = append(out, ref.Region{Kind: "EOS", Off: ch.Off, End: ch.Off + 1})
			continue
		}
		hl := end - ch.Off - ch.C
		out = append(out, ref.Region{Kind: "CHDR", Off: ch.Off, End: ch.Off + hl}, ref.Region{Kind: "CDATA", Off: ch.Off + hl, End: end})
	}
	return out
}

func readL2(data []byte, dictCap int) (out []byte, err error, p any) {
	var r *lzma.Reader2
	if p = safely(func() { r, err = lzma.Reader2Config{DictCap: dictCap}.NewReader2(bytes.NewReader(data)) }); p != nil || err != nil {
		return nil, err, p
	}
	return readAllSafe(r, 512, 0)
}

func readAlone(data []byte, dictCap int) (out []byte, err error, p any) {
	var r *lzma.Reader
	// every other stream comes from a source that is only an io.Reader (no ReadByte): the
	// readers take a different input path for those
	var src io.Reader = bytes.NewReader(data)
	if (len(data)+dictCap/4096)%2 == 1 {
		src = struct{ io.Reader }{src}
	}
	if p = safely(func() { r, err = lzma.ReaderConfig{DictCap: dictCap}.NewReader(src) }); p != nil || err != nil {
		return nil, err, p
	}
	return readAllSafe(r, 512, 0)
}

// C05: a truncated stream is never mistaken for a complete one.
func C05(c *hx.Ctx) {
	c.Rule = "every proper prefix (cut 0..len-1, exhaustive per stream; thorough adds large streams with every cut outside payloads and every 97th inside) of library-, reference- and xz-utils-written .xz files (single and multi-stream with paddings), raw LZMA2 streams and .lzma streams in all termination modes, read with the real readers; outcomes validated by TLC against the region grammar XzReader; non-trivial = cut strictly inside a structure"
	c.Assumptions = []string{"TLC (XzReader grammar)", "region maps from the reference parser"}
	c.Exhaustive = true
	type target struct {
		name, format string
		data, plain  []byte
		regs         []ref.Region
		start        string
		step         func(cut int) bool // which cuts to try
	}
	var targets []target
	all := func(int) bool { return true }
	bases := baseStreams(c.Seed, c.Thorough())
	for _, b := range bases {
		xr := ref.DecodeXZ(b.Data, ref.XZOpts{})
		t := target{b.Name, "xz", b.Data, b.Plain, xr.Regions(), "start", all}
		if len(b.Data) > 2000 {
			regs := t.regs
			t.step = func(cut int) bool {
				for _, r := range regs {
					if r.Kind == "DATA" && cut > r.Off+8 && cut < r.End-8 {
						return cut%97 == 0
					}
				}
				return true
			}
		}
		targets = append(targets, t)
	}
	if c.Thorough() {
		// the whole frozen xz-utils corpus, the streams whose chunks sit on the size limits and
		// streams several times longer than the 4 KiB reader window (payload cuts sampled)
		have := map[string]bool{}
		for _, t := range targets {
			have[t.name] = true
		}
		sampled := func(regs []ref.Region, kind string, every int) func(int) bool {
			return func(cut int) bool {
				for _, r := range regs {
					if r.Kind == kind && cut > r.Off+8 && cut < r.End-8 {
						return cut%every == 0
					}
				}
				return true
			}
		}
		if corp, err := LoadCorpus(".xz"); err == nil {
			for _, f := range corp {
				if have["xzutils-"+f.Name] || len(f.Stream) > 200000 {
					continue
				}
				xr := ref.DecodeXZ(f.Stream, ref.XZOpts{})
				if xr.Err != nil {
					continue
				}
				regs := xr.Regions()
				targets = append(targets, target{"xzutils-" + f.Name, "xz", f.Stream, f.Plain, regs, "start", sampled(regs, "DATA", 61)})
			}
		}
		if lim, err := sizeLimitStreams(c.Seed); err == nil {
			for _, b := range lim {
				regs := l2Regions(b.Data)
				every := 1 + len(b.Data)/700
				targets = append(targets, target{b.Name, "lzma2-big", b.Data, b.Plain, regs, "l2", func(cut int) bool { return cut < 16 || cut%every == 0 || cut > len(b.Data)-16 }})
			}
		}
		for mi, cfg := range []lzma.WriterConfig{{DictCap: 4096}, {DictCap: 4096, SizeInHeader: true, Size: 15000}, {DictCap: 4096, SizeInHeader: true, Size: 15000, EOSMarker: true}} {
			plain := MakeData("alternating", 15000, c.Seed+int64(mi)+70)
			var buf bytes.Buffer
			if w, err := cfg.NewWriter(&buf); err == nil {
				w.Write(plain)
				w.Close()
				d := buf.Bytes()
				regs := []ref.Region{{Kind: "AHDR", Off: 0, End: 13}, {Kind: "ADATA", Off: 13, End: len(d)}, {Kind: "AEND", Off: len(d), End: len(d)}}
				targets = append(targets, target{fmt.Sprintf("alone-15k-window4k-mode%d", mi), "alone", d, plain, regs, "alone", all})
			}
		}
	}
	// multi-stream files with paddings
	find := func(n string) Base {
		for _, b := range bases {
			if b.Name == n {
				return b
			}
		}
		panic(n)
	}
	for i, pads := range [][2]int{{0, 0}, {4, 0}, {8, 4}, {0, 12}} {
		a, b := find("lib-crc32-3blk"), find("xzutils-one6.xz")
		if i%2 == 1 {
			a, b = find("ref-sized-crc32-2blk"), find("lib-empty")
		}
		file := append(append(append(append([]byte{}, a.Data...), make([]byte, pads[0])...), b.Data...), make([]byte, pads[1])...)
		xr := ref.DecodeXZ(file, ref.XZOpts{})
		if xr.Err != nil {
			c.Inconclusive("multi-stream base invalid: %v", xr.Err)
			continue
		}
		targets = append(targets, target{fmt.Sprintf("multi-%d-%d", pads[0], pads[1]), "xz", file, append(append([]byte{}, a.Plain...), b.Plain...), xr.Regions(), "start", all})
	}
	for _, b := range baseLZMA2(c.Seed) {
		targets = append(targets, target{b.Name, "lzma2", b.Data, b.Plain, l2Regions(b.Data), "l2", all})
	}
	for _, b := range baseAlone(c.Seed) {
		regs := []ref.Region{{Kind: "AHDR", Off: 0, End: 13}, {Kind: "ADATA", Off: 13, End: len(b.Data)}, {Kind: "AEND", Off: len(b.Data), End: len(b.Data)}}
		targets = append(targets, target{b.Name, "alone", b.Data, b.Plain, regs, "alone", all})
	}
	var mu sync.Mutex
	var obs bytes.Buffer
	nobs := 0
	maxObs := c.Pick(12000, 60000)
	type job struct{ t, cut int }
	var jobs []job
	for ti, t := range targets {
		for cut := 0; cut < len(t.data); cut++ {
			if t.step(cut) {
				jobs = append(jobs, job{ti, cut})
			}
		}
	}
	c.Logf("%d streams, %d cuts", len(targets), len(jobs))
	parallel(len(jobs), func(i int) {
		t := targets[jobs[i].t]
		cut := jobs[i].cut
		prefix := t.data[:cut]
		var out []byte
		var err error
		var p any
		switch t.format {
		case "xz":
			out, err, p = readXZ(prefix, 4096, false, 300)
		case "lzma2-big":
			out, err, p = readL2(prefix, 1<<22)
		case "lzma2":
			out, err, p = readL2(prefix, 4096)
		case "alone":
			out, err, p = readAlone(prefix, 4096)
		}
		before, partial, padBytes := regionsAt(t.regs, cut)
		nt := int64(0)
		if partial != "none" {
			nt = 1
		}
		c.Count(1, nt)
		region := partial
		if region == "none" && len(before) > 0 {
			region = "after-" + before[len(before)-1]
		}
		sig := func(kind string) map[string]string {
			return map[string]string{"format": t.format, "kind": kind, "region": region}
		}
		replay := map[string]any{"stream": t.name, "cut": cut, "len": len(t.data), "region": region, "hex": hexHead(t.data, 2048)}
		// predicted by the grammar (Go mirror of XzReader.EofOk; TLC re-validates below)
		cleanOK := false
		if t.format == "xz" && len(before) > 0 {
			last := before[len(before)-1]
			cleanOK = (partial == "none" && (last == "FOOTER" || last == "SPAD")) || (partial == "SPAD" && padBytes%4 == 0)
		}
		outcome := "error"
		if err == nil && p == nil {
			outcome = "clean"
		}
		switch {
		case p != nil:
			c.Violation(sig("panic"), fmt.Sprintf("%s cut at %d: panic %v", t.name, cut, p), replay)
		case err == io.EOF && !cleanOK:
			// the error value of a failed open/read must not be the end-of-stream value itself
			c.Violation(sig("error-value-is-eof"), fmt.Sprintf("%s cut at %d/%d (%s): the reported error is io.EOF itself", t.name, cut, len(t.data), region), replay)
		case outcome == "clean" && !cleanOK:
			c.Violation(sig("truncated-read-as-complete"), fmt.Sprintf("%s cut at %d/%d (%s): clean end of stream after %d of %d bytes", t.name, cut, len(t.data), region, len(out), len(t.plain)), replay)
		case outcome == "error" && cleanOK:
			c.Violation(sig("complete-prefix-rejected"), fmt.Sprintf("%s cut at %d (%s) is a complete file but reading fails: %v", t.name, cut, region, err), replay)
		}
		if !bytes.HasPrefix(t.plain, out) {
			c.Violation(sig("wrong-bytes-before-error"), fmt.Sprintf("%s cut at %d: the %d bytes delivered are not a prefix of the content", t.name, cut, len(out)), replay)
		}
		mu.Lock()
		if nobs < maxObs {
			b, _ := json.Marshal(cutObs{t.start, before, partial, padBytes, outcome})
			obs.Write(b)
			obs.WriteByte('\n')
			nobs++
		}
		mu.Unlock()
		if i%3001 == 0 {
			c.Sample(map[string]any{"stream": t.name, "cut": cut, "region": region, "outcome": outcome, "delivered": len(out)})
		}
	})
	r := c.TLC(tlc.Opts{Module: "XzReader", Cfg: "XzReader.cfg", Files: map[string][]byte{"cuts.ndjson": obs.Bytes()}, Timeout: 10 * time.Minute, Xss: "256m"})
	verdict := false
	for _, pr := range r.Printed {
		var m struct {
			Kind string
			N    int
			Bad  []int
		}
		if json.Unmarshal([]byte(pr), &m) == nil && m.Kind == "obs" {
			verdict = true
			c.Traces += int64(m.N - len(m.Bad))
			if len(m.Bad) > 0 && c.Violations() == 0 && len(c.KnownHits()) == 0 {
				c.Inconclusive("TLC (XzReader) rejects %d observed cut outcomes the driver accepted, first at line %d", len(m.Bad), m.Bad[0])
			}
		}
	}
	if !verdict {
		c.Inconclusive("XzReader gave no verdict: %s\n%s", r.ErrText, r.Tail(10))
	}
}
