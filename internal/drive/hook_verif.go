//go:build verif

package drive

import "github.com/ulikunitz/xz/lzma"

// encoderConsts reads the encoder's constants through the verif-tagged export of /repo
// (lzma/export_verif.go).
func encoderConsts() (margin, probBits, moveBits int, ok bool) {
	return lzma.VerifOpLenMargin, lzma.VerifProbBits, lzma.VerifMoveBits, true
}
