package drive

import (
	"bytes"
	"encoding/json"
	"fmt"
	"io"
	"time"
	"verif/internal/ref"

	"github.com/ulikunitz/xz"
	"github.com/ulikunitz/xz/lzma"
	"verif/internal/hx"
	"verif/internal/tlc"
)

type cfgRow struct {
	Cfg struct {
		Props   []int  `json:"props"`
		Dict    string `json:"dict"`
		Buf     int    `json:"buf"`
		Matcher int    `json:"matcher"`
		Block   int64  `json:"block"`
		Check   int    `json:"check"`
		None    bool   `json:"none"`
		Sih     bool   `json:"sih"`
		Size    int64  `json:"size"`
		Single  bool   `json:"single"`
	} `json:"cfg"`
	Ok    bool   `json:"ok"`
	Dict  string `json:"dict"`
	Buf   int    `json:"buf"`
	Props []int  `json:"props"`
	Check int    `json:"check"`
}

func dictToken(tok string) int {
	switch tok {
	case "0":
		return 0
	case "1":
		return 1
	case "4095":
		return 4095
	case "4096":
		return 4096
	case "4097":
		return 4097
	case "100000":
		return 100000
	case "8MiB":
		return 8 << 20
	case "max":
		return 1<<32 - 1
	case "over":
		return 1 << 32
	}
	panic(tok)
}

// configTable replays the decision table of spec/Config.tla for one kind of
// configuration record on the real Verify methods: acceptance and the
// defaults that replace zero values. Violations are reported under the
// calling property (the properties quantify over "all configurations the
// library accepts as valid").
func configTable(c *hx.Ctx, kind string) {
	cfg := fmt.Sprintf("SPECIFICATION Spec\nCONSTANT Kind = \"%s\"\nCHECK_DEADLOCK FALSE\n", kind)
	r := c.TLC(tlc.Opts{Module: "Config", Cfg: "k.cfg", Files: map[string][]byte{"k.cfg": []byte(cfg)}, Timeout: 3 * time.Minute, Xss: "128m"})
	var rows []cfgRow
	for _, p := range r.Printed {
		var m struct {
			Kind  string
			Table []cfgRow
		}
		if json.Unmarshal([]byte(p), &m) == nil && m.Kind == kind {
			rows = m.Table
		}
	}
	if !r.OK || len(rows) == 0 {
		c.Inconclusive("Config table (%s) not generated: %s\n%s", kind, r.ErrText, r.Tail(8))
		return
	}
	c.Traces += int64(len(rows))
	var probes []func() // accepted although the table says invalid: tried out after the loop (at most 400, evenly spaced)
	defer func() {
		step := 1 + len(probes)/400
		var sel []func()
		for i := 0; i < len(probes); i += step {
			sel = append(sel, probes[i])
		}
		parallel(len(sel), func(i int) { sel[i]() })
	}()
	for _, row := range rows {
		row := row
		var props *lzma.Properties
		if row.Cfg.Props != nil && row.Cfg.Props[0] != -9 {
			props = &lzma.Properties{LC: row.Cfg.Props[0], LP: row.Cfg.Props[1], PB: row.Cfg.Props[2]}
		}
		dict := dictToken(row.Cfg.Dict)
		var err error
		var gotDict, gotBuf, gotCheck int
		var gotProps *lzma.Properties
		p := safely(func() {
			switch kind {
			case "xz":
				w := xz.WriterConfig{Properties: props, DictCap: dict, BufSize: row.Cfg.Buf, BlockSize: row.Cfg.Block, CheckSum: byte(row.Cfg.Check), NoCheckSum: row.Cfg.None, Matcher: lzma.MatchAlgorithm(row.Cfg.Matcher)}
				err = w.Verify()
				gotDict, gotBuf, gotCheck, gotProps = w.DictCap, w.BufSize, int(w.CheckSum), w.Properties
			case "lzma2":
				w := lzma.Writer2Config{Properties: props, DictCap: dict, BufSize: row.Cfg.Buf, Matcher: lzma.MatchAlgorithm(row.Cfg.Matcher)}
				err = w.Verify()
				gotDict, gotBuf, gotProps = w.DictCap, w.BufSize, w.Properties
			case "lzma":
				w := lzma.WriterConfig{Properties: props, DictCap: dict, BufSize: row.Cfg.Buf, Matcher: lzma.MatchAlgorithm(row.Cfg.Matcher), SizeInHeader: row.Cfg.Sih, Size: row.Cfg.Size}
				err = w.Verify()
				gotDict, gotBuf, gotProps = w.DictCap, w.BufSize, w.Properties
			case "reader":
				a := xz.ReaderConfig{DictCap: dict, SingleStream: row.Cfg.Single}
				err = a.Verify()
				if err == nil && (a.SingleStream != row.Cfg.Single || (dict != 0 && a.DictCap < dict)) {
					c.Violation(map[string]string{"kind": "config-field-lost", "record": kind}, fmt.Sprintf("xz.ReaderConfig{DictCap: %d, SingleStream: %v}.Verify() left DictCap=%d SingleStream=%v", dict, row.Cfg.Single, a.DictCap, a.SingleStream), map[string]any{"record": kind, "row": row})
				}
				b := lzma.Reader2Config{DictCap: dict}
				e2 := b.Verify()
				d := lzma.ReaderConfig{DictCap: dict}
				e3 := d.Verify()
				if (err == nil) != (e2 == nil) || (err == nil) != (e3 == nil) {
					err = fmt.Errorf("the three reader configurations disagree: %v / %v / %v", err, e2, e3)
					if row.Ok {
						row.Ok = false // force a report below
					} else {
						row.Ok = true
					}
				}
				gotDict = b.DictCap
			}
		})
		// the constructors must agree with Verify: an invalid record yields an error (never a nil
		// object with a nil error), a valid one an object
		if p == nil && dict <= 1<<26 {
			var cerr error
			var obj any
			cp := safely(func() {
				switch kind {
				case "xz":
					w, e := xz.WriterConfig{Properties: props, DictCap: dict, BufSize: row.Cfg.Buf, BlockSize: row.Cfg.Block, CheckSum: byte(row.Cfg.Check), NoCheckSum: row.Cfg.None, Matcher: lzma.MatchAlgorithm(row.Cfg.Matcher)}.NewWriter(io.Discard)
					cerr = e
					if w != nil {
						obj = w
					}
				case "lzma2":
					w, e := lzma.Writer2Config{Properties: props, DictCap: dict, BufSize: row.Cfg.Buf, Matcher: lzma.MatchAlgorithm(row.Cfg.Matcher)}.NewWriter2(io.Discard)
					cerr = e
					if w != nil {
						obj = w
					}
				case "lzma":
					w, e := lzma.WriterConfig{Properties: props, DictCap: dict, BufSize: row.Cfg.Buf, Matcher: lzma.MatchAlgorithm(row.Cfg.Matcher), SizeInHeader: row.Cfg.Sih, Size: row.Cfg.Size}.NewWriter(io.Discard)
					cerr = e
					if w != nil {
						obj = w
					}
				default:
					cerr = err
					if err == nil {
						obj = true
					}
				}
			})
			if cp != nil || (cerr == nil) != (err == nil) || (cerr == nil) != (obj != nil) {
				c.Violation(map[string]string{"kind": "config-constructor", "record": kind, "expect_ok": fmt.Sprint(row.Ok)},
					fmt.Sprintf("%s configuration %+v: Verify says %v but the constructor returned object=%v err=%v panic=%v", kind, row.Cfg, err, obj != nil, cerr, cp), map[string]any{"record": kind, "row": row})
			}
		}
		c.Count(1, 1)
		sig := map[string]string{"kind": "config-table", "record": kind, "expect_ok": fmt.Sprint(row.Ok)}
		replay := map[string]any{"record": kind, "row": row}
		switch {
		case p != nil:
			c.Violation(sig, fmt.Sprintf("Verify panicked on %+v: %v", row.Cfg, p), replay)
		case err == nil && !row.Ok:
			// The table calls the record invalid, the library accepts it. The properties only speak
			// about "configurations the library accepts": a lenient library (one that repairs the
			// value) is fine as long as what it then does is right, so the accepted record is tried
			// out instead of being reported: writers must produce a stream the reference decodes to
			// the input, readers must decode a good stream.
			probes = append(probes, func() {
				if why := probeAcceptedConfig(kind, row.Cfg.Props, props, dict, row.Cfg.Buf, row.Cfg.Block, row.Cfg.Check, row.Cfg.None, row.Cfg.Matcher, row.Cfg.Sih, row.Cfg.Size); why != "" {
					c.Violation(sig, fmt.Sprintf("%s configuration %+v is accepted by Verify (the decision table calls it invalid) and does not work: %s", kind, row.Cfg, why), replay)
				}
			})
		case err != nil && row.Ok:
			c.Violation(sig, fmt.Sprintf("%s configuration %+v: Verify returned %v, the decision table says ok=%v", kind, row.Cfg, err, row.Ok), replay)
		case err == nil:
			// Zero fields must have been replaced by values that are themselves valid; explicitly set
			// fields must be left alone. Which default is chosen is the library's business, except for
			// the documented ones (check CRC64; the table's values for the others are what the code
			// does today and are not asserted).
			explicitDict := row.Cfg.Dict != "0"
			// (a library may round a capacity or a buffer size up: more room never hurts a property)
			badDict := gotDict < 4096 || (explicitDict && gotDict < dictToken(row.Cfg.Dict))
			badBuf := kind != "reader" && (gotBuf < 273 || (row.Cfg.Buf != 0 && gotBuf < row.Cfg.Buf))
			badProps := kind != "reader" && (gotProps == nil || gotProps.LC < 0 || gotProps.LC > 8 || gotProps.LP < 0 || gotProps.LP > 4 || gotProps.PB < 0 || gotProps.PB > 4 ||
				(props != nil && (gotProps.LC != props.LC || gotProps.LP != props.LP || gotProps.PB != props.PB)))
			badCheck := kind == "xz" && gotCheck != row.Check
			if badDict || badBuf || badProps || badCheck {
				sig["kind"] = "config-defaults"
				c.Violation(sig, fmt.Sprintf("%s configuration %+v: after Verify dict=%d buf=%d props=%v check=%d (explicit fields must be kept, zero fields replaced by valid values, default check CRC64)", kind, row.Cfg, gotDict, gotBuf, gotProps, gotCheck), replay)
			}
		}
	}
}

// probeAcceptedConfig uses a configuration record that Verify accepted although the decision table
// calls it invalid. It returns "" if the object built from it behaves (round trip judged by the
// reference decoder for writers; a known-good stream decoded for readers), else what went wrong.
func probeAcceptedConfig(kind string, rawProps []int, props *lzma.Properties, dict, buf int, block int64, check int, none bool, matcher int, sih bool, size int64) (why string) {
	if dict > 1<<26 {
		return "" // too large to try out; such a record would have to be huge to be wrong silently
	}
	n := 20000
	if block > 0 && block < 256 {
		n = 40 * int(block) // tiny blocks: a few dozen of them are enough
	}
	data := MakeData("text", n, int64(dict)+int64(buf))
	if p := safely(func() {
		var sink bytes.Buffer
		var w io.WriteCloser
		var err error
		switch kind {
		case "xz":
			w, err = xz.WriterConfig{Properties: props, DictCap: dict, BufSize: buf, BlockSize: block, CheckSum: byte(check), NoCheckSum: none, Matcher: lzma.MatchAlgorithm(matcher)}.NewWriter(&sink)
		case "lzma2":
			w, err = lzma.Writer2Config{Properties: props, DictCap: dict, BufSize: buf, Matcher: lzma.MatchAlgorithm(matcher)}.NewWriter2(&sink)
		case "lzma":
			if sih || size > 0 {
				// the stated size is binding
				data = data[:0]
				if size > 0 {
					data = MakeData("text", int(size), 3)
				}
			}
			w, err = lzma.WriterConfig{Properties: props, DictCap: dict, BufSize: buf, Matcher: lzma.MatchAlgorithm(matcher), SizeInHeader: sih, Size: size}.NewWriter(&sink)
		case "reader":
			good := libXZ(XZCfg{LC: 3, PB: 2, DictCap: 65536, BufSize: 4096, Check: 4}, data)
			r, e := xz.ReaderConfig{DictCap: dict}.NewReader(bytes.NewReader(good))
			if e != nil {
				why = fmt.Sprintf("Verify accepts it but NewReader fails: %v", e)
				return
			}
			out, e := io.ReadAll(r)
			if e != nil || !bytes.Equal(out, data) {
				why = fmt.Sprintf("a valid stream is not decoded with it: %v", e)
			}
			return
		}
		if err != nil {
			why = fmt.Sprintf("Verify accepts it but the constructor fails: %v", err)
			return
		}
		if _, err = w.Write(data); err == nil {
			err = w.Close()
		}
		if err != nil {
			why = fmt.Sprintf("writing 20 kB with it fails: %v", err)
			return
		}
		var got []byte
		var derr error
		switch kind {
		case "xz":
			r := ref.DecodeXZ(sink.Bytes(), ref.XZOpts{})
			got, derr = r.Content, r.Err
		case "lzma2":
			r := ref.DecodeLZMA2(sink.Bytes(), ref.L2Opts{})
			got, derr = r.Out, r.Err
		case "lzma":
			r := ref.DecodeAlone(sink.Bytes(), false)
			got, derr = r.Out, r.Err
		}
		if derr != nil || !bytes.Equal(got, data) {
			why = fmt.Sprintf("the stream written with it is not decoded to the input by the reference decoder: %v", derr)
		}
	}); p != nil {
		return fmt.Sprintf("panic: %v", p)
	}
	return why
}
