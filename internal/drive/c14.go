package drive

import (
	"bytes"
	"crypto/sha256"
	"encoding/binary"
	"encoding/hex"
	"encoding/json"
	"fmt"
	"io"
	"os"
	"os/exec"
	"path/filepath"
	"runtime"
	"strings"
	"sync"
	"time"

	"github.com/ulikunitz/xz"
	"github.com/ulikunitz/xz/lzma"
	"verif/internal/hx"
	"verif/internal/ref"
	"verif/internal/tlc"
)

func init() { Checks["C14"] = C14 }

// instance is one reader or writer with a fixed list of public calls.
type instance struct {
	name  string
	calls int
	// run executes call #k (0-based) and returns nothing; result() summarises.
	newRun func() *instRun
}

type instRun struct {
	step   func(k int)
	result func() string
}

// yieldBuf is a sink that yields the processor before it consumes the bytes handed to it: a
// writer that passes a buffer it no longer owns gives another goroutine the chance to reuse it.
type yieldBuf struct{ bytes.Buffer }

func (y *yieldBuf) Write(p []byte) (int, error) {
	runtime.Gosched()
	return y.Buffer.Write(p)
}

func sum(b []byte) string {
	h := sha256.Sum256(b)
	return hex.EncodeToString(h[:8])
}

// concInstances builds the instance catalogue (deterministic from seed).
func concInstances(seed int64) []instance {
	text := MakeData("text", 30000, seed)
	rnd := MakeData("alternating", 50000, seed+1)
	xzData := libXZ(XZCfg{LC: 3, PB: 2, DictCap: 65536, BufSize: 4096, Check: 4, BlockSize: 9000}, text)
	var l2buf bytes.Buffer
	{
		w, _ := lzma.Writer2Config{DictCap: 65536}.NewWriter2(&l2buf)
		w.Write(rnd)
		w.Close()
	}
	var albuf bytes.Buffer
	{
		w, _ := lzma.WriterConfig{DictCap: 65536}.NewWriter(&albuf)
		w.Write(text)
		w.Close()
	}
	split := func(b []byte, parts int) [][]byte {
		var out [][]byte
		for i := 0; i < parts; i++ {
			out = append(out, b[i*len(b)/parts:(i+1)*len(b)/parts])
		}
		return out
	}
	mkWriter := func(name string, open func(w io.Writer) (wcl, error), data []byte, flush bool) instance {
		parts := split(data, 2)
		return instance{name, 4, func() *instRun {
			var buf yieldBuf
			var w wcl
			var errs []string
			var errVals []error
			return &instRun{
				step: func(k int) {
					var e error
					defer func() {
						if p := recover(); p != nil {
							errs = append(errs, fmt.Sprint("panic: ", p))
						}
						errVals = append(errVals, e)
					}()
					switch k {
					case 0:
						w, e = open(&buf)
					case 1:
						_, e = w.Write(parts[0])
						if f, ok := w.(interface{ Flush() error }); ok && flush && e == nil {
							e = f.Flush()
						}
					case 2:
						_, e = w.Write(parts[1])
					case 3:
						e = w.Close()
					}
					errs = append(errs, fmt.Sprint(e))
				},
				// errors are rendered once when they occur and once more when the run is over
				result: func() string { return sum(buf.Bytes()) + fmt.Sprint(buf.Len(), errs, errVals) },
			}
		}}
	}
	mkReader := func(name string, open func(r io.Reader) (io.Reader, error), data []byte, plainLen int) instance {
		return instance{name, 4, func() *instRun {
			var r io.Reader
			var out []byte
			var errs []string
			var errVals []error
			return &instRun{
				step: func(k int) {
					var e error
					defer func() {
						if p := recover(); p != nil {
							errs = append(errs, fmt.Sprint("panic: ", p))
						}
						errVals = append(errVals, e)
					}()
					switch k {
					case 0:
						r, e = open(bytes.NewReader(data))
					case 1, 2:
						p := make([]byte, plainLen/3)
						var n int
						n, e = io.ReadFull(r, p)
						out = append(out, p[:n]...)
					case 3:
						var rest []byte
						rest, e = io.ReadAll(r)
						out = append(out, rest...)
					}
					errs = append(errs, fmt.Sprint(e))
				},
				// the error values are rendered a second time when the run is over: an error
				// object shared with other readers may have changed in the meantime
				result: func() string { return sum(out) + fmt.Sprint(len(out), errs, errVals) },
			}
		}}
	}
	// incompressible data first (stored as raw chunks, coder state rolled back), then compressible
	// data continuing in the same block/stream; many small blocks with different check types
	rawThenText := append(MakeData("random", 70000, seed+2), text...)
	rawWrapped := MakeData("random", 210000, seed+3) // > dictionary + look-ahead: raw chunks are copied out of a wrapped ring
	// one 6-block stream damaged in block 2 resp. block 5: readers that fail, in different places
	sixBlocks := libXZ(XZCfg{LC: 3, PB: 2, DictCap: 4096, BufSize: 4096, Check: 1, BlockSize: 5000}, text)
	damage := func(block int) []byte {
		xr := ref.DecodeXZ(sixBlocks, ref.XZOpts{})
		d := append([]byte{}, sixBlocks...)
		if xr.Err == nil && len(xr.Streams) == 1 && block < len(xr.Streams[0].Blocks) {
			b := xr.Streams[0].Blocks[block]
			d[b.CheckOff] ^= 0x55
		}
		return d
	}
	// one configuration value (and one *Properties) shared by two writers: creating a writer
	// must not leave anything behind in the caller's configuration that changes the next one
	var rawL2 []byte
	{
		var b bytes.Buffer
		w, _ := lzma.Writer2Config{DictCap: 65536}.NewWriter2(&b)
		w.Write(rawWrapped)
		w.Close()
		rawL2 = b.Bytes()
	}
	rawXZ := libXZ(XZCfg{LC: 3, PB: 2, DictCap: 65536, BufSize: 4096, Check: 1}, rawThenText)
	sharedProps := &lzma.Properties{LC: 2, LP: 1, PB: 3}
	sharedXZ := xz.WriterConfig{Properties: sharedProps, DictCap: 65536, CheckSum: xz.CRC32, BlockSize: 11000}
	sharedL2 := lzma.Writer2Config{Properties: sharedProps, DictCap: 65536}
	// the documented way to use a configuration: Verify it once (which fills in the defaults in
	// place), then create any number of writers from the verified value - whatever Verify left in
	// the value is now common to all of them
	verifiedXZ := xz.WriterConfig{DictCap: 65536, CheckSum: xz.SHA256, BlockSize: 7000}
	verifiedXZ.Verify()
	return []instance{
		mkWriter("xz-writer-verified-config-1", func(w io.Writer) (wcl, error) { return verifiedXZ.NewWriter(w) }, text, false),
		mkWriter("xz-writer-verified-config-2", func(w io.Writer) (wcl, error) { return verifiedXZ.NewWriter(w) }, rnd, false),
		mkWriter("xz-writer-shared-config-1", func(w io.Writer) (wcl, error) { return sharedXZ.NewWriter(w) }, text, false),
		mkWriter("xz-writer-shared-config-2", func(w io.Writer) (wcl, error) { return sharedXZ.NewWriter(w) }, text, false),
		mkWriter("lzma2-writer-shared-props", func(w io.Writer) (wcl, error) { return sharedL2.NewWriter2(w) }, rnd, true),
		mkWriter("xz-writer-raw-then-text", func(w io.Writer) (wcl, error) {
			return XZCfg{LC: 3, PB: 2, DictCap: 65536, BufSize: 4096, Check: 4}.lib().NewWriter(w)
		}, rawThenText, false),
		mkWriter("lzma2-writer-raw-then-text", func(w io.Writer) (wcl, error) { return lzma.Writer2Config{DictCap: 65536}.NewWriter2(w) }, rawThenText, true),
		mkWriter("lzma2-writer-raw-wrapped", func(w io.Writer) (wcl, error) { return lzma.Writer2Config{DictCap: 65536}.NewWriter2(w) }, rawWrapped, false),
		mkWriter("xz-writer-raw-wrapped", func(w io.Writer) (wcl, error) {
			return XZCfg{LC: 3, PB: 2, DictCap: 65536, BufSize: 4096, Check: 1}.lib().NewWriter(w)
		}, rawWrapped, false),
		// readers that fail in the middle of the data (input cut inside a block / a chunk), with the same
		// window sizes as the healthy readers of the catalogue: whatever a failed reader leaves behind
		// must not reach the next one
		mkReader("xz-reader-truncated", func(r io.Reader) (io.Reader, error) { return xz.NewReader(r) }, xzData[:len(xzData)*2/3], len(text)),
		mkReader("lzma2-reader-truncated", func(r io.Reader) (io.Reader, error) { return lzma.Reader2Config{DictCap: 65536}.NewReader2(r) }, l2buf.Bytes()[:l2buf.Len()/2], len(rnd)),
		mkReader("lzma-reader-truncated", func(r io.Reader) (io.Reader, error) { return lzma.NewReader(r) }, albuf.Bytes()[:albuf.Len()/2], len(text)),
		mkReader("xz-reader-damaged-block2", func(r io.Reader) (io.Reader, error) { return xz.NewReader(r) }, damage(1), len(text)),
		mkReader("xz-reader-damaged-block5", func(r io.Reader) (io.Reader, error) { return xz.NewReader(r) }, damage(4), len(text)),
		// nothing but defaults / a small dictionary with the default block size: several times the
		// dictionary in one block
		mkWriter("xz-writer-defaults", func(w io.Writer) (wcl, error) { return xz.NewWriter(w) }, rawThenText, false),
		mkWriter("xz-writer-small-dict-default-block", func(w io.Writer) (wcl, error) {
			return XZCfg{LC: 3, PB: 2, DictCap: 4096, BufSize: 4096, Check: 4}.lib().NewWriter(w)
		}, text, false),
		// instances that fail because a stated size is wrong, each with its own numbers: whatever the
		// error values carry belongs to the instance that failed
		mkReader("lzma-reader-size-short", func(r io.Reader) (io.Reader, error) { return lzma.NewReader(r) }, aloneWithSize(albuf.Bytes(), int64(len(text)-11)), len(text)),
		mkReader("lzma-reader-size-long", func(r io.Reader) (io.Reader, error) { return lzma.NewReader(r) }, aloneWithSize(albuf.Bytes(), int64(len(text)+1000)), len(text)),
		mkWriter("lzma-writer-size-mismatch", func(w io.Writer) (wcl, error) {
			return lzma.WriterConfig{DictCap: 65536, SizeInHeader: true, Size: int64(len(text)) + 777}.NewWriter(w)
		}, text, false),
		mkReader("lzma-reader-size-short-2", func(r io.Reader) (io.Reader, error) { return lzma.NewReader(r) }, aloneWithSize(albuf.Bytes(), 4321), len(text)),
		mkWriter("lzma-writer-size-mismatch-2", func(w io.Writer) (wcl, error) {
			return lzma.WriterConfig{DictCap: 4096, SizeInHeader: true, Size: int64(len(rnd)) + 5}.NewWriter(w)
		}, rnd, false),
		// readers of stored (raw) chunks: a path of its own in the LZMA2 reader
		mkReader("lzma2-reader-raw-chunks", func(r io.Reader) (io.Reader, error) { return lzma.Reader2Config{DictCap: 65536}.NewReader2(r) }, rawL2, len(rawWrapped)),
		mkReader("xz-reader-raw-chunks", func(r io.Reader) (io.Reader, error) { return xz.NewReader(r) }, rawXZ, len(rawThenText)),
		mkWriter("xz-writer-crc32-blocks", func(w io.Writer) (wcl, error) {
			return XZCfg{LC: 3, PB: 2, DictCap: 4096, BufSize: 4096, Check: 1, BlockSize: 700}.lib().NewWriter(w)
		}, text, false),
		mkWriter("xz-writer-none-blocks", func(w io.Writer) (wcl, error) {
			return XZCfg{LC: 3, PB: 2, DictCap: 4096, BufSize: 4096, Check: -1, BlockSize: 900}.lib().NewWriter(w)
		}, text, false),
		mkWriter("xz-writer-ht", func(w io.Writer) (wcl, error) {
			return XZCfg{LC: 3, PB: 2, DictCap: 65536, BufSize: 4096, Check: 4, BlockSize: 20000}.lib().NewWriter(w)
		}, text, false),
		mkWriter("xz-writer-bt", func(w io.Writer) (wcl, error) {
			return XZCfg{LC: 0, LP: 2, PB: 1, DictCap: 65536, BufSize: 273, Check: 10, Matcher: 1}.lib().NewWriter(w)
		}, rnd, false),
		mkWriter("lzma2-writer", func(w io.Writer) (wcl, error) { return lzma.Writer2Config{DictCap: 65536}.NewWriter2(w) }, rnd, true),
		mkWriter("lzma-writer", func(w io.Writer) (wcl, error) {
			return lzma.WriterConfig{DictCap: 65536, Matcher: lzma.BinaryTree}.NewWriter(w)
		}, text, false),
		mkReader("xz-reader", func(r io.Reader) (io.Reader, error) { return xz.NewReader(r) }, xzData, len(text)),
		mkReader("lzma2-reader", func(r io.Reader) (io.Reader, error) { return lzma.Reader2Config{DictCap: 65536}.NewReader2(r) }, l2buf.Bytes(), len(rnd)),
		mkReader("lzma-reader", func(r io.Reader) (io.Reader, error) { return lzma.NewReader(r) }, albuf.Bytes(), len(text)),
	}
}

// aloneWithSize returns a copy of a .lzma stream with the size field of its header set to n.
func aloneWithSize(stream []byte, n int64) []byte {
	b := append([]byte{}, stream...)
	binary.LittleEndian.PutUint64(b[5:13], uint64(n))
	return b
}

// runInterleaving forces the schedule (sequence of 1-based instance ids) on
// goroutines, one per instance, and returns each instance's result string.
func runInterleaving(insts []instance, sched []int) []string {
	n := len(insts)
	gates := make([]chan int, n)
	done := make(chan struct{})
	runs := make([]*instRun, n)
	for i := range insts {
		gates[i] = make(chan int)
		runs[i] = insts[i].newRun()
		go func(i int) {
			for k := range gates[i] {
				runs[i].step(k)
				done <- struct{}{}
			}
		}(i)
	}
	pc := make([]int, n)
	for _, id := range sched {
		i := id - 1
		gates[i] <- pc[i]
		pc[i]++
		<-done
	}
	res := make([]string, n)
	for i := range insts {
		close(gates[i])
		res[i] = runs[i].result()
	}
	return res
}

// ConcRef runs instance #idx alone (it is called in a fresh process per instance, so that
// no other instance has touched any process-wide state) and prints its result.
func ConcRef(seed int64, idx int) {
	insts := concInstances(seed)
	if idx < 0 || idx >= len(insts) {
		fmt.Println("CONCREF bad index")
		return
	}
	in := insts[idx]
	r := in.newRun()
	for k := 0; k < in.calls; k++ {
		r.step(k)
	}
	fmt.Printf("CONCREF %s\n", r.result())
}

// freshRefs computes every instance's stand-alone result in its own process.
func freshRefs(c *hx.Ctx, n int) []string {
	self, err := os.Executable()
	if err != nil {
		c.Inconclusive("cannot find the driver binary: %v", err)
		return nil
	}
	out := make([]string, n)
	// "a deterministic function of configuration and input": the stand-alone result is taken in
	// three different process environments (processor count, garbage-collector pace, working
	// directory, locale/time-zone/home variables) and must not depend on them
	envs := [][]string{
		nil,
		{"GOMAXPROCS=1", "GOGC=5", "TZ=Asia/Tokyo", "LANG=tr_TR.UTF-8", "LC_ALL=tr_TR.UTF-8"},
		{"GOMAXPROCS=3", "GOGC=400", "HOME=/nonexistent", "TMPDIR=/nonexistent", "USER=nobody"},
	}
	alt := make([][]string, n)
	var wg sync.WaitGroup
	sem := make(chan struct{}, 2*runtime.NumCPU())
	for i := 0; i < n; i++ {
		alt[i] = make([]string, len(envs))
		for e := range envs {
			wg.Add(1)
			go func(i, e int) {
				defer wg.Done()
				sem <- struct{}{}
				defer func() { <-sem }()
				cmd := exec.Command(self, "concref", fmt.Sprint(c.Seed), fmt.Sprint(i))
				if envs[e] != nil {
					cmd.Env = append(os.Environ(), envs[e]...)
					cmd.Dir = "/"
				}
				b, err := cmd.CombinedOutput()
				s := strings.TrimSpace(string(b))
				if err == nil && strings.HasPrefix(s, "CONCREF ") && !strings.Contains(s, "\n") {
					alt[i][e] = strings.TrimPrefix(s, "CONCREF ")
				}
			}(i, e)
		}
	}
	wg.Wait()
	names := concInstances(c.Seed)
	for i := range out {
		out[i] = alt[i][0]
		for e := 1; e < len(envs); e++ {
			if alt[i][e] == "" {
				out[i] = ""
			} else if alt[i][e] != alt[i][0] && alt[i][0] != "" {
				c.Violation(map[string]string{"kind": "depends-on-environment", "instance": names[i].name}, fmt.Sprintf("%s: alone in a fresh process it produces %s, with the environment %v %s", names[i].name, alt[i][0], envs[e], alt[i][e]), map[string]any{"instance": names[i].name, "env": envs[e]})
			}
		}
	}
	for i, s := range out {
		if s == "" {
			c.Inconclusive("stand-alone reference run of instance %d failed", i)
			return nil
		}
	}
	return out
}

// RaceWork is the free-running workload executed by the race-enabled binary. refFile, if
// given, holds the stand-alone results computed in fresh processes (JSON list).
func RaceWork(seed int64, rounds int, refFile string) {
	insts := concInstances(seed)
	want := make([]string, len(insts))
	if b, err := os.ReadFile(refFile); err == nil && json.Unmarshal(b, &want) == nil && len(want) == len(insts) {
		// references from fresh processes
	} else {
		want = make([]string, len(insts))
		for i, in := range insts {
			r := in.newRun()
			for k := 0; k < in.calls; k++ {
				r.step(k)
			}
			want[i] = r.result()
		}
	}
	var wg sync.WaitGroup
	var mu sync.Mutex
	bad := 0
	for round := 0; round < rounds; round++ {
		for i, in := range insts {
			for rep := 0; rep < 2; rep++ {
				wg.Add(1)
				go func(i int, in instance) {
					defer wg.Done()
					r := in.newRun()
					for k := 0; k < in.calls; k++ {
						r.step(k)
						runtime.Gosched()
					}
					if got := r.result(); got != want[i] {
						mu.Lock()
						bad++
						fmt.Printf("MISMATCH instance=%s want=%s got=%s\n", in.name, want[i], got)
						mu.Unlock()
					}
				}(i, in)
			}
		}
		wg.Wait()
	}
	fmt.Printf("RACEWORK done rounds=%d mismatches=%d\n", rounds, bad)
}

// C14: independent instances are safe concurrently; output deterministic.
func C14(c *hx.Ctx) {
	c.Rule = "(a) all interleavings at public-call granularity of pairs (2x4 calls: 70 each) and, thorough, triples (3x3: 1680) of instances drawn from {xz writer HashTable4/BinaryTree, LZMA2 writer with Flush, LZMA writer, xz/LZMA2/LZMA readers}, enumerated by TLC (Conc) and forced with channel gates; every instance's result must equal its sequential result and outputs must be identical across runs; (b) the same workloads free-running under the Go race detector with GOMAXPROCS in {2,4,16}; non-trivial = interleaving in which the instances alternate at least twice; 20 instances incl. two writers made from one configuration value after Verify, raw-chunk continuations, wrapped-ring raw chunks, many-block writers with different checks, shared configuration values, failing readers; stand-alone references from fresh processes; yielding sinks; defaulted vs explicit configuration fields"
	c.Assumptions = []string{"TLC (Conc) for the interleavings; clause (b) (data races) is decided by the Go race detector, not by TLA+", "gates create happens-before edges, hence the separate free-running race runs"}
	c.DesignCheck(tlc.Opts{Module: "ConcMC", Cfg: "Conc.cfg", Timeout: 3 * time.Minute, Workers: 1}, []string{"Step"})
	gen := func(lens string) [][]int {
		mc := fmt.Sprintf("---- MODULE ConcGen ----\nEXTENDS Conc\nLensDef == %s\n====\n", lens)
		r := c.TLC(tlc.Opts{Module: "ConcGen", Cfg: "Conc.cfg", Files: map[string][]byte{"ConcGen.tla": []byte(mc)}, Timeout: 5 * time.Minute, Workers: 1, Xss: "64m"})
		if !r.OK {
			c.Inconclusive("Conc generation failed: %s\n%s", r.ErrText, r.Tail(8))
			return nil
		}
		var out [][]int
		seen := map[string]bool{}
		for _, p := range r.Printed {
			if seen[p] {
				continue
			}
			seen[p] = true
			var m struct {
				Kind string
				S    []int
			}
			if json.Unmarshal([]byte(p), &m) == nil && m.Kind == "sched" {
				out = append(out, m.S)
			}
		}
		return out
	}
	insts := concInstances(c.Seed)
	fresh := freshRefs(c, len(insts))
	if fresh == nil {
		return
	}
	seq := make([]string, len(insts))
	for i, in := range insts {
		r := in.newRun()
		for k := 0; k < in.calls; k++ {
			r.step(k)
		}
		seq[i] = r.result()
		if seq[i] != fresh[i] {
			c.Violation(map[string]string{"kind": "depends-on-process-history", "instance": in.name}, fmt.Sprintf("%s: run after other instances in the same process it produces %s, alone in a fresh process %s", in.name, seq[i], fresh[i]), map[string]any{"instance": in.name, "ran_before": i})
		}
		seq[i] = fresh[i]
		// determinism of the sequential run itself
		r2 := in.newRun()
		for k := 0; k < in.calls; k++ {
			r2.step(k)
		}
		if r2.result() != seq[i] {
			c.Violation(map[string]string{"kind": "nondeterministic-output", "instance": in.name}, fmt.Sprintf("%s: two sequential runs differ: %s vs %s", in.name, seq[i], r2.result()), map[string]any{"instance": in.name})
		}
	}
	// the same catalogue once more in reverse order (every instance now runs after a different
	// set of predecessors in this process): still the stand-alone results
	for i := len(insts) - 1; i >= 0; i-- {
		in := insts[i]
		r := in.newRun()
		for k := 0; k < in.calls; k++ {
			r.step(k)
		}
		c.Count(1, 1)
		if got := r.result(); got != fresh[i] {
			c.Violation(map[string]string{"kind": "depends-on-process-history", "instance": in.name, "order": "reverse"}, fmt.Sprintf("%s: run after the instances that follow it in the catalogue it produces %s, alone in a fresh process %s", in.name, got, fresh[i]), map[string]any{"instance": in.name, "order": "reverse"})
		}
	}
	// determinism also means: a defaulted configuration field and the same value written out
	// give the same bytes, and two writers made from one configuration value agree
	{
		data := MakeData("alternating", 40000, c.Seed+77)
		enc := func(f func(w io.Writer) (wcl, error)) string {
			var b bytes.Buffer
			w, err := f(&b)
			if err != nil {
				return "error: " + err.Error()
			}
			w.Write(data)
			w.Close()
			return sum(b.Bytes()) + fmt.Sprint(b.Len())
		}
		// the explicit twin of a defaulted configuration is whatever Verify fills in
		fx, f2, fa := xz.WriterConfig{}, lzma.Writer2Config{}, lzma.WriterConfig{}
		fx.Verify()
		f2.Verify()
		fa.Verify()
		pairs := []struct {
			name string
			a, b func(w io.Writer) (wcl, error)
		}{
			{"xz.WriterConfig{} vs the same with its defaults written out", func(w io.Writer) (wcl, error) { return xz.WriterConfig{}.NewWriter(w) },
				func(w io.Writer) (wcl, error) { return fx.NewWriter(w) }},
			{"lzma.Writer2Config{} vs the same with its defaults written out", func(w io.Writer) (wcl, error) { return lzma.Writer2Config{}.NewWriter2(w) },
				func(w io.Writer) (wcl, error) { return f2.NewWriter2(w) }},
			{"lzma.WriterConfig{} vs the same with its defaults written out", func(w io.Writer) (wcl, error) { return lzma.WriterConfig{}.NewWriter(w) },
				func(w io.Writer) (wcl, error) { return fa.NewWriter(w) }},
		}
		for _, p := range pairs {
			c.Count(1, 1)
			if x, y := enc(p.a), enc(p.b); x != y {
				c.Violation(map[string]string{"kind": "defaults-change-output", "pair": p.name}, fmt.Sprintf("%s: outputs differ (%s vs %s)", p.name, x, y), map[string]any{"pair": p.name})
			}
		}
	}
	pairs := gen("<<4, 4>>")
	if len(pairs) == 0 {
		return
	}
	type job struct {
		ids   []int
		sched []int
	}
	var jobs []job
	for a := 0; a < len(insts); a++ {
		for b := a; b < len(insts); b++ {
			if !c.Thorough() && (a+b)%2 == 1 && a != b {
				continue // quick tier: half of the pairs
			}
			for si, s := range pairs {
				if !c.Thorough() && (si+a+b)%3 != 0 {
					continue // quick tier: a third of the 70 interleavings per pair, rotating
				}
				jobs = append(jobs, job{[]int{a, b}, s})
			}
		}
	}
	if c.Thorough() {
		for _, tr := range [][3]int{{0, 4, 2}, {1, 3, 5}, {2, 2, 6}, {0, 0, 1}, {4, 5, 6}} {
			// triples use the first three calls... instances have 4 calls: use <<4,4,4>> = 34650 interleavings, sampled
			triples := gen("<<4, 4, 4>>")
			for i, s := range triples {
				if i%7 == 0 {
					jobs = append(jobs, job{[]int{tr[0], tr[1], tr[2]}, s})
				}
			}
		}
	}
	c.Logf("%d forced interleavings", len(jobs))
	c.Traces += int64(len(jobs))
	parallel(len(jobs), func(i int) {
		j := jobs[i]
		var sel []instance
		for _, id := range j.ids {
			sel = append(sel, insts[id])
		}
		alternations := 0
		for k := 1; k < len(j.sched); k++ {
			if j.sched[k] != j.sched[k-1] {
				alternations++
			}
		}
		nt := int64(0)
		if alternations >= 2 {
			nt = 1
		}
		c.Count(1, nt)
		res := runInterleaving(sel, j.sched)
		for k, id := range j.ids {
			if res[k] != seq[id] {
				c.Violation(map[string]string{"kind": "interference", "instance": insts[id].name}, fmt.Sprintf("interleaving %v of %v: instance %s produced %s, alone it produces %s", j.sched, j.ids, insts[id].name, res[k], seq[id]),
					map[string]any{"instances": j.ids, "schedule": j.sched})
			}
		}
		if i%3000 == 0 {
			c.Sample(map[string]any{"instances": []string{sel[0].name, sel[1].name}, "schedule": j.sched})
		}
	})
	// (b) race detector
	bin := filepath.Join(c.Scratch, "verif-race")
	build := exec.Command("go", "build", "-race", "-o", bin, "./cmd/verif")
	build.Dir = hx.Root
	build.Env = hx.GoEnv("CGO_ENABLED=1")
	if out, err := build.CombinedOutput(); err != nil {
		c.Inconclusive("cannot build the race-enabled worker: %v\n%.600s", err, out)
		return
	}
	refFile := filepath.Join(c.Scratch, "conc-refs.json")
	rb, _ := json.Marshal(fresh)
	os.WriteFile(refFile, rb, 0o644)
	races := 0
	for _, procs := range []int{2, 4, 16} {
		cmd := exec.Command(bin, "racework", fmt.Sprint(c.Seed), fmt.Sprint(c.Pick(2, 12)), refFile)
		cmd.Env = append(os.Environ(), fmt.Sprintf("GOMAXPROCS=%d", procs), "GORACE=halt_on_error=0 exitcode=66")
		out, err := cmd.CombinedOutput()
		s := string(out)
		c.Count(1, 1)
		if strings.Contains(s, "WARNING: DATA RACE") {
			races++
			first := s[strings.Index(s, "WARNING: DATA RACE"):]
			if len(first) > 1500 {
				first = first[:1500]
			}
			c.Violation(map[string]string{"kind": "data-race"}, fmt.Sprintf("race detector report with GOMAXPROCS=%d", procs), map[string]any{"report": first})
		} else if strings.Contains(s, "MISMATCH") {
			c.Violation(map[string]string{"kind": "interference-free-running"}, fmt.Sprintf("free-running workload produced a different result (GOMAXPROCS=%d): %.300s", procs, s), map[string]any{"output": s})
		} else if err != nil || !strings.Contains(s, "RACEWORK done") {
			c.Inconclusive("race worker failed (GOMAXPROCS=%d): %v %.300s", procs, err, s)
		}
	}
	c.Extra["race_runs"] = 3
	c.Extra["race_reports"] = races
}
