package drive

import (
	"bytes"
	"encoding/json"
	"fmt"
	"os"
	"os/exec"
	"path/filepath"
	"sort"
	"strings"
	"time"

	"verif/internal/hx"
	"verif/internal/tlc"
)

// Second part of C15: the process-level behaviour of gxz specified in GxzMain.tla
// (personalities, information options, unsupported -F value, standard input as source,
// operands that are not plain regular files).

type mainFile struct {
	Kind    string `json:"kind"`
	Content string `json:"content"`
}

type mainOutcome struct {
	Ok          bool   `json:"ok"`
	Out         string `json:"out"`
	Target      string `json:"target"`
	Fmt         string `json:"fmt"`
	RemoveInput bool   `json:"removeInput"`
}

type mainCase struct {
	Kind          string        `json:"kind"`
	Pers          string        `json:"pers"`
	Op            string        `json:"op"`
	Info          string        `json:"info"`
	Fmt           string        `json:"fmt"`
	Flags         []string      `json:"flags"`
	Usage         string        `json:"usage"`
	Files         []mainFile    `json:"files"`
	Stdin         string        `json:"stdin"`
	Mode          string        `json:"mode"`
	Dec           bool          `json:"dec"`
	EFmt          string        `json:"efmt"`
	Outcomes      []mainOutcome `json:"outcomes"`
	Exit          int           `json:"exit"`
	StdoutSources []int         `json:"stdoutSources"`
	StdoutFmt     string        `json:"stdoutFmt"`
	InfoOnStdout  bool          `json:"infoOnStdout"`
}

const mainAlphabet = "CONSTANTS Pers = {\"gxz\", \"unxz\", \"xzcat\", \"lzma\", \"unlzma\", \"lzcat\"}\n Ops = {\"none\", \"z\", \"d\"}\n Infos = {\"none\", \"h\", \"L\", \"V\"}\n Fmts = {\"none\", \"xz\", \"lzma\", \"alone\", \"auto\", \"bogus\"}\n FlagPool = {\"k\", \"c\", \"f\"}\n Usages = {\"none\", \"none\", \"short\", \"long\", \"noarg\", \"argnotallowed\"}\n Kinds = {\"reg\", \"dir\", \"missing\", \"symlink\", \"dangling\", \"setgid\", \"dash\"}\n Contents = {\"text\", \"xzdata\", \"lzmadata\"}\n"

// snapshot describes a directory: name -> "F:<content>" | "L:<link target>" | "D".
func snapshot(dir string) map[string]string {
	m := map[string]string{}
	ents, _ := os.ReadDir(dir)
	for _, e := range ents {
		p := filepath.Join(dir, e.Name())
		fi, err := os.Lstat(p)
		if err != nil {
			continue
		}
		switch {
		case fi.Mode()&os.ModeSymlink != 0:
			t, _ := os.Readlink(p)
			m[e.Name()] = "L:" + t
		case fi.IsDir():
			m[e.Name()] = "D"
		default:
			b, _ := os.ReadFile(p)
			m[e.Name()] = "F:" + string(b)
		}
	}
	return m
}

func c15Main(c *hx.Ctx, bin string) {
	mcCfg := "SPECIFICATION Spec\nCONSTANTS Pers = {\"gxz\", \"unxz\", \"xzcat\", \"lzma\", \"unlzma\", \"lzcat\"}\n Ops = {\"none\", \"z\", \"d\"}\n Infos = {\"none\", \"h\"}\n Fmts = {\"none\", \"lzma\", \"auto\", \"bogus\"}\n FlagPool = {\"k\", \"c\", \"f\"}\n Usages = {\"none\", \"long\"}\n Kinds = {\"reg\", \"dir\", \"symlink\", \"setgid\", \"dash\"}\n Contents = {\"text\", \"xzdata\", \"lzmadata\"}\n MaxFiles = 2\nINVARIANTS RemoveOnlyWithFile InfoTouchesNothing ZForces CatNeverWritesFiles Independent\nCHECK_DEADLOCK FALSE\n"
	c.DesignCheck(tlc.Opts{Module: "GxzMain", Cfg: "mc.cfg", Files: map[string][]byte{"mc.cfg": []byte(mcCfg)}, Workers: 8, Timeout: 10 * time.Minute}, []string{"ChoosePers", "ChooseOpts", "AddFile", "Finish"})
	var cases []mainCase
	seen := map[string]bool{}
	collect := func(r tlc.Result, stride int) {
		n := 0
		for _, p := range r.Printed {
			if seen[p] {
				continue
			}
			seen[p] = true
			var k mainCase
			if json.Unmarshal([]byte(p), &k) != nil || k.Kind != "main" || len(k.Outcomes) != len(k.Files) {
				continue
			}
			if n++; n%stride == 0 {
				cases = append(cases, k)
			}
		}
	}
	simCfg := "SPECIFICATION Spec\n" + mainAlphabet + " MaxFiles = 3\nINVARIANTS Emit RemoveOnlyWithFile InfoTouchesNothing\nCHECK_DEADLOCK FALSE\n"
	r := c.TLC(tlc.Opts{Module: "GxzMain", Cfg: "sim.cfg", Files: map[string][]byte{"sim.cfg": []byte(simCfg)}, Simulate: fmt.Sprintf("num=%d", c.Pick(1200, 30000)), Depth: 8, Seed: c.Seed, Timeout: 10 * time.Minute})
	if !r.OK {
		c.Inconclusive("GxzMain simulation failed: %s %s\n%s", r.Violation, r.ErrText, r.Tail(10))
		return
	}
	collect(r, 1)
	// exhaustive: at most one operand, no information option, formats none/lzma/bogus
	bfsCfg := "SPECIFICATION Spec\nCONSTANTS Pers = {\"gxz\", \"unxz\", \"xzcat\", \"lzma\", \"unlzma\", \"lzcat\"}\n Ops = {\"none\", \"z\", \"d\"}\n Infos = {\"none\"}\n Fmts = {\"none\", \"lzma\", \"bogus\"}\n FlagPool = {\"k\", \"c\", \"f\"}\n Usages = {\"none\"}\n Kinds = {\"reg\", \"dir\", \"missing\", \"symlink\", \"dangling\", \"setgid\", \"dash\"}\n Contents = {\"text\", \"xzdata\", \"lzmadata\"}\n MaxFiles = 1\nINVARIANTS Emit\nCHECK_DEADLOCK FALSE\n"
	r2 := c.TLC(tlc.Opts{Module: "GxzMain", Cfg: "bfs.cfg", Files: map[string][]byte{"bfs.cfg": []byte(bfsCfg)}, Timeout: 10 * time.Minute, Xss: "64m"})
	if !r2.OK {
		c.Inconclusive("GxzMain enumeration failed: %s %s\n%s", r2.Violation, r2.ErrText, r2.Tail(10))
		return
	}
	collect(r2, c.Pick(6, 1))
	c.Logf("%d process-level invocations (GxzMain)", len(cases))
	c.Traces += int64(len(cases))
	suffix := map[string]string{"text": ".txt", "xzdata": ".xz", "lzmadata": ".lzma"}
	parallel(len(cases), func(ci int) {
		k := cases[ci]
		dir, err := os.MkdirTemp(c.Scratch, "main")
		if err != nil {
			c.Inconclusive("mkdir: %v", err)
			return
		}
		defer os.RemoveAll(dir)
		mk := func(class string, seed int64) (raw, plain []byte) {
			plain = MakeData("text", 900+int(seed%7)*50, c.Seed+seed)
			switch class {
			case "xzdata":
				if seed%3 == 1 {
					h := len(plain) / 2
					return append(append(gxzEncode("xz", plain[:h]), 0, 0, 0, 0), gxzEncode("xz", plain[h:])...), plain
				}
				return gxzEncode("xz", plain), plain
			case "lzmadata":
				return gxzEncode("lzma", plain), plain
			}
			return plain, plain
		}
		type src struct {
			name, pointee string
			raw, plain    []byte
			mode          os.FileMode // permission bits of the data file (for a link: of what it points to)
		}
		srcs := make([]src, len(k.Files))
		var names []string
		for i, f := range k.Files {
			raw, plain := mk(f.Content, int64(ci*5+i+1))
			s := src{raw: raw, plain: plain, mode: []os.FileMode{0o644, 0o600, 0o400, 0o640, 0o444}[(ci+i)%5]}
			sfx := suffix[f.Content]
			switch f.Kind {
			case "reg":
				s.name = fmt.Sprintf("r%d%s", i+1, sfx)
				os.WriteFile(filepath.Join(dir, s.name), raw, 0o644)
				os.Chmod(filepath.Join(dir, s.name), s.mode)
			case "setgid":
				s.name = fmt.Sprintf("g%d%s", i+1, sfx)
				os.WriteFile(filepath.Join(dir, s.name), raw, 0o644)
				os.Chmod(filepath.Join(dir, s.name), s.mode|os.ModeSetgid)
			case "symlink":
				s.name = fmt.Sprintf("s%d%s", i+1, sfx)
				s.pointee = fmt.Sprintf("p%d.dat", i+1)
				os.WriteFile(filepath.Join(dir, s.pointee), raw, 0o644)
				os.Chmod(filepath.Join(dir, s.pointee), s.mode)
				os.Symlink(s.pointee, filepath.Join(dir, s.name))
			case "dangling":
				s.name = fmt.Sprintf("x%d%s", i+1, sfx)
				os.Symlink("nowhere", filepath.Join(dir, s.name))
			case "dir":
				s.name = fmt.Sprintf("d%d%s", i+1, sfx)
				os.Mkdir(filepath.Join(dir, s.name), 0o755)
			case "missing":
				s.name = fmt.Sprintf("m%d%s", i+1, sfx)
			case "dash":
				s.name = "-"
			}
			srcs[i] = s
			names = append(names, s.name)
		}
		stdinRaw, stdinPlain := mk(k.Stdin, int64(ci*5))
		before := snapshot(dir)
		var argv []string
		if k.Op != "none" {
			argv = append(argv, "-"+k.Op)
		}
		if k.Info != "none" {
			argv = append(argv, map[string]string{"h": "--help", "L": "-L", "V": "--version"}[k.Info])
		}
		fl := append([]string{}, k.Flags...)
		sort.Strings(fl)
		for _, f := range fl {
			argv = append(argv, "-"+f)
		}
		if k.Fmt != "none" {
			if ci%5 == 0 && k.Fmt != "bogus" {
				argv = append(argv, "--format", "xz") // an earlier -F: the last one counts
			}
			argv = append(argv, "-F", k.Fmt)
		}
		switch k.Usage {
		case "short":
			argv = append(argv, "-x")
		case "long":
			argv = append(argv, "--bogus-option")
		case "argnotallowed":
			argv = append(argv, "--keep=true")
		}
		argv = append(argv, names...)
		if k.Usage == "noarg" {
			argv = append(argv, "-F") // option argument missing at the end of the line
		}
		cmd := exec.Command(bin, argv...)
		cmd.Args[0] = k.Pers // the personality is chosen by the program name
		cmd.Dir = dir
		var so, se bytes.Buffer
		cmd.Stdout, cmd.Stderr = &so, &se
		cmd.Stdin = bytes.NewReader(stdinRaw)
		err = cmd.Run()
		exit := 0
		if ee, ok := err.(*exec.ExitError); ok {
			exit = ee.ExitCode()
		} else if err != nil {
			exit = -1
		}
		nt := int64(0)
		if k.Pers != "gxz" || k.Mode != "files" || len(k.Files) > 1 {
			nt = 1
		}
		c.Count(1, nt)
		sig := func(kind string, i int) map[string]string {
			m := map[string]string{"part": "main", "kind": kind, "pers": k.Pers, "op": k.Op, "mode": k.Mode, "fmt": k.Fmt}
			if i >= 0 {
				m["file_kind"] = k.Files[i].Kind
				m["content"] = k.Files[i].Content
			}
			return m
		}
		after := snapshot(dir)
		var listing []string
		for n := range after {
			listing = append(listing, n)
		}
		sort.Strings(listing)
		full := append([]string{k.Pers}, argv...)
		replay := map[string]any{"argv": full, "case": k, "exit": exit, "stderr": string(se.Bytes()), "dir": listing, "stdout_len": so.Len()}
		if (exit != 0) != (k.Exit != 0) {
			c.Violation(sig("exit-status", -1), fmt.Sprintf("%q: exit %d, specification predicts %d; stderr: %.200s", full, exit, k.Exit, se.Bytes()), replay)
			return
		}
		// expected directory
		want := map[string]string{}
		for n, v := range before {
			want[n] = v
		}
		if k.Mode == "files" {
			for i, oc := range k.Outcomes {
				s := srcs[i]
				if oc.Ok && oc.Out == "file" {
					tname := s.name + "." + oc.Fmt
					if oc.Target == "strip" {
						tname = s.name[:strings.LastIndex(s.name, ".")]
					}
					want[tname] = "T" + fmt.Sprint(i)
				}
				if oc.RemoveInput {
					delete(want, s.name)
				}
			}
		}
		for n, v := range want {
			got, ok := after[n]
			switch {
			case !ok:
				c.Violation(sig("file-missing", -1), fmt.Sprintf("%q: %s is missing after the run", full, n), replay)
				return
			case strings.HasPrefix(v, "T"):
				var i int
				fmt.Sscan(v[1:], &i)
				good := false
				if strings.HasPrefix(got, "F:") {
					if k.Dec {
						good = got[2:] == string(srcs[i].plain)
					} else {
						dec, ok := decodeAny([]byte(got[2:]), k.Outcomes[i].Fmt)
						good = ok && bytes.Equal(dec, srcs[i].raw)
					}
				}
				if !good {
					c.Violation(sig("target-content", i), fmt.Sprintf("%q: %s does not hold the expected content", full, n), replay)
					return
				}
				if fi, err := os.Stat(filepath.Join(dir, n)); err == nil && fi.Mode().Perm()&^srcs[i].mode != 0 {
					c.Violation(sig("permission-added", i), fmt.Sprintf("%q: %s has mode %o, the input had %o", full, n, fi.Mode().Perm(), srcs[i].mode), replay)
					return
				}
			case got != v:
				c.Violation(sig("file-changed", -1), fmt.Sprintf("%q: %s was changed by the run", full, n), replay)
				return
			}
		}
		for n := range after {
			if _, ok := want[n]; !ok {
				c.Violation(sig("unexpected-file", -1), fmt.Sprintf("%q: unexpected %q in the directory", full, n), replay)
				return
			}
		}
		// standard output
		switch {
		case k.InfoOnStdout:
			if so.Len() == 0 {
				c.Violation(sig("info-not-printed", -1), fmt.Sprintf("%q: nothing on standard output", full), replay)
			}
		case len(k.StdoutSources) == 0:
			if so.Len() != 0 {
				c.Violation(sig("stdout-noise", -1), fmt.Sprintf("%q: %d bytes on standard output although nothing is to be written there", full, so.Len()), replay)
			}
		default:
			var wantOut []byte
			for _, sidx := range k.StdoutSources {
				raw, plain := stdinRaw, stdinPlain
				if sidx > 0 {
					raw, plain = srcs[sidx-1].raw, srcs[sidx-1].plain
					if k.Files[sidx-1].Kind == "dash" {
						raw, plain = stdinRaw, stdinPlain
					}
				}
				if k.Dec {
					wantOut = append(wantOut, plain...)
				} else {
					wantOut = append(wantOut, raw...)
				}
			}
			got := so.Bytes()
			if !k.Dec {
				dec, ok := decodeAny(got, k.StdoutFmt)
				if !ok {
					c.Violation(sig("stdout-content", -1), fmt.Sprintf("%q: standard output is not a valid %s stream", full, k.StdoutFmt), replay)
					return
				}
				got = dec
			}
			if !bytes.Equal(got, wantOut) {
				c.Violation(sig("stdout-content", -1), fmt.Sprintf("%q: standard output carries %d bytes of content, expected %d", full, len(got), len(wantOut)), replay)
			}
		}
		if ci%500 == 0 {
			c.Sample(map[string]any{"argv": full, "mode": k.Mode, "predicted_exit": k.Exit, "outcomes": k.Outcomes})
		}
	})
}

// gxzStaleTemp: a temporary file left by an earlier, killed run (or planted by someone else)
// sits where gxz wants to create its own: a long regular file with wide permissions, or a
// symbolic link to an unrelated file. Whatever gxz decides (today it refuses, also with -f),
// the unrelated file must stay untouched, a run that reports success must have produced the
// exact output with no more permission bits than the input, and a failing run must leave the
// input alone and no file under the target name. Used by C10 and C15.
func gxzStaleTemp(c *hx.Ctx, bin string) {
	plain := MakeData("text", 21000, c.Seed+4242)
	type tc struct {
		format     string
		decompress bool
		force      bool
		link       bool
	}
	var cases []tc
	for _, f := range []string{"xz", "lzma"} {
		for _, d := range []bool{false, true} {
			for _, force := range []bool{false, true} {
				for _, link := range []bool{false, true} {
					cases = append(cases, tc{f, d, force, link})
				}
			}
		}
	}
	parallel(len(cases), func(i int) {
		k := cases[i]
		dir, err := os.MkdirTemp(c.Scratch, "stale")
		if err != nil {
			c.Inconclusive("mkdir: %v", err)
			return
		}
		defer os.RemoveAll(dir)
		in, tgt := "notes.txt", "notes.txt."+k.format
		input := plain
		var args []string
		if k.format == "lzma" {
			args = append(args, "-F", "lzma")
		}
		tmp := tgt + ".compress"
		if k.decompress {
			in, tgt = tgt, in
			input = gxzEncode(k.format, plain)
			args = append(args, "-d")
			tmp = tgt + ".decompress"
		}
		if k.force {
			args = append(args, "-f")
		}
		os.WriteFile(filepath.Join(dir, in), input, 0o600)
		os.Chmod(filepath.Join(dir, in), 0o600)
		bystander := []byte("an unrelated file that gxz has no business with\n")
		os.WriteFile(filepath.Join(dir, "bystander"), bystander, 0o644)
		if k.link {
			os.Symlink("bystander", filepath.Join(dir, tmp))
		} else {
			os.WriteFile(filepath.Join(dir, tmp), bytes.Repeat([]byte("stale temporary data "), 5000), 0o666)
			os.Chmod(filepath.Join(dir, tmp), 0o666)
		}
		run := runCli(bin, dir, append(args, in))
		c.Count(1, 1)
		sig := func(kind string) map[string]string {
			return map[string]string{"part": "stale-temp", "kind": kind, "format": k.format, "decompress": fmt.Sprint(k.decompress), "force": fmt.Sprint(k.force), "symlink": fmt.Sprint(k.link)}
		}
		after := snapshot(dir)
		replay := map[string]any{"argv": run.argv, "case": fmt.Sprintf("%+v", k), "exit": run.exit, "stderr": string(run.stderr)}
		if after["bystander"] != "F:"+string(bystander) {
			c.Violation(sig("unrelated-file-changed"), fmt.Sprintf("gxz %q with %s present: an unrelated file was modified or removed", run.argv, tmp), replay)
			return
		}
		got, has := after[tgt]
		if run.exit == 0 {
			good := false
			if has && strings.HasPrefix(got, "F:") {
				if k.decompress {
					good = got[2:] == string(plain)
				} else {
					dec, ok := decodeAny([]byte(got[2:]), k.format)
					good = ok && bytes.Equal(dec, plain)
				}
			}
			if !good {
				c.Violation(sig("exit-zero-wrong-output"), fmt.Sprintf("gxz %q with a stale %s: exit 0 but %s does not hold exactly the expected content", run.argv, tmp, tgt), replay)
				return
			}
			if fi, err := os.Stat(filepath.Join(dir, tgt)); err == nil && fi.Mode().Perm()&^0o600 != 0 {
				c.Violation(sig("permission-added"), fmt.Sprintf("gxz %q with a stale %s: %s has mode %o, the input had 600", run.argv, tmp, tgt, fi.Mode().Perm()), replay)
			}
			return
		}
		if after[in] != "F:"+string(input) {
			c.Violation(sig("failed-run-touched-input"), fmt.Sprintf("gxz %q failed (exit %d) but the input is gone or changed", run.argv, run.exit), replay)
		}
		if has {
			c.Violation(sig("failed-run-left-target"), fmt.Sprintf("gxz %q failed (exit %d) but %s exists", run.argv, run.exit, tgt), replay)
		}
	})
}

// gxzFullStdout: standard output that cannot be written (/dev/full): every invocation that
// has to write there must end with a non-zero status, however little it has to write (the
// only write may be the final flush), and must not touch its inputs.
func gxzFullStdout(c *hx.Ctx, bin string) {
	full, err := os.OpenFile("/dev/full", os.O_WRONLY, 0)
	if err != nil {
		c.Logf("/dev/full not available: %v (family skipped)", err)
		return
	}
	full.Close()
	small := MakeData("text", 600, c.Seed+99)
	big := MakeData("random", 300000, c.Seed+98)
	type tc struct {
		name  string
		args  []string
		files map[string][]byte
		stdin []byte
	}
	var cases []tc
	for _, f := range []string{"xz", "lzma"} {
		fa := []string{}
		if f == "lzma" {
			fa = []string{"-F", "lzma"}
		}
		cases = append(cases,
			tc{"compress -c small " + f, append(append([]string{}, fa...), "-c", "a.txt"), map[string][]byte{"a.txt": small}, nil},
			tc{"compress -c two small " + f, append(append([]string{}, fa...), "-c", "a.txt", "b.txt"), map[string][]byte{"a.txt": small, "b.txt": small[:100]}, nil},
			tc{"compress -c big " + f, append(append([]string{}, fa...), "-c", "a.bin"), map[string][]byte{"a.bin": big}, nil},
			tc{"decompress -c small " + f, append(append([]string{}, fa...), "-dc", "a."+f), map[string][]byte{"a." + f: gxzEncode(f, small)}, nil},
			tc{"filter compress " + f, append([]string{}, fa...), nil, small},
			tc{"filter decompress " + f, append(append([]string{}, fa...), "-d"), nil, gxzEncode(f, small)},
		)
	}
	parallel(len(cases), func(i int) {
		k := cases[i]
		dir, err := os.MkdirTemp(c.Scratch, "full")
		if err != nil {
			c.Inconclusive("mkdir: %v", err)
			return
		}
		defer os.RemoveAll(dir)
		for n, b := range k.files {
			os.WriteFile(filepath.Join(dir, n), b, 0o644)
		}
		out, err := os.OpenFile("/dev/full", os.O_WRONLY, 0)
		if err != nil {
			return
		}
		defer out.Close()
		cmd := exec.Command(bin, k.args...)
		cmd.Dir = dir
		cmd.Stdout = out
		var se bytes.Buffer
		cmd.Stderr = &se
		cmd.Stdin = bytes.NewReader(k.stdin)
		err = cmd.Run()
		exit := 0
		if ee, ok := err.(*exec.ExitError); ok {
			exit = ee.ExitCode()
		} else if err != nil {
			exit = -1
		}
		c.Count(1, 1)
		sig := map[string]string{"part": "full-stdout", "kind": "write-failure-exit-zero", "case": k.name}
		replay := map[string]any{"argv": k.args, "case": k.name, "exit": exit, "stderr": se.String()}
		if exit == 0 {
			c.Violation(sig, fmt.Sprintf("gxz %q with standard output on a full device: exit 0 although nothing could be written", k.args), replay)
		}
		after := snapshot(dir)
		for n, b := range k.files {
			if after[n] != "F:"+string(b) {
				sig["kind"] = "input-touched"
				c.Violation(sig, fmt.Sprintf("gxz %q with standard output on a full device: input %s is gone or changed", k.args, n), replay)
			}
		}
	})
}

// gxzOperandEdgeCases: operand names that start with a dash and differ from it only by the
// suffix ("-.xz" decompresses to a file named "-"), long operand lists whose number of failing
// members is a multiple of 256 (the exit status has eight bits), and long lists of refused
// members under a small descriptor limit followed by a good member (files are processed
// independently of one another: a refused member must not use up anything).
func gxzOperandEdgeCases(c *hx.Ctx, bin string) {
	plain := MakeData("text", 2000, c.Seed+31)
	newDir := func() string {
		d, err := os.MkdirTemp(c.Scratch, "edge")
		if err != nil {
			c.Inconclusive("mkdir: %v", err)
		}
		return d
	}
	sig := func(kind, what string) map[string]string {
		return map[string]string{"part": "operand-edge", "kind": kind, "case": what}
	}
	// 1. names "-.xz", "-.lzma", "--.xz", "-k.xz" after "--"
	for _, tc := range []struct{ in, tgt, format string }{{"-.xz", "-", "xz"}, {"-.lzma", "-", "lzma"}, {"--.xz", "--", "xz"}, {"-k.xz", "-k", "xz"}, {"-c.lzma", "-c", "lzma"}} {
		for _, keep := range []bool{false, true} {
			dir := newDir()
			os.WriteFile(filepath.Join(dir, tc.in), gxzEncode(tc.format, plain), 0o644)
			args := []string{"-d"}
			if keep {
				args = append(args, "-k")
			}
			run := runCli(bin, dir, append(args, "--", tc.in))
			after := snapshot(dir)
			c.Count(1, 1)
			replay := map[string]any{"argv": run.argv, "exit": run.exit, "stderr": string(run.stderr), "dir": fmt.Sprint(len(after))}
			want := map[string]string{tc.tgt: "F:" + string(plain)}
			if keep {
				want[tc.in] = "F:" + string(gxzEncode(tc.format, plain))
			}
			ok := run.exit == 0 && len(after) == len(want)
			for n, v := range want {
				ok = ok && after[n] == v
			}
			if !ok {
				var names []string
				for n := range after {
					names = append(names, n)
				}
				sort.Strings(names)
				c.Violation(sig("dash-name", tc.in), fmt.Sprintf("gxz %q: exit %d, directory afterwards %q; expected exit 0 and exactly %q holding the content (input kept=%v)", run.argv, run.exit, names, tc.tgt, keep), replay)
			}
			os.RemoveAll(dir)
		}
	}
	// 2. N failing operands, N around multiples of 256, plus one good operand in the middle
	for _, n := range c.PickInts([]int{255, 256, 257, 512}, []int{1, 2, 255, 256, 257, 511, 512, 513, 768, 1024}) {
		dir := newDir()
		os.WriteFile(filepath.Join(dir, "good.txt"), plain, 0o644)
		var args []string
		for i := 0; i < n; i++ {
			if i == n/2 {
				args = append(args, "good.txt")
			}
			args = append(args, fmt.Sprintf("missing%04d", i))
		}
		run := runCli(bin, dir, append([]string{"-q"}, args...))
		after := snapshot(dir)
		c.Count(1, 1)
		replay := map[string]any{"failing_operands": n, "exit": run.exit, "stderr_head": hexHead(run.stderr, 200)}
		if run.exit == 0 {
			c.Violation(sig("exit-status-wraps", fmt.Sprint(n)), fmt.Sprintf("gxz with %d operands that cannot be processed exits 0", n), replay)
		}
		if dec, ok := decodeAny([]byte(strings.TrimPrefix(after["good.txt.xz"], "F:")), "xz"); !ok || !bytes.Equal(dec, plain) || len(after) != 1 {
			c.Violation(sig("good-member-not-processed", fmt.Sprint(n)), fmt.Sprintf("gxz with %d failing operands: the one good operand was not processed independently (directory has %d entries)", n, len(after)), replay)
		}
		os.RemoveAll(dir)
	}
	// 3. many refused members under a small descriptor limit, then a good one
	for _, mode := range []string{"compress-has-suffix", "decompress-target-exists", "decompress-unrecognised"} {
		dir := newDir()
		var args []string
		if mode != "compress-has-suffix" {
			args = append(args, "-d")
		}
		comp := gxzEncode("xz", plain)
		for i := 0; i < 120; i++ {
			name := fmt.Sprintf("m%03d.xz", i)
			os.WriteFile(filepath.Join(dir, name), comp, 0o644)
			if mode == "decompress-unrecognised" {
				os.WriteFile(filepath.Join(dir, name), []byte("neither xz nor lzma, just text\n"), 0o644)
			}
			if mode == "decompress-target-exists" {
				os.WriteFile(filepath.Join(dir, fmt.Sprintf("m%03d", i)), []byte(preExisting), 0o644)
			}
			args = append(args, name)
		}
		good, goodTgt := "good.txt", "good.txt.xz"
		if mode != "compress-has-suffix" {
			good, goodTgt = "good.xz", "good"
			os.WriteFile(filepath.Join(dir, good), comp, 0o644)
		} else {
			os.WriteFile(filepath.Join(dir, good), plain, 0o644)
		}
		args = append(args, good)
		quoted := ""
		for _, a := range args {
			quoted += " '" + a + "'"
		}
		cmd := exec.Command("sh", "-c", "ulimit -n 48; exec '"+bin+"' -q"+quoted)
		cmd.Dir = dir
		var se bytes.Buffer
		cmd.Stderr = &se
		err := cmd.Run()
		exit := 0
		if ee, ok := err.(*exec.ExitError); ok {
			exit = ee.ExitCode()
		}
		after := snapshot(dir)
		c.Count(1, 1)
		replay := map[string]any{"mode": mode, "exit": exit, "stderr_tail": hexHead(se.Bytes(), 300)}
		done := false
		if v, ok := after[goodTgt]; ok && strings.HasPrefix(v, "F:") {
			if mode != "compress-has-suffix" {
				done = v[2:] == string(plain)
			} else {
				dec, ok := decodeAny([]byte(v[2:]), "xz")
				done = ok && bytes.Equal(dec, plain)
			}
		}
		if !done || exit == 0 {
			c.Violation(sig("refused-members-use-up-resources", mode), fmt.Sprintf("gxz with 120 refused members (%s) and 48 descriptors: exit %d, the good last member processed=%v; stderr tail: %.200s", mode, exit, done, se.String()), replay)
		}
		os.RemoveAll(dir)
	}
	// 4. the target name exists as a symbolic link (dangling, or to a file): "an existing target is
	//    never overwritten without -f" - the directory entry is what exists
	for _, tc := range []struct {
		dec      bool
		dangling bool
	}{{false, true}, {true, true}, {false, false}, {true, false}} {
		dir := newDir()
		in, tgt := "a.txt", "a.txt.xz"
		var args []string
		if tc.dec {
			in, tgt = "a.txt.xz", "a.txt"
			args = []string{"-d"}
			os.WriteFile(filepath.Join(dir, in), gxzEncode("xz", plain), 0o644)
		} else {
			os.WriteFile(filepath.Join(dir, in), plain, 0o644)
		}
		dest := "/nonexistent/verif-target"
		if !tc.dangling {
			dest = "elsewhere"
			os.WriteFile(filepath.Join(dir, dest), []byte(preExisting), 0o644)
		}
		os.Symlink(dest, filepath.Join(dir, tgt))
		run := runCli(bin, dir, append(args, in))
		c.Count(1, 1)
		what := fmt.Sprintf("dec=%v dangling=%v", tc.dec, tc.dangling)
		l, lerr := os.Readlink(filepath.Join(dir, tgt))
		_, ierr := os.Stat(filepath.Join(dir, in))
		if run.exit == 0 || lerr != nil || l != dest || ierr != nil {
			c.Violation(sig("link-at-target-overwritten", what), fmt.Sprintf("gxz %q where %s is a symbolic link to %s: exit %d, link still there=%v, input still there=%v (an existing target must not be replaced without -f)", run.argv, tgt, dest, run.exit, lerr == nil && l == dest, ierr == nil),
				map[string]any{"argv": run.argv, "dangling": tc.dangling, "stderr": string(run.stderr)})
		}
		os.RemoveAll(dir)
	}
	// 5. the operand "-" (standard input, says the usage text) next to a file operand, without -c: the
	//    file must be processed whatever happens to "-", and the process must end with status 0 or 1
	for _, order := range []string{"dash-first", "dash-last"} {
		dir := newDir()
		os.WriteFile(filepath.Join(dir, "b.txt"), plain, 0o644)
		argv := []string{"-", "b.txt"}
		if order == "dash-last" {
			argv = []string{"b.txt", "-"}
		}
		cmd := exec.Command(bin, argv...)
		cmd.Dir = dir
		cmd.Stdin = strings.NewReader("from standard input\n")
		var so, se bytes.Buffer
		cmd.Stdout, cmd.Stderr = &so, &se
		err := cmd.Run()
		exit := 0
		if ee, ok := err.(*exec.ExitError); ok {
			exit = ee.ExitCode()
		}
		after := snapshot(dir)
		c.Count(1, 1)
		dec, ok := decodeAny([]byte(strings.TrimPrefix(after["b.txt.xz"], "F:")), "xz")
		if !ok || !bytes.Equal(dec, plain) || (exit != 0 && exit != 1) {
			c.Violation(sig("dash-operand-stops-the-run", order), fmt.Sprintf("gxz %q: exit %d, b.txt processed=%v; stderr: %.200s", argv, exit, ok && bytes.Equal(dec, plain), se.String()),
				map[string]any{"argv": argv, "exit": exit, "stderr": se.String()})
		}
		os.RemoveAll(dir)
	}
	// 6. operands whose names meet gxz's temporary names: the outcome must not depend on the order
	for _, tc := range []struct {
		dec  bool
		a, b string
	}{{true, "a.decompress.xz", "a.xz"}, {false, "a", "a.xz.compress"}} {
		var outcome [2]string
		for o := 0; o < 2; o++ {
			dir := newDir()
			names := []string{tc.a, tc.b}
			for k, n := range names {
				if tc.dec {
					os.WriteFile(filepath.Join(dir, n), gxzEncode("xz", append([]byte{byte('0' + k)}, plain...)), 0o644)
				} else {
					os.WriteFile(filepath.Join(dir, n), append([]byte{byte('0' + k)}, plain...), 0o644)
				}
			}
			if o == 1 {
				names[0], names[1] = names[1], names[0]
			}
			var args []string
			if tc.dec {
				args = []string{"-d"}
			}
			run := runCli(bin, dir, append(args, names...))
			after := snapshot(dir)
			var keys []string
			for k := range after {
				keys = append(keys, k)
			}
			sort.Strings(keys)
			outcome[o] = fmt.Sprint(run.exit, keys)
			os.RemoveAll(dir)
		}
		c.Count(1, 1)
		if outcome[0] != outcome[1] {
			c.Violation(sig("operand-order-changes-outcome", tc.a+"+"+tc.b), fmt.Sprintf("gxz on %q and %q: exit status and directory afterwards are %s in this order and %s in the other (files are processed independently of one another)", tc.a, tc.b, outcome[0], outcome[1]),
				map[string]any{"operands": []string{tc.a, tc.b}, "decompress": tc.dec, "first_order": outcome[0], "other_order": outcome[1]})
		}
	}
}
