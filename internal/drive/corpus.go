package drive

import (
	"crypto/sha256"
	"encoding/hex"
	"encoding/json"
	"fmt"
	"os"
	"path/filepath"
	"sort"
	"strings"

	"verif/internal/hx"
)

// CorpusFile is one frozen reference-encoder stream with its plaintext.
type CorpusFile struct {
	Name   string
	Stream []byte
	Plain  []byte
}

// LoadCorpus reads /verif/corpus (written once by xz-utils 5.8.2) and
// verifies the recorded SHA-256 sums. suffix is ".xz" or ".lzma".
func LoadCorpus(suffix string) ([]CorpusFile, error) {
	dir := filepath.Join(hx.Root, "corpus")
	b, err := os.ReadFile(filepath.Join(dir, "index.json"))
	if err != nil {
		return nil, err
	}
	var idx map[string]struct {
		Plain string `json:"plain"`
		Sha   string `json:"sha256"`
		Len   int    `json:"len"`
		SSha  string `json:"stream_sha256"`
	}
	if err := json.Unmarshal(b, &idx); err != nil {
		return nil, err
	}
	var names []string
	for n := range idx {
		if strings.HasSuffix(n, suffix) {
			names = append(names, n)
		}
	}
	sort.Strings(names)
	var out []CorpusFile
	for _, n := range names {
		e := idx[n]
		s, err := os.ReadFile(filepath.Join(dir, n))
		if err != nil {
			return nil, err
		}
		p, err := os.ReadFile(filepath.Join(dir, e.Plain))
		if err != nil {
			return nil, err
		}
		hs, hp := sha256.Sum256(s), sha256.Sum256(p)
		if hex.EncodeToString(hs[:]) != e.SSha || hex.EncodeToString(hp[:]) != e.Sha {
			return nil, fmt.Errorf("corpus file %s does not match its recorded SHA-256", n)
		}
		out = append(out, CorpusFile{Name: n, Stream: s, Plain: p})
	}
	return out, nil
}
