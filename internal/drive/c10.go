package drive

import (
	"bytes"
	"encoding/json"
	"fmt"
	"os"
	"os/exec"
	"path/filepath"
	"strings"
	"sync"
	"syscall"
	"time"

	"verif/internal/hx"
	"verif/internal/ptr"
	"verif/internal/ref"
	"verif/internal/tlc"
)

func init() { Checks["C10"] = C10 }

// buildGxz compiles cmd/gxz from /repo's working tree into the scratch dir.
func buildGxz(c *hx.Ctx) string {
	bin := filepath.Join(c.Scratch, "gxz")
	cmd := exec.Command("go", "build", "-o", bin, "github.com/ulikunitz/xz/cmd/gxz")
	cmd.Dir = hx.Root
	cmd.Env = hx.GoEnv("CGO_ENABLED=0")
	if out, err := cmd.CombinedOutput(); err != nil {
		c.Inconclusive("cannot build gxz: %v\n%.500s", err, out)
		return ""
	}
	return bin
}

type gxzCfg struct {
	Alias     bool `json:"alias"`
	Keep      bool `json:"keep"`
	Force     bool `json:"force"`
	TgtExists bool `json:"tgtExists"`
	InputOk   bool `json:"inputOk"`
	Stdout    bool `json:"stdout"`
}

type gxzScenario struct {
	Cfg  gxzCfg `json:"cfg"`
	Exit int    `json:"exit"`
	Fin  string `json:"fin"`
	Ftgt string `json:"ftgt"`
	Ftmp string `json:"ftmp"`
	// concrete realisation
	Mode   string // compress | decompress
	Format string // xz | lzma
	Bad    string // how inputOk=false is realised: corrupt | truncated
	In     string // input file name
	Tgt    string // final name ("" if stdout)
	Tmp    string
	Args   []string
	input  []byte // bytes of the input file
	plain  []byte // the uncompressed content
}

func (s gxzScenario) String() string {
	return fmt.Sprintf("%s/%s %v in=%s inputOk=%v(%s) tgtExists=%v", s.Mode, s.Format, s.Args, s.In, s.Cfg.InputOk, s.Bad, s.Cfg.TgtExists)
}

func b2i(b bool) int {
	if b {
		return 1
	}
	return 0
}

const preExisting = "pre-existing target content\n"

// realise builds the concrete scenarios for an abstract one.
func realiseGxz(abs gxzScenario, seed int64, thorough bool) []gxzScenario {
	var out []gxzScenario
	plain := MakeData("text", 3000, seed)
	for _, mode := range []string{"compress", "decompress"} {
		for _, format := range []string{"xz", "lzma"} {
			if abs.Cfg.Alias && mode == "compress" {
				continue // the target of a compression always differs from the input name
			}
			if !abs.Cfg.InputOk && mode == "compress" {
				continue // any regular file can be compressed
			}
			bads := []string{""}
			if !abs.Cfg.InputOk {
				bads = []string{"corrupt", "truncated"}
				if format == "xz" {
					// a complete stream followed by the first bytes of a second one / by stray bytes:
					// the reader reports the error together with the last data of the first stream
					bads = append(bads, "twostream-cut", "stray", "stray-aligned")
				} else {
					// content larger than the decoder's window: the error arrives with the last data;
					// a complete .lzma stream followed by stray bytes or by a second .lzma stream (the
					// format has no concatenation; xz-utils calls both corrupt): nothing may be dropped silently
					// "stray-aligned": the stream ends exactly where a 4096-byte I/O buffer ends, so that
					// "nothing buffered" does not mean "nothing left in the file"
					bads = append(bads, "truncated-big", "stray", "concat", "stray-aligned")
				}
			}
			for _, bad := range bads {
				s := abs
				s.Mode, s.Format, s.Bad, s.plain = mode, format, bad, plain
				ext := "." + format
				var args []string
				if format == "lzma" {
					args = append(args, "-F", "lzma")
				}
				if mode == "decompress" {
					args = append(args, "-d")
				} else if b2i(abs.Cfg.Keep)+2*b2i(abs.Cfg.Force)+b2i(abs.Cfg.TgtExists)+b2i(format == "lzma") == 2 {
					// compression requested by -z overriding an earlier -d: same protocol, same guarantees
					args = append(args, "-d", "-z")
				}
				if s.Cfg.Keep {
					args = append(args, "-k")
				}
				if s.Cfg.Force {
					args = append(args, "-f")
				}
				if s.Cfg.Stdout {
					args = append(args, "-c")
				}
				if mode == "compress" {
					s.In = "data file.txt"
					s.Tgt = s.In + ext
					s.Tmp = s.Tgt + ".compress"
					s.input = plain
				} else {
					if bad == "truncated-big" {
						s.plain = MakeData("text", 700000, seed+1)
						args = append([]string{"-0"}, args...)
					}
					comp := gxzEncode(format, s.plain)
					if bad == "stray-aligned" {
						if p, cm := gxzAligned(format, seed); cm != nil {
							s.plain, comp = p, cm
						}
					}
					switch bad {
					case "stray-aligned":
						comp = append(append([]byte{}, comp...), []byte("tail that must not vanish\n")...)
					case "twostream-cut":
						comp = append(append([]byte{}, comp...), comp[:8]...)
					case "stray":
						comp = append(append([]byte{}, comp...), 0x13, 0x37, 0x42)
					case "concat":
						comp = append(append([]byte{}, comp...), gxzEncode(format, []byte("a second member that must not vanish\n"))...)
					case "truncated-big":
						comp = comp[:len(comp)*2/3]
					case "corrupt":
						comp = append([]byte{}, comp...)
						comp[len(comp)/2] ^= 0x40
						comp[len(comp)/2+1] ^= 0x01
					case "truncated":
						comp = comp[:len(comp)*2/3]
					}
					s.input = comp
					if s.Cfg.Alias {
						s.In = "archive.dat" // no known suffix: the computed target name is the input name
						s.Tgt = s.In
					} else {
						s.In = "data file.txt" + ext
						s.Tgt = "data file.txt"
					}
					s.Tmp = s.Tgt + ".decompress"
				}
				s.Args = append(args, s.In)
				out = append(out, s)
				if thorough && mode == "decompress" && !s.Cfg.Alias && format == "xz" && bad == "" {
					// .txz -> .tar
					t := s
					t.In, t.Tgt = "bundle.txz", "bundle.tar"
					t.Tmp = t.Tgt + ".decompress"
					t.Args = append(append([]string{}, args...), t.In)
					out = append(out, t)
				}
			}
		}
	}
	return out
}

// gxzAligned finds a plaintext whose compressed stream is a multiple of 4096 bytes long (the
// buffer size of bufio and of gxz's copy loop): incompressible data makes the stream length
// follow the input length byte by byte, so a few probes reach the boundary.
func gxzAligned(format string, seed int64) (plain, comp []byte) {
	base := MakeData("random", 40000, seed+5)
	L := 8000
	for it := 0; it < 400 && L < len(base); it++ {
		comp = gxzEncode(format, base[:L])
		r := len(comp) % 4096
		if r == 0 {
			return base[:L], comp
		}
		if d := 4096 - r; d > 16 {
			L += d - 8
		} else {
			L++
		}
	}
	return nil, nil
}

func gxzEncode(format string, plain []byte) []byte {
	if format == "xz" {
		return libXZ(XZCfg{LC: 3, PB: 2, DictCap: 1 << 20, BufSize: 4096, Check: 4}, plain)
	}
	enc := AloneCfg{LC: 3, PB: 2, DictCap: 1 << 20, BufSize: 4096}
	run := runAlone(enc, []aloneCall{{Op: "W", N: len(plain)}, {Op: "C"}}, plain)
	return run.Sink
}

func (s gxzScenario) setup(dir string) error {
	if err := os.WriteFile(filepath.Join(dir, s.In), s.input, 0o644); err != nil {
		return err
	}
	if s.Cfg.TgtExists && !s.Cfg.Alias {
		return os.WriteFile(filepath.Join(dir, s.Tgt), []byte(preExisting), 0o600)
	}
	return nil
}

// classify abstracts the real directory after a run.
func (s gxzScenario) classify(dir string) (in, tgt, tmp string, extra []string) {
	rd := func(name string) ([]byte, bool) {
		b, err := os.ReadFile(filepath.Join(dir, name))
		return b, err == nil
	}
	isOut := func(b []byte) bool {
		if s.Mode == "decompress" {
			return bytes.Equal(b, s.plain)
		}
		if s.Format == "xz" {
			r := ref.DecodeXZ(b, ref.XZOpts{})
			return r.Err == nil && bytes.Equal(r.Content, s.plain)
		}
		r := ref.DecodeAlone(b, false)
		return r.Err == nil && bytes.Equal(r.Out, s.plain) && r.Consumed == len(b)
	}
	class := func(name string, isInput bool) string {
		b, ok := rd(name)
		switch {
		case !ok:
			return "absent"
		case isInput && bytes.Equal(b, s.input):
			return "orig"
		case isOut(b):
			return "out"
		case string(b) == preExisting:
			return "other"
		}
		return "partial"
	}
	in = class(s.In, true)
	if s.Cfg.Alias {
		tgt = "n/a"
	} else {
		tgt = class(s.Tgt, false)
	}
	tmp = class(s.Tmp, false)
	ents, _ := os.ReadDir(dir)
	for _, e := range ents {
		if n := e.Name(); n != s.In && n != s.Tgt && n != s.Tmp {
			extra = append(extra, n)
		}
	}
	// the temporary file is whatever else gxz leaves in the directory: its name
	// (<target>.compress today) is the implementation's choice
	if tmp == "absent" && len(extra) > 0 {
		tmp = class(extra[0], false)
	}
	return
}

// symbol maps a path to IN / TMP / TGT.
func (s gxzScenario) symbol(p string) string {
	p = filepath.Base(p)
	switch p {
	case s.In:
		return "IN"
	case s.Tmp:
		return "TMP"
	case s.Tgt:
		return "TGT"
	case "", ".", "..", "/":
		return ""
	}
	// any other name gxz touches inside the run directory is its temporary file
	return "TMP"
}

func errnoFor(name string) syscall.Errno {
	switch name {
	case "write", "close", "openat", "fsync":
		return syscall.ENOSPC
	case "read", "fstat", "newfstatat":
		return syscall.EIO
	}
	return syscall.EACCES
}

type gxzRun struct {
	sc    gxzScenario
	plan  ptr.Plan
	res   ptr.Result
	in    string
	tgt   string
	tmp   string
	extra []string
	at    string // name+symbol of the syscall at the crash/fault point
	trace []byte
}

func runGxz(c *hx.Ctx, bin string, sc gxzScenario, plan ptr.Plan) (*gxzRun, error) {
	dir, err := os.MkdirTemp(c.Scratch, "gxz")
	if err != nil {
		return nil, err
	}
	defer os.RemoveAll(dir)
	if err := sc.setup(dir); err != nil {
		return nil, err
	}
	res, err := ptr.Run(bin, sc.Args, dir, nil, ptr.Rel(dir), plan, 60*time.Second)
	if err != nil {
		return nil, err
	}
	r := &gxzRun{sc: sc, plan: plan, res: res}
	r.in, r.tgt, r.tmp, r.extra = sc.classify(dir)
	// trace for TLC
	var tr bytes.Buffer
	b, _ := json.Marshal(sc.Cfg)
	fmt.Fprintf(&tr, `{"ev":"Reset",%s`+"\n", b[1:])
	eof := false
	for _, e := range res.Events {
		a, bsym := sc.symbol(e.A), sc.symbol(e.B)
		if a == "" || e.A == dir {
			continue
		}
		if sc.Cfg.Alias && e.Name == "renameat" {
			bsym = "TGT"
		}
		if e.Name == "read" && a == "IN" && e.Ret == 0 {
			eof = true
		}
		creat := e.Name == "openat" && e.Flags&(syscall.O_CREAT|syscall.O_WRONLY|syscall.O_RDWR|syscall.O_TRUNC) != 0
		fmt.Fprintf(&tr, `{"ev":"Sys","name":"%s","a":"%s","b":"%s","ret":%d,"creat":%v,"eofSeen":%v,"unfinished":%v}`+"\n", e.Name, a, bsym, e.Ret, creat, eof, e.Unfinished)
		if (plan.FailAt != 0 && e.J == plan.FailAt) || (plan.KillAt != 0 && e.J == plan.KillAt) || (plan.SignalAt != 0 && e.J == plan.SignalAt) {
			r.at = e.Name + ":" + a
		}
	}
	if res.Killed {
		fmt.Fprintf(&tr, `{"ev":"Killed"}`+"\n")
	} else {
		fmt.Fprintf(&tr, `{"ev":"Exit","code":%d}`+"\n", res.Exit)
	}
	fmt.Fprintf(&tr, `{"ev":"Dir","din":"%s","dtgt":"%s","dtmp":"%s"}`+"\n", r.in, r.tgt, r.tmp)
	r.trace = tr.Bytes()
	return r, nil
}

// judgeGxz evaluates the property's observables on one run.
func judgeGxz(c *hx.Ctx, r *gxzRun) {
	sc := r.sc
	phase := "run"
	if r.plan.KillAt > 0 {
		phase = "kill"
	} else if r.plan.FailAt > 0 {
		phase = "fault"
	} else if r.plan.SignalAt > 0 {
		phase = "sigint"
	}
	nameClass := "known-suffix"
	if sc.Cfg.Alias {
		nameClass = "unknown-suffix"
	}
	sig := func(kind string) map[string]string {
		return map[string]string{"kind": kind, "phase": phase, "mode": sc.Mode, "name_class": nameClass, "force": fmt.Sprint(sc.Cfg.Force), "stdout": fmt.Sprint(sc.Cfg.Stdout), "input": sc.Bad, "at": r.at, "signal": fmt.Sprint(int(r.plan.Signal))}
	}
	replay := map[string]any{"scenario": sc.String(), "cfg": sc.Cfg, "args": sc.Args, "plan": r.plan, "at": r.at, "exit": r.res.Exit, "killed": r.res.Killed,
		"dir": map[string]string{"IN": r.in, "TGT": r.tgt, "TMP": r.tmp}, "stderr": string(r.res.Stderr), "syscalls": r.res.Events}
	for _, f := range r.res.Foreign {
		// gxz tried to remove or rename something that is neither its input, its temporary file
		// nor its target (the stepper refused the call, so nothing was harmed)
		c.Violation(sig("foreign-path-removed"), fmt.Sprintf("%s [%s at %s]: gxz called %s on %q, a path it has no business with", sc, phase, r.at, f.Name, f.A), replay)
		return
	}
	dataSafe := r.in == "orig" || (!sc.Cfg.Alias && r.tgt == "out")
	if !dataSafe {
		c.Violation(sig("data-lost"), fmt.Sprintf("%s [%s at %s]: neither the input (%s) nor a complete output under the target name (%s) exists", sc, phase, r.at, r.in, r.tgt), replay)
		return
	}
	if !sc.Cfg.Alias && r.tgt == "partial" {
		c.Violation(sig("partial-target"), fmt.Sprintf("%s [%s at %s]: a partial file carries the target name", sc, phase, r.at), replay)
		return
	}
	if r.res.Killed {
		return
	}
	if r.plan.SignalAt > 0 {
		// An interrupt is handled asynchronously: only the "at every instant" clauses are judged,
		// plus gxz's own promise that its handler (exit status 7) removes the temporary file.
		if r.res.Exit == 7 && r.tmp != "absent" {
			c.Violation(sig("temp-file-left-after-interrupt"), fmt.Sprintf("%s [signal %d at %s]: exit 7 but the temporary file remains", sc, int(r.plan.Signal), r.at), replay)
		}
		return
	}
	if r.tmp != "absent" && !(r.plan.FailAt > 0 && r.at == "unlinkat:TMP") { // nothing can remove a file whose removal fails
		c.Violation(sig("temp-file-left"), fmt.Sprintf("%s [%s at %s]: temporary file left behind (%s), exit %d", sc, phase, r.at, r.tmp, r.res.Exit), replay)
	}
	mustFail := sc.Exit != 0
	if r.plan.FailAt > 0 && r.at != "" {
		switch strings.SplitN(r.at, ":", 2)[0] {
		case "write", "renameat", "openat":
			mustFail = true
		case "unlinkat":
			if strings.HasSuffix(r.at, ":IN") {
				mustFail = true
			}
		case "close":
			if strings.HasSuffix(r.at, ":TMP") {
				mustFail = true
			}
		}
	}
	if mustFail && r.res.Exit == 0 {
		c.Violation(sig("failure-exit-zero"), fmt.Sprintf("%s [%s at %s]: the run must fail but exits 0", sc, phase, r.at), replay)
	}
	if r.res.Exit != 0 {
		if r.in != "orig" {
			c.Violation(sig("failed-run-touched-input"), fmt.Sprintf("%s [%s at %s]: exit %d but the input is %s", sc, phase, r.at, r.res.Exit, r.in), replay)
		}
		if sc.Cfg.TgtExists && !sc.Cfg.Alias && r.tgt != "other" && r.tgt != "out" {
			c.Violation(sig("failed-run-touched-target"), fmt.Sprintf("%s [%s at %s]: exit %d and the pre-existing target is now %s", sc, phase, r.at, r.res.Exit, r.tgt), replay)
		}
	}
	if r.res.Exit == 0 {
		// success is reported only for a complete result
		if sc.Cfg.Stdout {
			ok := bytes.Equal(r.res.Stdout, sc.plain)
			if sc.Mode == "compress" {
				if sc.Format == "xz" {
					x := ref.DecodeXZ(r.res.Stdout, ref.XZOpts{})
					ok = x.Err == nil && bytes.Equal(x.Content, sc.plain)
				} else {
					x := ref.DecodeAlone(r.res.Stdout, false)
					ok = x.Err == nil && bytes.Equal(x.Out, sc.plain)
				}
			}
			if !ok {
				c.Violation(sig("exit-zero-incomplete-stdout"), fmt.Sprintf("%s [%s at %s]: exit 0 but standard output does not hold the complete result (%d bytes)", sc, phase, r.at, len(r.res.Stdout)), replay)
			}
		} else if r.tgt != "out" {
			c.Violation(sig("exit-zero-incomplete-target"), fmt.Sprintf("%s [%s at %s]: exit 0 but the target is %s", sc, phase, r.at, r.tgt), replay)
		}
	}
	if r.plan.FailAt == 0 && r.plan.KillAt == 0 {
		// fault-free run: the specification's prediction
		if (r.res.Exit != 0) != (sc.Exit != 0) || r.in != sc.Fin || (!sc.Cfg.Alias && r.tgt != sc.Ftgt) {
			c.Violation(sig("outcome-differs"), fmt.Sprintf("%s: exit=%d IN=%s TGT=%s; the specification predicts exit=%d IN=%s TGT=%s", sc, r.res.Exit, r.in, r.tgt, sc.Exit, sc.Fin, sc.Ftgt), replay)
		}
	}
}

// C10: gxz never loses data.
func C10(c *hx.Ctx) {
	c.Level = "fault_enumeration"
	c.Rule = "abstract scenarios = all 64 combinations of (alias, keep, force, target exists, input ok, stdout) with the fault-free outcome predicted by GxzGen; each realised for {compress, decompress} x {xz, lzma} (inputs: valid / corrupt / truncated; names with and without known suffix); the unmodified binary built from /repo runs under the ptrace stepper: once fault-free, then killed at the entry of every file-system system call j=1..N, then with every such call failing (ENOSPC/EIO/EACCES); after each run the real directory is abstracted and judged (data safe, no partial target, no temp file, exit status) and the system-call trace is validated by TLC against the GxzFs safety automaton; non-trivial = crash or fault point at a mutating call; plus inputs whose error arrives with the last data, SIGINT/SIGPIPE at every file-system call, '-d -z', stale temporary files (regular / symbolic link)"
	c.Assumptions = []string{"TLC (GxzFs, GxzGen, TraceGxzFs)", "ptrace stepper counts file-system calls globally across threads; a kill at syscall entry prevents the call", "the reference decoder judges 'complete output'"}
	c.Exhaustive = true
	c.DesignCheck(tlc.Opts{Module: "GxzProc", Cfg: "GxzFs_mc.cfg", Timeout: 3 * time.Minute}, nil)
	g := c.TLC(tlc.Opts{Module: "GxzGen", Cfg: "GxzGen.cfg", Timeout: 3 * time.Minute, Workers: 1})
	var abs []gxzScenario
	for _, p := range g.Printed {
		var m struct {
			Kind string
			List []gxzScenario
		}
		if json.Unmarshal([]byte(p), &m) == nil && m.Kind == "scenarios" {
			abs = m.List
		}
	}
	if !g.OK || len(abs) != 64 {
		c.Inconclusive("GxzGen produced %d scenarios: %s\n%s", len(abs), g.ErrText, g.Tail(8))
		return
	}
	bin := buildGxz(c)
	if bin == "" {
		return
	}
	var scs []gxzScenario
	for i, a := range abs {
		for k, s := range realiseGxz(a, c.Seed, c.Thorough()) {
			// quick tier: every abstract scenario once per mode, formats alternate
			if !c.Thorough() && ((s.Format == "lzma") != ((i+k/2)%3 == 0)) {
				continue
			}
			scs = append(scs, s)
		}
	}
	c.Logf("%d concrete scenarios", len(scs))
	var mu sync.Mutex
	var tr bytes.Buffer
	traced := 0
	ptraceBroken := false
	var trSig bytes.Buffer // interrupted runs: validated separately (see below)
	tracedSig := 0
	record := func(r *gxzRun) {
		mu.Lock()
		if r.plan.SignalAt > 0 {
			trSig.Write(r.trace)
			tracedSig++
		} else {
			tr.Write(r.trace)
			traced++
		}
		mu.Unlock()
	}
	parallel(len(scs), func(i int) {
		sc := scs[i]
		base, err := runGxz(c, bin, sc, ptr.Plan{})
		if err != nil {
			mu.Lock()
			ptraceBroken = true
			mu.Unlock()
			c.Inconclusive("ptrace run failed: %v", err)
			return
		}
		c.Count(1, 0)
		judgeGxz(c, base)
		record(base)
		n := len(base.res.Events)
		if i%23 == 0 {
			var names []string
			for _, e := range base.res.Events {
				names = append(names, e.Name+":"+sc.symbol(e.A))
			}
			c.Sample(map[string]any{"scenario": sc.String(), "exit": base.res.Exit, "syscalls": names, "dir": []string{base.in, base.tgt, base.tmp}})
		}
		for j := 1; j <= n; j++ {
			mut := int64(0)
			switch base.res.Events[j-1].Name {
			case "write", "renameat", "unlinkat", "close", "openat":
				mut = 1
			}
			plans := []ptr.Plan{{KillAt: j}, {FailAt: j, Errno: errnoFor(base.res.Events[j-1].Name)}}
			// the two signals gxz handles (interrupt, broken pipe): its handler removes the temporary file
			if c.Thorough() {
				plans = append(plans, ptr.Plan{SignalAt: j, Signal: syscall.SIGINT}, ptr.Plan{SignalAt: j, Signal: syscall.SIGPIPE})
			} else if (i+j)%3 == 0 {
				plans = append(plans, ptr.Plan{SignalAt: j, Signal: []syscall.Signal{syscall.SIGINT, syscall.SIGPIPE}[(i+j)/3%2]})
			}
			for _, plan := range plans {
				r, err := runGxz(c, bin, sc, plan)
				if err != nil {
					c.Inconclusive("ptrace run failed: %v", err)
					return
				}
				c.Count(1, mut)
				judgeGxz(c, r)
				if (i+j)%5 == 0 {
					record(r) // also the interrupted runs: GxzFs has the handler's unlink of the open temporary file
				}
			}
		}
	})
	if ptraceBroken {
		return
	}
	// a stale temporary file (long regular file / symbolic link to an unrelated file) where gxz creates its own
	gxzStaleTemp(c, bin)
	// dash-only names, long operand lists (exit status, independence of members)
	gxzOperandEdgeCases(c, bin)
	// content rather than faults: what is left after a successful run must decode to the input
	gxzContentFamily(c, bin, "C10")
	// Interrupted runs: the handler runs concurrently with the main goroutine, so the order of
	// their system calls is up to the scheduler. The traces are validated against the same
	// automaton; a rejection is reported in the evidence but is not a verdict of its own (the
	// observable judgement above is), because an order the model does not foresee is not a fault.
	if trSig.Len() > 0 {
		rs := c.TLC(tlc.Opts{Module: "TraceGxzFs", Cfg: "TraceGxzFs.cfg", Files: map[string][]byte{"trace.ndjson": trSig.Bytes()}, Timeout: 10 * time.Minute, Xss: "256m"})
		if rs.OK {
			c.Traces += int64(tracedSig)
			c.Extra["interrupted_traces_accepted"] = tracedSig
		} else {
			c.Extra["interrupted_traces_rejected_note"] = fmt.Sprintf("TLC stopped in the batch of %d interrupted runs: %s %s", tracedSig, rs.Violation, rs.ErrText)
			c.Logf("note: TLC does not accept one of the %d interrupted-run traces (%s); not a verdict", tracedSig, rs.Violation)
		}
	}
	// TLC validates the recorded system-call traces
	r := c.TLC(tlc.Opts{Module: "TraceGxzFs", Cfg: "TraceGxzFs.cfg", Files: map[string][]byte{"trace.ndjson": tr.Bytes()}, Timeout: 10 * time.Minute, Xss: "256m"})
	if r.OK {
		c.Traces += int64(traced)
		return
	}
	depth := -1
	for _, p := range r.Printed {
		var m struct {
			Kind  string
			Depth int
		}
		if json.Unmarshal([]byte(p), &m) == nil && m.Kind == "depth" {
			depth = m.Depth
		}
	}
	lines := bytes.Split(tr.Bytes(), []byte("\n"))
	ctx := ""
	if depth >= 1 && depth <= len(lines) {
		lo := depth - 1
		for lo > 0 && !bytes.Contains(lines[lo], []byte(`"Reset"`)) {
			lo--
		}
		ctx = string(bytes.Join(lines[lo:depth], []byte("\n")))
	}
	if depth < 0 {
		c.Inconclusive("TraceGxzFs failed without a verdict: %s\n%s", r.ErrText, r.Tail(25))
		return
	}
	if c.Violations() == 0 && len(c.KnownHits()) == 0 {
		c.Inconclusive("TLC (TraceGxzFs) rejects a recorded system-call trace at line %d (%s %s) although the observable judgement found nothing:\n%.1500s", depth, r.Violation, r.ErrText, ctx)
	} else {
		c.Logf("TLC rejects a recorded trace at line %d (consistent with reported violations/known findings)", depth)
	}
}
