package drive

import (
	"bytes"
	"encoding/json"
	"fmt"
	"io"
	"math/rand"
	"os"
	"sync"
	"time"

	"github.com/ulikunitz/xz/lzma"
	"verif/internal/hx"
	"verif/internal/ref"
	"verif/internal/tlc"
)

func init() { Checks["C06"] = C06; Checks["C07"] = C07 }

type aloneCall struct {
	Op  string `json:"op"`
	N   int    `json:"n"`
	Ret int    `json:"ret"`
	Err string `json:"err"`
	// Copy: the bytes are handed over with io.Copy from a source that reports io.EOF with its
	// last bytes instead of with one Write call (not part of the TLC-generated contract cases)
	Copy bool `json:"copy,omitempty"`
}

type aloneCase struct {
	Sih     bool        `json:"sih"`
	Size    int64       `json:"size"`
	Eos     bool        `json:"eos"`
	Hist    []aloneCall `json:"hist"`
	Closed  string      `json:"closed"`
	HdrSize int64       `json:"hdrSize"`
	Marker  bool        `json:"marker"`
	Total   int         `json:"total"`
}

// AloneCfg is a printable lzma.WriterConfig.
type AloneCfg struct {
	LC, LP, PB int
	DictCap    int
	BufSize    int
	Matcher    int
	Sih        bool
	Size       int64
	Eos        bool
}

func (g AloneCfg) lib() lzma.WriterConfig {
	return lzma.WriterConfig{Properties: &lzma.Properties{LC: g.LC, LP: g.LP, PB: g.PB}, DictCap: g.DictCap, BufSize: g.BufSize,
		Matcher: lzma.MatchAlgorithm(g.Matcher), SizeInHeader: g.Sih, Size: g.Size, EOSMarker: g.Eos}
}

func aloneErrClass(err error) string {
	switch {
	case err == nil:
		return "nil"
	case err == lzma.ErrNoSpace:
		return "nospace"
	case err.Error() == "lzma: wrong uncompressed data size":
		return "size"
	}
	return "other"
}

// AloneRun is the result of replaying a history on lzma.Writer.
type AloneRun struct {
	Sink     []byte
	Accepted []byte
	Calls    []aloneCall
	NewOK    bool
	CloseOK  bool
	Panic    any
}

// runAlone replays calls (write lengths; -1 = Close) with the given data source.
func runAlone(g AloneCfg, calls []aloneCall, data []byte) AloneRun {
	var res AloneRun
	var buf bytes.Buffer
	var w *lzma.Writer
	var err error
	var target io.Writer = &buf // bytes.Buffer is also an io.ByteWriter
	if (len(data)+len(calls))%2 == 1 {
		target = onlyWriter{&buf}
	}
	res.Panic = safely(func() { w, err = g.lib().NewWriter(target) })
	if res.Panic != nil || err != nil {
		return res
	}
	res.NewOK = true
	off := 0
	for _, cl := range calls {
		if cl.Op == "C" {
			var e error
			res.Panic = safely(func() { e = w.Close() })
			res.Calls = append(res.Calls, aloneCall{Op: "C", Err: aloneErrClass(e)})
			res.CloseOK = e == nil
			break
		}
		for off+cl.N > len(data) {
			data = append(data, data...)
			if len(data) == 0 {
				data = []byte{0x5a}
			}
		}
		p := data[off : off+cl.N]
		var n int
		var e error
		res.Panic = safely(func() { n, e = writeVia(w, p, cl.Copy) })
		if res.Panic != nil {
			return res
		}
		res.Calls = append(res.Calls, aloneCall{Op: "W", N: cl.N, Ret: n, Err: aloneErrClass(e)})
		if n >= 0 && n <= len(p) {
			res.Accepted = append(res.Accepted, p[:n]...)
		}
		off += cl.N
	}
	res.Sink = buf.Bytes()
	return res
}

// judgeAlone judges one run against the prediction (nil prediction: the
// history was not TLC-generated; only the round trip and header are judged).
func judgeAlone(c *hx.Ctx, prop string, g AloneCfg, pred *aloneCase, run AloneRun, tr *bytes.Buffer, replay any) {
	sig := func(kind string, extra ...string) map[string]string {
		m := map[string]string{"writer": "lzma", "kind": kind, "matcher": fmt.Sprint(g.Matcher), "sih": fmt.Sprint(g.Sih), "sizezero": fmt.Sprint(g.Size == 0)}
		for i := 0; i+1 < len(extra); i += 2 {
			m[extra[i]] = extra[i+1]
		}
		return m
	}
	if run.Panic != nil {
		c.Violation(sig("panic"), fmt.Sprintf("panic: %v", run.Panic), replay)
		return
	}
	if !run.NewOK {
		c.Violation(sig("new-failed"), "NewWriter rejected a valid configuration", replay)
		return
	}
	if pred != nil {
		for i, pc := range pred.Hist {
			if i >= len(run.Calls) {
				break
			}
			oc := run.Calls[i]
			if oc.Ret != pc.Ret || oc.Err != pc.Err {
				c.Violation(sig("contract", "op", pc.Op, "want", pc.Err, "got", oc.Err), fmt.Sprintf("call %d %s(%d): got (%d,%s), contract says (%d,%s)", i, pc.Op, pc.N, oc.Ret, oc.Err, pc.Ret, pc.Err), replay)
				return
			}
		}
	}
	for i, oc := range run.Calls {
		if oc.Op == "W" && oc.Err == "nil" && oc.Ret != oc.N {
			c.Violation(sig("bytes-dropped", "op", "W"), fmt.Sprintf("call %d: %d bytes were handed to the writer, it reports %d accepted and no error", i, oc.N, oc.Ret), replay)
			return
		}
	}
	h, herr := ref.ParseAloneHeader(run.Sink)
	explicit := g.Sih || g.Size > 0
	wantSize := int64(-1)
	if explicit {
		wantSize = g.Size
	}
	if tr != nil {
		fmt.Fprintf(tr, `{"ev":"New","sih":%v,"size":%d,"eos":%v,"lc":%d,"lp":%d,"pb":%d,"dictCap":%d,"ok":true,"hdr":%v,"hProp":%d,"hDict":%d,"hSize":%d}`+"\n", g.Sih, g.Size, g.Eos, g.LC, g.LP, g.PB, g.DictCap, len(run.Sink) >= 13, h.PropCode, h.DictSize, h.Size)
		for _, oc := range run.Calls {
			if oc.Op == "W" {
				fmt.Fprintf(tr, `{"ev":"W","n":%d,"ret":%d,"err":"%s"}`+"\n", oc.N, oc.Ret, oc.Err)
			} else {
				fmt.Fprintf(tr, `{"ev":"C","err":"%s"}`+"\n", oc.Err)
			}
		}
	}
	// properties and size must be stated exactly; the dictionary size only has to cover every
	// match distance (checked below on the decoded operations), so a header that rounds the
	// capacity up is not an offence
	if !run.CloseOK && len(run.Sink) < 13 {
		// a writer in front of a plain io.Writer may hold everything back until Close; without a
		// successful Close there is no header to judge yet
		return
	}
	if herr != nil || int(h.PropCode) != (g.PB*5+g.LP)*9+g.LC || h.Size != wantSize {
		c.Violation(sig("header", "hsize", fmt.Sprint(h.Size)), fmt.Sprintf("header says props=%d dict=%d size=%d; configuration implies props=%d dict=%d size=%d", h.PropCode, h.DictSize, h.Size, (g.PB*5+g.LP)*9+g.LC, g.DictCap, wantSize), replay)
		return
	}
	if !run.CloseOK {
		return
	}
	rr := ref.DecodeAlone(run.Sink, false)
	wantMarker := g.Eos || !explicit
	if tr != nil {
		fmt.Fprintf(tr, `{"ev":"End","marker":%v,"decoded":%d}`+"\n", rr.Marker, len(rr.Out))
	}
	if rr.Err != nil || !bytes.Equal(rr.Out, run.Accepted) || rr.Consumed != len(run.Sink) {
		c.Violation(sig("ref-decode", "referr", refErrTag(rr.Err)), fmt.Sprintf("reference decoder: err=%v out=%d want=%d consumed=%d/%d", rr.Err, len(rr.Out), len(run.Accepted), rr.Consumed, len(run.Sink)), replay)
		return
	}
	if rr.Marker != wantMarker {
		c.Violation(sig("marker-mode"), fmt.Sprintf("end marker present=%v, configuration requires %v", rr.Marker, wantMarker), replay)
	}
	if rr.Over > 0 {
		c.Violation(sig("distance-beyond-header-dict"), fmt.Sprintf("a match distance exceeds the header's dictionary size by %d", rr.Over), replay)
	}
	for _, dc := range []int{0, 4096} {
		out, err, p := readAlone(run.Sink, dc)
		if p != nil || err != nil || !bytes.Equal(out, run.Accepted) {
			c.Violation(sig("roundtrip", "rerr", libErrTag(err)), fmt.Sprintf("lzma.Reader (DictCap %d): got %d bytes (want %d) err=%v panic=%v", dc, len(out), len(run.Accepted), err, p), replay)
			return
		}
	}
}

func validateAloneTraces(c *hx.Ctx, tr []byte, n int) {
	if len(tr) == 0 {
		return
	}
	r := c.TLC(tlc.Opts{Module: "TraceLzmaAlone", Cfg: "TraceLzmaAlone.cfg", Files: map[string][]byte{"trace.ndjson": tr}, Timeout: 10 * time.Minute, Xss: "256m"})
	if r.OK {
		c.Traces += int64(n)
		return
	}
	depth := -1
	for _, p := range r.Printed {
		var m struct {
			Kind  string
			Depth int
		}
		if json.Unmarshal([]byte(p), &m) == nil && m.Kind == "depth" {
			depth = m.Depth
		}
	}
	lines := bytes.Split(tr, []byte("\n"))
	bad := ""
	if depth >= 1 && depth <= len(lines) {
		bad = string(lines[depth-1])
	}
	if c.Violations() == 0 && len(c.KnownHits()) == 0 {
		c.Inconclusive("TLC rejects a recorded lzma.Writer trace at line %d (%s) that the driver accepted: %.300s\n%s", depth, r.Violation, bad, r.Tail(6))
	} else {
		c.Logf("TLC rejects the recorded trace at line %d (consistent with reported violations): %.200s", depth, bad)
	}
}

func genAloneCases(c *hx.Ctx, sizes, lens string, maxCalls int) []aloneCase {
	mc := fmt.Sprintf("---- MODULE LzmaAloneGen ----\nEXTENDS LzmaAlone\nSizesDef == %s\nWriteLensDef == %s\n====\n", sizes, lens)
	cfg := fmt.Sprintf("SPECIFICATION ASpec\nCONSTANTS Sizes <- SizesDef\n WriteLens <- WriteLensDef\n MaxCalls = %d\nINVARIANTS NeverMoreThanSize HeaderTruthful Emit\nCHECK_DEADLOCK FALSE\n", maxCalls)
	r := c.TLC(tlc.Opts{Module: "LzmaAloneGen", Cfg: "gen.cfg", Files: map[string][]byte{"gen.cfg": []byte(cfg), "LzmaAloneGen.tla": []byte(mc)}, Timeout: 10 * time.Minute, Xss: "64m"})
	if !r.OK {
		c.Inconclusive("LzmaAlone generation failed: %s %s\n%s", r.Violation, r.ErrText, r.Tail(10))
		return nil
	}
	var out []aloneCase
	seen := map[string]bool{}
	for _, p := range r.Printed {
		if seen[p] {
			continue
		}
		seen[p] = true
		var a aloneCase
		if json.Unmarshal([]byte(p), &a) == nil && len(a.Hist) > 0 {
			out = append(out, a)
		}
	}
	return out
}

// C06: classic .lzma round trip and the explicit-size contract.
func C06(c *hx.Ctx) {
	c.Rule = "contract matrix: every (SizeInHeader, Size, EOSMarker) x every history of <= 3/4 writes + Close over boundary lengths, generated by TLC from LzmaAlone with the predicted result of each call, header size field and marker mode, replayed on lzma.Writer; round-trip matrix: all 225 property codes x both matchers x {4096, 1 MiB} x data classes; sink judged by header parse, reference decoder and lzma.Reader; recorded runs validated by TLC (TraceLzmaAlone); non-trivial = explicit size or non-default properties"
	c.Assumptions = []string{"TLC (LzmaAlone)", "internal/ref .lzma decoder"}
	c.DesignCheck(tlc.Opts{Module: "LzmaAloneMC", Cfg: "LzmaAlone_mc.cfg", Timeout: 3 * time.Minute}, []string{"Write", "Close"})
	configTable(c, "lzma")
	cases := genAloneCases(c, "{-1, 0, 1, 2, 5, 300}", c.PickS("{0, 1, 2, 4, 5, 299, 300, 301}", "{0, 1, 2, 3, 4, 5, 6, 299, 300, 301, 600}"), c.Pick(3, 4))
	if len(cases) == 0 {
		return
	}
	c.Logf("%d contract cases from TLC", len(cases))
	var mu sync.Mutex
	var tr bytes.Buffer
	traced := 0
	parallel(len(cases), func(i int) {
		pc := cases[i]
		g := AloneCfg{LC: 3, LP: 0, PB: 2, DictCap: 4096 << uint(i%3), BufSize: []int{273, 4096}[i%2], Matcher: (i / 2) % 2, Sih: pc.Sih, Size: pc.Size, Eos: pc.Eos}
		data := MakeData([]string{"text", "zeroprefix", "random"}[i%3], 1300, c.Seed+int64(i))
		run := runAlone(g, pc.Hist, data)
		var local bytes.Buffer
		judgeAlone(c, "C06", g, &pc, run, &local, map[string]any{"cfg": g, "hist": pc.Hist, "predicted": pc})
		c.Count(1, 1)
		mu.Lock()
		if traced < c.Pick(6000, 40000) {
			tr.Write(local.Bytes())
			traced++
		}
		mu.Unlock()
		if i%2500 == 0 {
			c.Sample(map[string]any{"cfg": g, "hist": pc.Hist, "sink": len(run.Sink)})
		}
	})
	c.Traces += int64(len(cases))
	// round-trip matrix
	var rts []rt
	r := rand.New(rand.NewSource(c.Seed))
	classes := []string{"empty", "one", "text", "zeroprefix", "random", "periodic", "sparse"}
	for code := 0; code < 225; code++ {
		lc, lp, pb := code%9, (code/9)%5, code/45
		for m := 0; m < 2; m++ {
			for di, dc := range []int{4096, 1 << 20} {
				cl := classes[(code+m+di)%len(classes)]
				n := 200 + r.Intn(3000)
				if c.Thorough() {
					n = 2000 + r.Intn(60000)
				}
				if m == 1 && cl == "periodic" {
					cl = "text"
				}
				mode := (code + m*2 + di) % 4
				g := AloneCfg{LC: lc, LP: lp, PB: pb, DictCap: dc, BufSize: []int{273, 4096}[(code+di)%2], Matcher: m}
				rts = append(rts, rt{g, cl, n})
				_ = mode
			}
		}
	}
	rts = append(rts, aloneRingFamily(c.Thorough())...)
	parallel(len(rts), func(i int) {
		x := rts[i]
		data := MakeData(x.class, x.n, c.Seed+int64(i))
		g := x.g
		switch i % 4 {
		case 1:
			g.Sih, g.Size = true, int64(len(data))
		case 2:
			g.Sih, g.Size, g.Eos = true, int64(len(data)), true
		case 3:
			g.Eos = true
		}
		cut := 0
		if len(data) > 0 {
			cut = (i * 37) % (len(data) + 1)
		}
		calls := []aloneCall{{Op: "W", N: cut, Copy: i%3 == 0}, {Op: "W", N: len(data) - cut, Copy: i%3 == 1}, {Op: "C"}}
		run := runAlone(g, calls, data)
		var local bytes.Buffer
		judgeAlone(c, "C06", g, nil, run, &local, map[string]any{"cfg": g, "class": x.class, "n": len(data), "seed": c.Seed + int64(i)})
		c.Count(1, 1)
		mu.Lock()
		if traced < c.Pick(8000, 50000) {
			tr.Write(local.Bytes())
			traced++
		}
		mu.Unlock()
	})
	validateAloneTraces(c, tr.Bytes(), traced)
}

func canonicalDict(d int) bool {
	for n := uint(0); n < 32; n++ {
		if d == 1<<n || (n > 0 && d == 1<<n+1<<(n-1)) {
			return true
		}
	}
	return false
}

// rt is one round-trip case of the classic-LZMA matrix.
type rt struct {
	g     AloneCfg
	class string
	n     int
}

// aloneRingFamily: dictionary capacities that are not powers of two, small look-ahead buffers
// and inputs several times longer than the encoder's ring (dictionary + look-ahead + 1), with
// matches at every distance around the wrap point and (class xx) a repeat at a distance just
// below the capacity; both match finders.
func aloneRingFamily(thorough bool) []rt {
	var out []rt
	k := 0
	for _, d := range []int{4096, 5000, 6000, 7000, 100000} {
		for _, b := range []int{273, 4096} {
			for m := 0; m < 2; m++ {
				for _, class := range []string{"zeros", "lowentropy", "periodic", "text", "xx"} {
					k++
					if !thorough && k%2 == 0 && class != "xx" {
						continue
					}
					n := 3*(d+b+1) + k%5
					if d > 10000 {
						n = d + b + 5000
					}
					if class == "xx" {
						n = 2 * (d - 7)
					}
					if m == 1 && class == "zeros" && n > 40000 {
						n = 40000 // BinaryTree is quadratic on long runs
					}
					out = append(out, rt{AloneCfg{LC: 3, LP: 0, PB: 2, DictCap: d, BufSize: b, Matcher: m}, class, n})
				}
			}
		}
	}
	// distance ladder: a repeat in every distance slot up to the capacity, both sides of every slot
	// boundary (hash-table finder, zero filler; text filler for the binary-tree finder); runs cut at
	// the maximum match length (the operations that can directly follow a match)
	out = append(out, rt{AloneCfg{LC: 3, LP: 0, PB: 2, DictCap: 1 << 25, BufSize: 4096, Matcher: 0}, "ladder", 1<<25 + 4096})
	out = append(out, rt{AloneCfg{LC: 0, LP: 2, PB: 0, DictCap: 1 << 23, BufSize: 4096, Matcher: 0}, "ladder", 1<<23 + 4096})
	out = append(out, rt{AloneCfg{LC: 3, LP: 0, PB: 2, DictCap: 65536, BufSize: 4096, Matcher: 1}, "laddertext", 70000})
	if thorough {
		out = append(out, rt{AloneCfg{LC: 3, LP: 0, PB: 2, DictCap: 1 << 26, BufSize: 4096, Matcher: 0}, "ladder", 1<<26 + 4096})
		out = append(out, rt{AloneCfg{LC: 3, LP: 0, PB: 2, DictCap: 1 << 27, BufSize: 4096, Matcher: 0}, "ladder", 1<<27 + 4096})
	}
	// volume: rare coincidences inside the range coder (a range of exactly 2^24-1 before a
	// normalisation, long runs of pending 0xff bytes) need megabytes of coder output
	out = append(out, rt{AloneCfg{LC: 3, LP: 0, PB: 2, DictCap: 65536, BufSize: 4096, Matcher: 0}, "noise200", map[bool]int{false: 16 << 20, true: 96 << 20}[thorough]})
	out = append(out, rt{AloneCfg{LC: 3, LP: 0, PB: 2, DictCap: 1 << 20, BufSize: 4096, Matcher: 0}, "farcopies", map[bool]int{false: 24 << 20, true: 96 << 20}[thorough]})
	for k, p := range [][3]int{{3, 0, 2}, {0, 2, 0}, {1, 3, 2}, {4, 0, 4}, {0, 4, 0}, {2, 1, 3}} {
		out = append(out, rt{AloneCfg{LC: p[0], LP: p[1], PB: p[2], DictCap: []int{4096, 65536}[k%2], BufSize: []int{4096, 273}[k/2%2], Matcher: k % 2}, "maxlenruns", 18000 + k})
	}
	return out
}

// C07: .lzma interoperates with the reference both ways.
func C07(c *hx.Ctx) {
	c.Rule = "writer side: library output for all 75 (lc,lp,pb) with lc+lp<=4 x matchers x dictionary sizes x termination modes x data classes decoded by the reference decoder (and xz-utils when installed), header judged for truthfulness; reader side: streams realised from TLC-generated operation sequences (LzmaGen) in the three termination modes x all 225 property codes x header dictionary sizes incl. < 4096 and non-powers of two x zero-length content, plus the xz-utils corpus and the repository's sample files, read with lzma.Reader for several ReaderConfig.DictCap; non-trivial = generated stream with a rep operation or non-default mode"
	c.Assumptions = []string{"TLC (LzmaGen, TraceLzma, LzmaAlone)", "internal/ref .lzma encoder/decoder (cross-checked against xz-utils output when installed)"}
	var mu sync.Mutex
	// writer side
	type wcase struct {
		g     AloneCfg
		class string
		n     int
	}
	var ws []wcase
	r := rand.New(rand.NewSource(c.Seed + 99))
	classes := []string{"empty", "one", "text", "zeroprefix", "random", "sparse", "alternating"}
	k := 0
	for lc := 0; lc <= 4; lc++ {
		for lp := 0; lp+lc <= 4; lp++ {
			for pb := 0; pb <= 4; pb++ {
				for m := 0; m < 2; m++ {
					dc := []int{4096, 6144, 65536, 1 << 20}[k%4]
					g := AloneCfg{LC: lc, LP: lp, PB: pb, DictCap: dc, BufSize: []int{273, 4096}[k%2], Matcher: m}
					n := 100 + r.Intn(c.Pick(6000, 90000))
					ws = append(ws, wcase{g, classes[k%len(classes)], n})
					k++
				}
			}
		}
	}
	for _, x := range aloneRingFamily(c.Thorough()) {
		ws = append(ws, wcase{x.g, x.class, x.n})
	}
	// one repeat at a distance of exactly 2^e (and its neighbours): every distance-slot boundary of the coder
	for e := 12; e <= 24; e++ {
		for _, d := range []int{-1, 0, 1} {
			if !c.Thorough() && (e%4 != 0 || (d != 0 && e != 24)) {
				continue
			}
			ws = append(ws, wcase{AloneCfg{LC: 3, LP: 0, PB: 2, DictCap: 1 << 25, BufSize: 4096, Matcher: 0}, "farrepeat", 1<<uint(e) + d + 300})
		}
	}
	var forXz [][]byte
	var forXzPlain bytes.Buffer
	wops := &opsBatch{}
	parallel(len(ws), func(i int) {
		x := ws[i]
		data := MakeData(x.class, x.n, c.Seed+int64(i)*3)
		g := x.g
		switch i % 3 {
		case 1:
			g.Sih, g.Size = true, int64(len(data))
		case 2:
			g.Sih, g.Size, g.Eos = true, int64(len(data)), true
		}
		run := runAlone(g, []aloneCall{{Op: "W", N: len(data)}, {Op: "C"}}, data)
		judgeAlone(c, "C07", g, nil, run, nil, map[string]any{"cfg": g, "class": x.class, "n": len(data), "seed": c.Seed + int64(i)*3})
		c.Count(1, 1)
		if run.CloseOK && len(data) > 0 && len(data) <= 20000 {
			// operation level: the window of Lzma.tla is the dictionary size the header states
			if chk := ref.DecodeAlone(run.Sink, true); chk.Err == nil && bytes.Equal(chk.Out, data) {
				mu.Lock()
				if wops.lines < c.Pick(120000, 600000) {
					wops.addAlone(fmt.Sprintf("lzma.Writer case %d cfg %+v", i, g), chk)
				}
				mu.Unlock()
			}
		}
		// xz-utils refuses, by design (xz(1), "LZMA_Alone"), .lzma headers whose dictionary size
		// is not 2^n or 2^n+2^(n-1); such streams are legal for the LZMA SDK decoder and are
		// judged by the reference decoder only
		if run.CloseOK && canonicalDict(g.DictCap) {
			mu.Lock()
			forXz = append(forXz, run.Sink)
			forXzPlain.Write(run.Accepted)
			mu.Unlock()
		}
	})
	if tag, line, ok := wops.validate(c); ok && tag != "" {
		if c.Violations() == 0 {
			c.Inconclusive("TLC (TraceLzma) rejects the operations of a stream lzma.Writer emitted and the reference decoder accepted, at line %d: %s", line, tag)
		} else {
			c.Logf("TraceLzma rejects an emitted stream at line %d (%s), consistent with the reported violations", line, tag)
		}
	}
	c.Extra["writer_op_traces_validated"] = wops.cases
	// non-vacuity of the volume cases: how often the decoded writer output passed through the
	// range coder's normalisation boundary (range = 2^24-1 / 2^24 after a coded / a direct bit)
	c.Extra["range_coder_boundary_events"] = map[string]int64{"bit_below_top": ref.RcEvents.BitBelowTop.Load(), "bit_at_top": ref.RcEvents.BitAtTop.Load(),
		"direct_below_top": ref.RcEvents.DirectBelowTop.Load(), "direct_at_top": ref.RcEvents.DirectAtTop.Load()}
	if len(forXz) > 0 {
		dir, _ := os.MkdirTemp(c.Scratch, "xzalone")
		out, err, present := xzUtilsDecode(dir, forXz, "--format=lzma")
		c.Extra["xz_utils_present"] = present
		if present && (err != nil || !bytes.Equal(out, forXzPlain.Bytes())) {
			// locate
			for _, s := range forXz {
				o, e, _ := xzUtilsDecode(dir, [][]byte{s}, "--format=lzma")
				rr := ref.DecodeAlone(s, false)
				if e != nil || !bytes.Equal(o, rr.Out) {
					c.Violation(map[string]string{"writer": "lzma", "kind": "liblzma-rejects"}, fmt.Sprintf("xz-utils rejects or decodes differently a .lzma stream the library wrote: %v", e), map[string]any{"hex": hexHead(s, 1024)})
					break
				}
			}
		}
	}
	// reader side: generated streams
	type rcase struct {
		name  string
		data  []byte
		plain []byte
		nt    bool
	}
	var rs []rcase
	ops := &opsBatch{}
	addGen := func(dict, depth, num int, seedOff int64) {
		behs := genBehavioursOpt(c, dict, depth, num, c.Seed+seedOff, false)
		c.Logf("LzmaGen(ops only) dict=%d depth=%d: %d behaviours", dict, depth, len(behs))
		rr := rand.New(rand.NewSource(c.Seed + seedOff))
		for bi, h := range behs {
			var opsl []ref.Op
			nt := false
			for _, e := range h {
				switch e.K {
				case "L":
					b := byte(rr.Intn(256))
					if rr.Intn(3) == 0 {
						b = byte(rr.Intn(3))
					}
					near := 0
					if rr.Intn(4) == 0 {
						near = 1 + rr.Intn(4)
					}
					opsl = append(opsl, ref.Op{K: ref.OpLit, B: b, Near: near})
				case "M":
					opsl = append(opsl, ref.Op{K: ref.OpMatch, Dist: int64(e.D), Len: e.N})
				case "R":
					opsl = append(opsl, ref.Op{K: ref.OpKind('0' + e.D - 1), Len: e.N})
					nt = true
				case "S":
					opsl = append(opsl, ref.Op{K: ref.OpShort})
					nt = true
				}
			}
			code := (bi*7 + int(seedOff)) % 225
			p := ref.Props{LC: code % 9, LP: (code / 9) % 5, PB: code / 45}
			mode := []string{"marker", "size", "both"}[bi%3]
			hdrDict := uint32(dict)
			switch bi % 5 {
			case 1:
				hdrDict = uint32(dict) + 1 + uint32(rr.Intn(1000)) // non power of two, still >= needed
			case 2:
				hdrDict = uint32(dict) * 3 / 2
			}
			if dict == 4096 && bi%7 == 3 {
				hdrDict = uint32(1 + rr.Intn(4095)) // below 4096: the SDK rule makes the window 4096
			}
			stream, plain, err := ref.EncodeAlone(p, hdrDict, opsl, mode, false)
			if err != nil {
				c.Inconclusive("cannot realise .lzma behaviour: %v", err)
				continue
			}
			chk := ref.DecodeAlone(stream, ops.lines < c.Pick(40000, 300000))
			if chk.Err != nil || !bytes.Equal(chk.Out, plain) {
				c.Inconclusive("trusted base: ref rejects its own .lzma stream: %v", chk.Err)
				continue
			}
			if len(chk.Ops) > 0 {
				ops.addAlone(fmt.Sprintf("gen-alone-%d-%d", dict, bi), chk)
			}
			rs = append(rs, rcase{fmt.Sprintf("gen lc%d lp%d pb%d %s hdrDict=%d ops=%d", p.LC, p.LP, p.PB, mode, hdrDict, len(opsl)), stream, plain, nt || mode != "marker"})
		}
	}
	addGen(4096, 25, c.Pick(400, 4000), 1)
	addGen(4096, 150, c.Pick(100, 1000), 2)
	addGen(65536, 400, c.Pick(30, 400), 3)
	// end markers whose length field is not 2 (the marker is identified by its distance alone)
	for k, ml := range []int{3, 4, 9, 17, 18, 100, 272, 273} {
		p := ref.Props{LC: []int{3, 0, 8, 4}[k%4], LP: []int{0, 4, 4, 0}[k%4], PB: []int{2, 4, 0, 1}[k%4]}
		for _, mode := range []string{"marker", "both"} {
			for _, opsl := range [][]ref.Op{nil, {{K: ref.OpLit, B: 'x'}}, {{K: ref.OpLit, B: 'a'}, {K: ref.OpLit, B: 'b'}, {K: ref.OpMatch, Dist: 2, Len: 40}, {K: ref.OpLit, B: 'c'}, {K: ref.OpShort}}} {
				st, pl, err := ref.EncodeAloneML(p, 4096, opsl, mode, false, ml)
				if err != nil {
					c.Inconclusive("marker-length stream: %v", err)
					continue
				}
				if chk := ref.DecodeAlone(st, false); chk.Err != nil || !bytes.Equal(chk.Out, pl) {
					c.Inconclusive("trusted base: ref rejects its own stream with marker length %d: %v", ml, chk.Err)
					continue
				}
				rs = append(rs, rcase{fmt.Sprintf("marker-length %d lc%d lp%d pb%d %s ops=%d", ml, p.LC, p.LP, p.PB, mode, len(opsl)), st, pl, true})
			}
		}
	}
	// zero-length content in every mode and property combination
	for code := 0; code < 225; code += c.Pick(7, 1) {
		p := ref.Props{LC: code % 9, LP: (code / 9) % 5, PB: code / 45}
		for _, mode := range []string{"marker", "size", "both"} {
			s, pl, _ := ref.EncodeAlone(p, 4096, nil, mode, false)
			rs = append(rs, rcase{fmt.Sprintf("empty lc%d lp%d pb%d %s", p.LC, p.LP, p.PB, mode), s, pl, true})
		}
	}
	if tag, line, ok := ops.validate(c); ok && tag != "" {
		c.Inconclusive("trusted base: TLC (TraceLzma) rejects the operation trace of %s at line %d", tag, line)
	}
	// corpus and repository samples
	corp, err := LoadCorpus(".lzma")
	if err != nil {
		c.Inconclusive("corpus: %v", err)
	}
	for _, f := range corp {
		rs = append(rs, rcase{"corpus/" + f.Name, f.Stream, f.Plain, true})
	}
	for _, n := range []string{"a.lzma", "a_eos.lzma", "a_eos_and_size.lzma", "a_lp1_lc2_pb1.lzma"} {
		b, e := os.ReadFile(hx.RepoDir + "/lzma/examples/" + n)
		if e != nil {
			continue
		}
		rr := ref.DecodeAlone(b, false)
		if rr.Err == nil {
			rs = append(rs, rcase{"repo-sample/" + n, b, rr.Out, true})
		}
	}
	// the generated streams must be valid for xz-utils too where it supports them (lc+lp<=4, lc<=4, nice dict)
	c.Logf("%d reader-side streams", len(rs))
	parallel(len(rs), func(i int) {
		s := rs[i]
		for di, dc := range []int{0, 4096, 1 << 16} {
			nt := int64(0)
			if s.nt && di == 0 {
				nt = 1
			}
			c.Count(1, nt)
			if di == 0 {
				// documented accessor: EOSMarker reports whether an end marker was met in the stream
				if lr, e := lzma.NewReader(bytes.NewReader(s.data)); e == nil {
					if _, e2, p2 := readAllSafe(lr, 4096, 0); e2 == nil && p2 == nil {
						if want := ref.DecodeAlone(s.data, false).Marker; lr.EOSMarker() != want {
							c.Violation(map[string]string{"reader": "lzma", "kind": "eos-marker-flag"}, fmt.Sprintf("valid .lzma stream %s: EOSMarker() = %v after reading to the end, the stream has marker = %v", s.name, lr.EOSMarker(), want), map[string]any{"stream": s.name, "hex": hexHead(s.data, 512)})
						}
					}
				}
			}
			out, err, p := readAlone(s.data, dc)
			if p != nil || err != nil || !bytes.Equal(out, s.plain) {
				kind := "valid-stream-misread"
				if len(s.plain) == 0 {
					kind = "valid-empty-stream-misread"
				}
				c.Violation(map[string]string{"reader": "lzma", "kind": kind, "rerr": libErrTag(err), "src": s.name[:3]},
					fmt.Sprintf("valid .lzma stream %s (ReaderConfig.DictCap %d): got %d bytes (want %d) err=%v panic=%v", s.name, dc, len(out), len(s.plain), err, p),
					map[string]any{"stream": s.name, "hex": hexHead(s.data, 1024), "dictcap": dc})
				return
			}
		}
		if i%300 == 0 {
			c.Sample(map[string]any{"stream": s.name, "len": len(s.data), "plain": len(s.plain)})
		}
	})
	c.Traces += int64(len(rs))
}
