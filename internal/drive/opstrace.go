package drive

import (
	"bytes"
	"encoding/json"
	"fmt"
	"time"

	"verif/internal/hx"
	"verif/internal/ref"
	"verif/internal/tlc"
)

// opsBatch accumulates operation-level traces for TraceLzma.tla: the
// plaintexts are concatenated into one constant, each stream gets a Reset
// event with its base offset.
type opsBatch struct {
	data   []int
	tr     bytes.Buffer
	lines  int
	cases  int
	starts []int // line index (1-based) of each case's Reset
	tags   []string
}

func (o *opsBatch) line(format string, a ...any) {
	fmt.Fprintf(&o.tr, format+"\n", a...)
	o.lines++
}

func (o *opsBatch) begin(tag string, dict int64, plain []byte) {
	if dict > 1<<31-1 {
		dict = 1<<31 - 1
	}
	o.starts = append(o.starts, o.lines+1)
	o.tags = append(o.tags, tag)
	o.line(`{"ev":"Reset","dict":%d,"base":%d}`, dict, len(o.data))
	for _, b := range plain {
		o.data = append(o.data, int(b))
	}
	o.cases++
}

func (o *opsBatch) ops(evs []ref.OpEvent) {
	for _, e := range evs {
		rep, _ := json.Marshal(e.Rep)
		switch e.K {
		case "L":
			o.line(`{"ev":"L","pos":%d,"st":%d,"rep":%s,"b":%d}`, e.Pos, e.St, rep, e.B)
		case "M":
			o.line(`{"ev":"M","pos":%d,"st":%d,"rep":%s,"d":%d,"n":%d}`, e.Pos, e.St, rep, e.D, e.N)
		case "S":
			o.line(`{"ev":"S","pos":%d,"st":%d,"rep":%s}`, e.Pos, e.St, rep)
		case "0", "1", "2", "3":
			o.line(`{"ev":"R","pos":%d,"st":%d,"rep":%s,"g":%d,"n":%d}`, e.Pos, e.St, rep, int(e.K[0]-'0')+1, e.N)
		}
	}
}

// addL2 appends the trace of one decoded LZMA2 stream (chunks with ops).
func (o *opsBatch) addL2(tag string, dict int64, r ref.L2Result) {
	o.begin(tag, dict, r.Out)
	for _, ch := range r.Chunks {
		switch ch.Kind {
		case "UD":
			o.line(`{"ev":"DictReset"}`)
			o.line(`{"ev":"Raw","n":%d}`, ch.U)
		case "U":
			o.line(`{"ev":"Raw","n":%d}`, ch.U)
		case "LRND":
			o.line(`{"ev":"DictReset"}`)
			o.line(`{"ev":"StateReset"}`)
			o.ops(ch.Ops)
		case "LRN", "LR":
			o.line(`{"ev":"StateReset"}`)
			o.ops(ch.Ops)
		case "L":
			o.ops(ch.Ops)
		}
	}
	o.line(`{"ev":"End","total":%d}`, len(r.Out))
}

// addAlone appends the trace of one decoded .lzma stream.
func (o *opsBatch) addAlone(tag string, r ref.AloneResult) {
	ds := int64(r.H.DictSize)
	if ds < 4096 {
		ds = 4096
	}
	o.begin(tag, ds, r.Out)
	o.ops(r.Ops)
	o.line(`{"ev":"End","total":%d}`, len(r.Out))
}

// validate runs TLC; returns the tag of the rejected case ("" if accepted).
func (o *opsBatch) validate(c *hx.Ctx) (rejected string, line int, ok bool) {
	if o.cases == 0 {
		return "", 0, true
	}
	data, _ := json.Marshal(o.data)
	if len(o.data) == 0 {
		data = []byte("[0]")
	}
	r := c.TLC(tlc.Opts{Module: "TraceLzma", Cfg: "TraceLzma.cfg", Files: map[string][]byte{"ops.ndjson": o.tr.Bytes(), "data.json": data}, Timeout: 10 * time.Minute, Xss: "256m"})
	if r.OK {
		c.Traces += int64(o.cases)
		return "", 0, true
	}
	depth := -1
	for _, p := range r.Printed {
		var m struct {
			Kind  string
			Depth int
		}
		if json.Unmarshal([]byte(p), &m) == nil && m.Kind == "depth" {
			depth = m.Depth
		}
	}
	if depth < 1 {
		c.Inconclusive("TraceLzma failed without a verdict: %s %s\n%s", r.Violation, r.ErrText, r.Tail(12))
		return "", 0, false
	}
	tag := ""
	for i, s := range o.starts {
		if s <= depth {
			tag = o.tags[i]
		}
	}
	return tag, depth, true
}
