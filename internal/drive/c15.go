package drive

import (
	"bytes"
	"encoding/json"
	"fmt"
	"os"
	"os/exec"
	"path/filepath"
	"sort"
	"strings"
	"syscall"
	"time"

	"verif/internal/hx"
	"verif/internal/ref"
	"verif/internal/tlc"
)

func init() { Checks["C15"] = C15 }

type cliFile struct {
	Name    string `json:"name"`
	Content string `json:"content"`
	Pre     bool   `json:"pre"`
	Mode    string `json:"mode"`
}

type cliOutcome struct {
	Ok          bool   `json:"ok"`
	Fmt         string `json:"fmt"`
	Target      string `json:"target"`
	RemoveInput bool   `json:"removeInput"`
}

type cliCase struct {
	Op       string       `json:"op"`
	Flags    []string     `json:"flags"`
	Fmt      string       `json:"fmt"`
	Form     string       `json:"form"`
	Preset   string       `json:"preset"`
	Layout   string       `json:"layout"`
	Bundle   bool         `json:"bundle"`
	Files    []cliFile    `json:"files"`
	Outcomes []cliOutcome `json:"outcomes"`
	Exit     int          `json:"exit"`
}

func (k cliCase) key() string {
	b, _ := json.Marshal(k)
	return string(b)
}

// fileName realises a name class for operand #i; v rotates through stems whose last characters
// belong to the suffix's own character set ("linux.xz", "data.lzma", "text.txz"), contain dots,
// or contain a known suffix in the middle - the target name must still be exactly the name
// minus (or plus) the suffix.
func cliFileName(class string, i int, v int) string {
	pick := func(l ...string) string { return fmt.Sprintf(l[v%len(l)], i) }
	switch class {
	case "plain":
		return pick("f%d.txt", "f%d.txt", "archive.xz.%d.txt", "%d.lzma.bak", "noext%d")
	case "space":
		return fmt.Sprintf("my file %d.txt", i)
	case "dash":
		return fmt.Sprintf("-dash%d.txt", i)
	case "num":
		return fmt.Sprintf("%d", i)
	case "xz":
		return pick("a%d.xz", "%dlinux.xz", "quiz%dz.xz", "pkg.%d.tar.z.xz", "x%d.x.xz")
	case "lzma":
		return pick("a%d.lzma", "%ddata.lzma", "page%d.html.lzma", "%dmm.lzma", "l%d.z.lzma")
	case "txz":
		return pick("b%d.txz", "%dtext.txz", "box%d.z.txz")
	case "tlz":
		return pick("b%d.tlz", "%dshell.tlz", "total%dt.tlz")
	case "other":
		return pick("c%d.dat", "c%d.dat", "c%d.xz.dat", "c%dxz")
	}
	panic(class)
}

func cliTarget(name, kind, format string) string {
	switch kind {
	case "append":
		return name + "." + format
	case "strip":
		return name[:strings.LastIndex(name, ".")]
	case "tar":
		return name[:strings.LastIndex(name, ".")] + ".tar"
	}
	return ""
}

// xzUtilsEncode compresses with xz-utils if installed (nil otherwise).
func xzUtilsEncode(plain []byte, format string) []byte {
	bin, err := exec.LookPath("xz")
	if err != nil {
		return nil
	}
	cmd := exec.Command(bin, "-c", "--format="+format, "-1")
	cmd.Stdin = bytes.NewReader(plain)
	out, err := cmd.Output()
	if err != nil {
		return nil
	}
	return out
}

// decodeAny decodes a (possibly concatenated) result in the given format.
func decodeAny(data []byte, format string) ([]byte, bool) {
	if format == "xz" {
		r := ref.DecodeXZ(data, ref.XZOpts{})
		return r.Content, r.Err == nil
	}
	var out []byte
	for len(data) > 0 {
		r := ref.DecodeAlone(data, false)
		if r.Err != nil || r.Consumed == 0 {
			return out, false
		}
		out = append(out, r.Out...)
		data = data[r.Consumed:]
	}
	return out, true
}

type cliRun struct {
	exit   int
	stdout []byte
	stderr []byte
	argv   []string
}

func runCli(bin, dir string, argv []string) cliRun {
	cmd := exec.Command(bin, argv...)
	cmd.Dir = dir
	var so, se bytes.Buffer
	cmd.Stdout, cmd.Stderr = &so, &se
	cmd.Stdin = strings.NewReader("")
	err := cmd.Run()
	r := cliRun{stdout: so.Bytes(), stderr: se.Bytes(), argv: argv}
	if ee, ok := err.(*exec.ExitError); ok {
		r.exit = ee.ExitCode()
	} else if err != nil {
		r.exit = -1
	}
	return r
}

func buildArgv(k cliCase, names []string) []string {
	var opts []string
	letters := ""
	if k.Op == "z" {
		letters += "z"
	}
	if k.Op == "d" {
		letters += "d"
	}
	fl := append([]string{}, k.Flags...)
	sort.Strings(fl)
	for _, f := range fl {
		letters += f
	}
	if k.Bundle && len(letters) > 0 {
		opts = append(opts, "-"+letters)
	} else {
		long := map[byte]string{'z': "--compress", 'd': "--decompress", 'k': "--keep", 'c': "--stdout", 'f': "--force", 'q': "--quiet", 'v': "--verbose"}
		for i := 0; i < len(letters); i++ {
			if (i+len(k.Files))%3 == 2 {
				opts = append(opts, long[letters[i]])
			} else {
				opts = append(opts, "-"+string(letters[i]))
			}
		}
	}
	if k.Fmt != "none" {
		switch k.Form {
		case "short":
			opts = append(opts, "-F", k.Fmt)
		case "long":
			opts = append(opts, "--format", k.Fmt)
		case "eq":
			opts = append(opts, "--format="+k.Fmt)
		}
	}
	if k.Preset != "none" {
		opts = append(opts, "-"+k.Preset)
	}
	switch k.Layout {
	case "last":
		return append(append([]string{}, names...), opts...)
	case "mixed":
		out := append([]string{names[0]}, opts...)
		return append(out, names[1:]...)
	case "ddash":
		return append(append(opts, "--"), names...)
	}
	return append(opts, names...)
}

// C15: gxz command line.
func C15(c *hx.Ctx) {
	c.Rule = "invocations generated by TLC from GxzCli (operation x flag subsets x -F forms x presets x option layouts incl. bundling, options after operands and '--' x 1-3 operands from name classes x content classes x pre-existing target x input mode), exhaustively for a reduced alphabet and by seeded random walks for the full one, each with the outcome the specification predicts per file; realised in a fresh directory and run with the binary built from /repo; plus the preset 0-9 round trips for both formats and xz-utils interoperability in both directions when installed; non-trivial = invocation with >= 2 operands, a failing member, or a non-default layout; plus GxzMain (personalities, -h/-L/-V, bad -F, malformed command lines, standard input, special operands), Sniff (header predicates), name stems ending in suffix characters, multi-stream operands, stale temporary files, unwritable standard output, default preset"
	c.Assumptions = []string{"TLC (GxzCli)", "reference decoders judge produced files", "xz-utils only as optional cross-check", "warning texts, -q/-v output and terminal behaviour are not predicted"}
	syscall.Umask(0o022)
	c.DesignCheck(tlc.Opts{Module: "GxzCli", Cfg: "GxzCli_mc.cfg", Workers: 8, Timeout: 5 * time.Minute}, []string{"ChooseOp", "ChooseFlags", "ChooseFmt", "AddFile", "Finish"})
	bin := buildGxz(c)
	if bin == "" {
		return
	}
	var cases []cliCase
	seen := map[string]bool{}
	collect := func(r tlc.Result) {
		for _, p := range r.Printed {
			var k cliCase
			if json.Unmarshal([]byte(p), &k) != nil || len(k.Files) == 0 || len(k.Outcomes) != len(k.Files) {
				continue
			}
			if key := k.key(); !seen[key] {
				seen[key] = true
				cases = append(cases, k)
			}
		}
	}
	full := "CONSTANTS Ops = {\"none\", \"z\", \"d\"}\n FlagPool = {\"k\", \"c\", \"f\", \"q\", \"v\"}\n Fmts = {\"none\", \"xz\", \"lzma\", \"alone\", \"auto\"}\n Forms = {\"short\", \"long\", \"eq\"}\n Presets = {\"none\", \"0\", \"6\", \"9\"}\n Layouts = {\"first\", \"last\", \"mixed\", \"ddash\"}\n Names = {\"plain\", \"space\", \"dash\", \"num\", \"xz\", \"lzma\", \"txz\", \"tlz\", \"other\"}\n Contents = {\"text\", \"empty\", \"xzdata\", \"lzmadata\", \"garbage\"}\n"
	simCfg := "SPECIFICATION Spec\n" + full + " MaxFiles = 3\nINVARIANTS Emit Independent NeverRemoveWithoutTarget\nCHECK_DEADLOCK FALSE\n"
	r := c.TLC(tlc.Opts{Module: "GxzCli", Cfg: "sim.cfg", Files: map[string][]byte{"sim.cfg": []byte(simCfg)}, Simulate: fmt.Sprintf("num=%d", c.Pick(1500, 40000)), Depth: 9, Seed: c.Seed, Timeout: 10 * time.Minute})
	if !r.OK {
		c.Inconclusive("GxzCli simulation failed: %s %s\n%s", r.Violation, r.ErrText, r.Tail(10))
		return
	}
	collect(r)
	// exhaustive small alphabet: one operand, every op/flag/format combination
	bfsCfg := "SPECIFICATION Spec\nCONSTANTS Ops = {\"none\", \"z\", \"d\"}\n FlagPool = {\"k\", \"c\", \"f\"}\n Fmts = {\"none\", \"lzma\", \"auto\"}\n Forms = {\"short\"}\n Presets = {\"none\"}\n Layouts = {\"first\"}\n Names = {\"plain\", \"xz\", \"lzma\", \"txz\", \"other\"}\n Contents = {\"text\", \"xzdata\", \"lzmadata\", \"garbage\"}\n MaxFiles = 1\nINVARIANTS Emit\nCHECK_DEADLOCK FALSE\n"
	r2 := c.TLC(tlc.Opts{Module: "GxzCli", Cfg: "bfs.cfg", Files: map[string][]byte{"bfs.cfg": []byte(bfsCfg)}, Timeout: 10 * time.Minute, Xss: "64m"})
	if !r2.OK {
		c.Inconclusive("GxzCli enumeration failed: %s %s\n%s", r2.Violation, r2.ErrText, r2.Tail(10))
		return
	}
	collect(r2)
	if !c.Thorough() && len(cases) > 5000 {
		cases = cases[:5000]
	}
	c.Logf("%d distinct invocations", len(cases))
	c.Traces += int64(len(cases))
	_, haveXz := exec.LookPath("xz")
	c.Extra["xz_utils_present"] = haveXz == nil
	parallel(len(cases), func(ci int) {
		k := cases[ci]
		dir, err := os.MkdirTemp(c.Scratch, "cli")
		if err != nil {
			c.Inconclusive("mkdir: %v", err)
			return
		}
		defer os.RemoveAll(dir)
		type fstate struct {
			name, target string
			input, plain []byte
			mode         os.FileMode
		}
		var fs []fstate
		var names []string
		usedNames := map[string]bool{}
		for i, f := range k.Files {
			st := fstate{name: cliFileName(f.Name, i+1, ci)}
			plain := MakeData("text", 1500+37*i, c.Seed+int64(ci*7+i))
			switch f.Content {
			case "text":
				st.input = plain
			case "empty":
				st.input, plain = []byte{}, []byte{}
			case "garbage":
				st.input = []byte("this is certainly not compressed data \x00\x01\x02 at all.......")
				plain = st.input
			case "xzdata", "lzmadata":
				format := map[string]string{"xzdata": "xz", "lzmadata": "lzma"}[f.Content]
				if (ci+i)%2 == 0 {
					st.input = xzUtilsEncode(plain, format)
				}
				if format == "xz" && (ci+i)%3 == 1 {
					// a valid .xz file may consist of several streams with stream padding
					h := len(plain) / 2
					st.input = append(append(append(gxzEncode("xz", plain[:h]), 0, 0, 0, 0), gxzEncode("xz", plain[h:])...), make([]byte, 8)...)
				}
				if st.input == nil {
					st.input = gxzEncode(format, plain)
				}
			}
			st.plain = plain
			st.mode = map[string]os.FileMode{"644": 0o644, "600": 0o600, "444": 0o444}[f.Mode]
			st.target = cliTarget(st.name, k.Outcomes[i].Target, k.Outcomes[i].Fmt)
			usedNames[st.name] = true
			fs = append(fs, st)
			names = append(names, st.name)
		}
		// targets colliding with another operand's name would couple the files: skip such cases
		for _, st := range fs {
			if st.target != "" && usedNames[st.target] {
				return
			}
		}
		tcount := map[string]int{}
		for _, st := range fs {
			if st.target != "" {
				tcount[st.target]++
			}
		}
		for _, n := range tcount {
			if n > 1 {
				return
			}
		}
		for i, st := range fs {
			os.WriteFile(filepath.Join(dir, st.name), st.input, 0o644)
			os.Chmod(filepath.Join(dir, st.name), st.mode)
			if k.Files[i].Pre && st.target != "" {
				os.WriteFile(filepath.Join(dir, st.target), []byte(preExisting), 0o600)
			}
		}
		argv := buildArgv(k, names)
		run := runCli(bin, dir, argv)
		nt := int64(0)
		if len(k.Files) > 1 || k.Exit != 0 || k.Layout != "first" {
			nt = 1
		}
		c.Count(1, nt)
		numAfterFlag := false
		if len(argv) > 1 {
			for i := 1; i < len(argv); i++ {
				if argv[i] != "" && argv[i][0] >= '0' && argv[i][0] <= '9' && strings.HasPrefix(argv[i-1], "-") && argv[i-1] != "--" && !strings.HasPrefix(argv[i-1], "-F") && argv[i-1] != "--format" {
					numAfterFlag = true
				}
			}
		}
		sig := func(kind string, i int) map[string]string {
			m := map[string]string{"kind": kind, "op": k.Op, "fmt": k.Fmt, "layout": k.Layout, "nfiles": fmt.Sprint(len(k.Files)), "num_after_flag": fmt.Sprint(numAfterFlag)}
			if i >= 0 {
				m["name"] = k.Files[i].Name
				m["content"] = k.Files[i].Content
				m["expect_ok"] = fmt.Sprint(k.Outcomes[i].Ok)
			}
			return m
		}
		listing := func() []string {
			ents, _ := os.ReadDir(dir)
			var l []string
			for _, e := range ents {
				l = append(l, e.Name())
			}
			return l
		}
		replay := map[string]any{"argv": argv, "case": k, "exit": run.exit, "stderr": string(run.stderr), "dir": listing()}
		if (run.exit != 0) != (k.Exit != 0) {
			c.Violation(sig("exit-status", -1), fmt.Sprintf("gxz %q: exit %d, specification predicts %d; stderr: %.200s", argv, run.exit, k.Exit, run.stderr), replay)
			return
		}
		var wantStdout []byte
		stdoutFmt := ""
		expected := map[string]bool{}
		for i, st := range fs {
			oc := k.Outcomes[i]
			inPath := filepath.Join(dir, st.name)
			cur, err := os.ReadFile(inPath)
			inputPresent := err == nil
			wantPresent := !(oc.Ok && oc.RemoveInput)
			if wantPresent {
				expected[st.name] = true
			}
			if inputPresent != wantPresent {
				c.Violation(sig("input-presence", i), fmt.Sprintf("gxz %q: operand %s present=%v, predicted present=%v", argv, st.name, inputPresent, wantPresent), replay)
				return
			}
			if inputPresent && !bytes.Equal(cur, st.input) {
				c.Violation(sig("input-modified", i), fmt.Sprintf("gxz %q: operand %s was modified", argv, st.name), replay)
				return
			}
			switch {
			case oc.Ok && oc.Target == "stdout":
				wantStdout = append(wantStdout, st.plain...)
				stdoutFmt = oc.Fmt
			case oc.Ok:
				expected[st.target] = true
				tb, err := os.ReadFile(filepath.Join(dir, st.target))
				if err != nil {
					c.Violation(sig("target-missing", i), fmt.Sprintf("gxz %q: target %s missing", argv, st.target), replay)
					return
				}
				good := false
				if k.Op == "d" {
					good = bytes.Equal(tb, st.plain)
				} else {
					dec, ok := decodeAny(tb, oc.Fmt)
					good = ok && bytes.Equal(dec, st.input)
				}
				if !good {
					c.Violation(sig("target-content", i), fmt.Sprintf("gxz %q: target %s does not hold the expected content", argv, st.target), replay)
					return
				}
				if fi, err := os.Stat(filepath.Join(dir, st.target)); err == nil && fi.Mode().Perm()&^st.mode != 0 {
					c.Violation(sig("permission-added", i), fmt.Sprintf("gxz %q: target %s has mode %o, input had %o", argv, st.target, fi.Mode().Perm(), st.mode), replay)
					return
				}
			default:
				if st.target != "" {
					tb, err := os.ReadFile(filepath.Join(dir, st.target))
					if k.Files[i].Pre {
						expected[st.target] = true
						if err != nil || string(tb) != preExisting {
							c.Violation(sig("existing-target-touched", i), fmt.Sprintf("gxz %q: pre-existing %s was changed although the file must be refused", argv, st.target), replay)
							return
						}
					} else if err == nil {
						c.Violation(sig("target-created-on-failure", i), fmt.Sprintf("gxz %q: %s exists although processing the file must fail", argv, st.target), replay)
						return
					}
				}
			}
		}
		for _, n := range listing() {
			if !expected[n] {
				c.Violation(sig("unexpected-file", -1), fmt.Sprintf("gxz %q: unexpected file %q in the directory", argv, n), replay)
				return
			}
		}
		hasC := false
		for _, f := range k.Flags {
			if f == "c" {
				hasC = true
			}
		}
		if hasC {
			got := run.stdout
			if k.Op != "d" && len(got) > 0 {
				dec, ok := decodeAny(got, stdoutFmt)
				if !ok {
					c.Violation(sig("stdout-content", -1), fmt.Sprintf("gxz %q: standard output is not a valid %s stream", argv, stdoutFmt), replay)
					return
				}
				got = dec
			}
			if !bytes.Equal(got, wantStdout) {
				c.Violation(sig("stdout-content", -1), fmt.Sprintf("gxz %q: standard output carries %d bytes of content, expected %d", argv, len(got), len(wantStdout)), replay)
			}
		} else if len(run.stdout) != 0 {
			c.Violation(sig("stdout-noise", -1), fmt.Sprintf("gxz %q: %d bytes on standard output without -c", argv, len(run.stdout)), replay)
		}
		if ci%400 == 0 {
			c.Sample(map[string]any{"argv": argv, "predicted_exit": k.Exit, "outcomes": k.Outcomes})
		}
	})
	// process-level behaviour (GxzMain): personalities, information options, standard input, special operands
	c15Main(c, bin)
	// the header predicates gxz detects formats with (Sniff.tla)
	sniffTable(c)
	// stale temporary files and an unwritable standard output
	gxzStaleTemp(c, bin)
	gxzFullStdout(c, bin)
	// plain regular files of every content class and preset are compressed to valid files and restored
	gxzContentFamily(c, bin, "C15")
	gxzOperandEdgeCases(c, bin)
	// preset round trips and xz-utils interoperability
	plain := MakeData("alternating", 60000, c.Seed)
	// "-0 ... -9 compression preset; default is 6": no preset option and -6 give the same bytes
	for _, format := range []string{"xz", "lzma"} {
		dir, _ := os.MkdirTemp(c.Scratch, "dflt")
		os.WriteFile(filepath.Join(dir, "d.bin"), plain, 0o644)
		a := runCli(bin, dir, []string{"-c", "-F", format, "d.bin"})
		b := runCli(bin, dir, []string{"-c", "-6", "-F", format, "d.bin"})
		c.Count(2, 1)
		if a.exit != 0 || b.exit != 0 || !bytes.Equal(a.stdout, b.stdout) {
			c.Violation(map[string]string{"kind": "default-preset", "fmt": format}, fmt.Sprintf("gxz -c (%s) and gxz -6 -c differ: exit %d/%d, %d vs %d bytes", format, a.exit, b.exit, len(a.stdout), len(b.stdout)), map[string]any{"format": format})
		}
		os.RemoveAll(dir)
	}
	for _, format := range []string{"xz", "lzma"} {
		for preset := 0; preset <= 9; preset++ {
			dir, _ := os.MkdirTemp(c.Scratch, "rt")
			name := "round trip.bin"
			mode := []os.FileMode{0o640, 0o444, 0o600}[preset%3]
			os.WriteFile(filepath.Join(dir, name), plain, 0o644)
			os.Chmod(filepath.Join(dir, name), mode)
			args := []string{fmt.Sprintf("-%d", preset)}
			if format == "lzma" {
				args = append(args, "-F", "lzma")
			}
			r1 := runCli(bin, dir, append(args, name))
			comp, err := os.ReadFile(filepath.Join(dir, name+"."+format))
			sig := map[string]string{"kind": "roundtrip", "fmt": format, "preset": fmt.Sprint(preset)}
			c.Count(1, 1)
			if r1.exit != 0 || err != nil {
				c.Violation(sig, fmt.Sprintf("gxz -%d (%s) failed: exit %d %s", preset, format, r1.exit, r1.stderr), map[string]any{"argv": r1.argv})
				os.RemoveAll(dir)
				continue
			}
			if haveXz == nil {
				out, e, _ := xzUtilsDecode(dir, [][]byte{comp}, "--format="+format)
				if e != nil || !bytes.Equal(out, plain) {
					sig["kind"] = "xz-utils-rejects-gxz-output"
					c.Violation(sig, fmt.Sprintf("xz-utils cannot decode what gxz -%d wrote (%s): %v", preset, format, e), map[string]any{"argv": r1.argv})
				}
			}
			r2 := runCli(bin, dir, []string{"-d", name + "." + format})
			back, err := os.ReadFile(filepath.Join(dir, name))
			fi, _ := os.Stat(filepath.Join(dir, name))
			if r2.exit != 0 || err != nil || !bytes.Equal(back, plain) {
				c.Violation(sig, fmt.Sprintf("gxz -d after gxz -%d (%s): exit %d, content restored=%v", preset, format, r2.exit, bytes.Equal(back, plain)), map[string]any{"argv": r2.argv, "stderr": string(r2.stderr)})
			} else if fi.Mode().Perm()&^mode != 0 {
				sig["kind"] = "permission-added"
				c.Violation(sig, fmt.Sprintf("round trip with preset %d (%s): restored file has mode %o, original %o", preset, format, fi.Mode().Perm(), mode), map[string]any{"argv": r2.argv})
			}
			if _, err := os.Stat(filepath.Join(dir, name+"."+format)); err == nil {
				sig["kind"] = "input-presence"
				c.Violation(sig, "gxz -d did not remove the compressed file", map[string]any{"argv": r2.argv})
			}
			os.RemoveAll(dir)
		}
	}
}
