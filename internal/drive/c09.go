package drive

import (
	"bytes"
	"encoding/json"
	"errors"
	"fmt"
	"io"
	"math/rand"
	"sync"

	"github.com/ulikunitz/xz"
	"github.com/ulikunitz/xz/lzma"
	"time"
	"verif/internal/hx"
	"verif/internal/ref"
	"verif/internal/tlc"
)

func init() { Checks["C09"] = C09 }

type faultPlan struct {
	K       int  `json:"k"`
	Forever bool `json:"forever"`
	Partial bool `json:"partial"`
	Full    bool `json:"full"` // the failing Write accepts every byte and still reports the error
}

// wcl is the common interface of the three writers.
type wcl interface {
	Write([]byte) (int, error)
	Close() error
}

type faultScenario struct {
	name   string
	kind   string // xz | lzma | lzma2
	open   func(w io.Writer) (wcl, error)
	hist   []string // W<i> (payload index), F, C
	data   [][]byte
	decode func(sink []byte) ([]byte, bool) // reference decode: content, complete&valid
}

// faultTail: scenarios whose last N sink writes are enumerated exhaustively (fail once, nothing accepted).
var faultTail = map[string]int{"xz-300-blocks": 1300, "xz-many-blocks": 1300}

// faultAllByteWrites: scenarios whose every sink call is a fault point also when the sink is an
// io.ByteWriter (one call per compressed byte: the range coder's pending-byte runs included).
var faultAllByteWrites = map[string]bool{"lzma-text-bytewise": true, "lzma2-text-bytewise": true}

func faultScenarios(seed int64, thorough bool) []faultScenario {
	var out []faultScenario
	text := MakeData("text", 900, seed)
	rnd := MakeData("random", 700, seed+1)
	decXZ := func(s []byte) ([]byte, bool) {
		r := ref.DecodeXZ(s, ref.XZOpts{})
		return r.Content, r.Err == nil
	}
	decL2 := func(s []byte) ([]byte, bool) {
		r := ref.DecodeLZMA2(s, ref.L2Opts{})
		return r.Out, r.Err == nil && r.Ended && r.Consumed == len(s)
	}
	decA := func(s []byte) ([]byte, bool) {
		r := ref.DecodeAlone(s, false)
		return r.Out, r.Err == nil && r.Consumed == len(s)
	}
	xzOpen := func(g XZCfg) func(io.Writer) (wcl, error) {
		return func(w io.Writer) (wcl, error) { return g.lib().NewWriter(w) }
	}
	out = append(out,
		faultScenario{"xz-1blk", "xz", xzOpen(XZCfg{LC: 3, PB: 2, DictCap: 4096, BufSize: 4096, Check: 4}), []string{"W0", "C"}, [][]byte{text}, decXZ},
		faultScenario{"xz-multiblock", "xz", xzOpen(XZCfg{LC: 3, PB: 2, DictCap: 4096, BufSize: 273, Check: 1, BlockSize: 300}), []string{"W0", "W1", "C", "C"}, [][]byte{text, rnd}, decXZ},
		faultScenario{"xz-empty-writes", "xz", xzOpen(XZCfg{LC: 0, LP: 2, PB: 1, DictCap: 4096, BufSize: 4096, Check: 10, Matcher: 1, BlockSize: 1000}), []string{"W2", "W0", "W2", "C", "W1"}, [][]byte{text, rnd, {}}, decXZ},
		faultScenario{"xz-incompressible-multichunk", "xz", xzOpen(XZCfg{LC: 3, PB: 2, DictCap: 4096, BufSize: 4096, Check: -1}), []string{"W0", "C"}, [][]byte{MakeData("random", 140000, seed+2)}, decXZ},
	)
	out = append(out, faultScenario{"xz-raw-wrapped-ring", "xz", xzOpen(XZCfg{LC: 3, PB: 2, DictCap: 65536, BufSize: 4096, Check: 4}), []string{"W0", "C"}, [][]byte{MakeData("random", 230000, seed+7)}, decXZ})
	// 300 blocks: the index alone is several hundred bytes, written at the very end
	// more blocks than fit into any fixed-size piece of index the writer might assemble (700 / 1500
	// records of two bytes)
	faultTail["xz-many-blocks"] = map[bool]int{false: 5600, true: 12000}[thorough]/8 + 100 // the whole index, the footer and the last blocks
	out = append(out, faultScenario{"xz-many-blocks", "xz", xzOpen(XZCfg{LC: 3, PB: 2, DictCap: 4096, BufSize: 4096, Check: 0, BlockSize: 8}), []string{"W0", "C"}, [][]byte{MakeData("text", map[bool]int{false: 5600, true: 12000}[thorough], seed+9)}, decXZ})
	out = append(out, faultScenario{"xz-300-blocks", "xz", xzOpen(XZCfg{LC: 3, PB: 2, DictCap: 4096, BufSize: 4096, Check: 1, BlockSize: 8}), []string{"W0", "C"}, [][]byte{MakeData("text", 2400, seed+8)}, decXZ})
	l2Open := func(g W2Cfg) func(io.Writer) (wcl, error) {
		return func(w io.Writer) (wcl, error) { return g.lib().NewWriter2(w) }
	}
	out = append(out,
		faultScenario{"lzma2-flushes", "lzma2", l2Open(W2Cfg{3, 0, 2, 4096, 4096, 0}), []string{"W0", "F", "W1", "F", "F", "W0", "C", "C"}, [][]byte{text, rnd}, decL2},
		faultScenario{"lzma2-multichunk", "lzma2", l2Open(W2Cfg{3, 0, 2, 4096, 273, 1}), []string{"W0", "W1", "C"}, [][]byte{MakeData("random", 70000, seed+3), text}, decL2},
		// incompressible data longer than dictionary + look-ahead: raw chunks are copied out of the
		// encoder's ring buffer in two segments once it has wrapped (one sink write per segment)
		faultScenario{"lzma2-raw-wrapped-ring", "lzma2", l2Open(W2Cfg{3, 0, 2, 65536, 4096, 0}), []string{"W0", "F", "W1", "F", "W0", "F", "W1", "C"}, [][]byte{MakeData("random", 50000, seed+5), MakeData("random", 41000, seed+6)}, decL2},
		faultScenario{"lzma2-close-only", "lzma2", l2Open(W2Cfg{3, 0, 2, 4096, 4096, 0}), []string{"W0", "C"}, [][]byte{text}, decL2},
	)
	aOpen := func(g AloneCfg) func(io.Writer) (wcl, error) {
		return func(w io.Writer) (wcl, error) { return g.lib().NewWriter(w) }
	}
	out = append(out,
		faultScenario{"lzma-marker", "lzma", aOpen(AloneCfg{LC: 3, PB: 2, DictCap: 4096, BufSize: 4096}), []string{"W0", "W1", "C"}, [][]byte{text, rnd}, decA},
		faultScenario{"lzma-size-big", "lzma", aOpen(AloneCfg{LC: 3, PB: 2, DictCap: 4096, BufSize: 273, Matcher: 1, Sih: true, Size: 20000}), []string{"W0", "C"}, [][]byte{MakeData("random", 20000, seed+4)}, decA},
	)
	out = append(out, faultScenario{"lzma-text-bytewise", "lzma", aOpen(AloneCfg{LC: 3, PB: 2, DictCap: 4096, BufSize: 4096}), []string{"W0", "C"}, [][]byte{MakeData("text", 3000, seed+10)}, decA})
	out = append(out, faultScenario{"lzma2-text-bytewise", "lzma2", l2Open(W2Cfg{3, 0, 2, 4096, 4096, 0}), []string{"W0", "F", "W0", "C"}, [][]byte{MakeData("text", 2000, seed+11)}, decL2})
	if thorough {
		// a dozen further scenarios with configurations and inputs drawn from the boundary sets
		r := rand.New(rand.NewSource(seed * 7))
		for k := 0; k < 12; k++ {
			data := MakeData([]string{"alternating", "nearrandom", "text", "lowentropy"}[k%4], 20000+r.Intn(50000), seed+int64(k)+40)
			half := len(data) / 2
			switch k % 3 {
			case 0:
				g := xzConfig(r, false)
				if g.BlockSize > 0 && g.BlockSize < 2000 {
					g.BlockSize = 5000
				}
				out = append(out, faultScenario{fmt.Sprintf("xz-random-%d-%s", k, g.String()), "xz", xzOpen(g), []string{"W0", "W1", "C"}, [][]byte{data[:half], data[half:]}, decXZ})
			case 1:
				g := w2Configs(r, false)[r.Intn(12)]
				out = append(out, faultScenario{fmt.Sprintf("lzma2-random-%d-%s", k, g.String()), "lzma2", l2Open(g), []string{"W0", "F", "W1", "F", "C"}, [][]byte{data[:half], data[half:]}, decL2})
			default:
				g := AloneCfg{LC: r.Intn(9), LP: r.Intn(5), PB: r.Intn(5), DictCap: []int{4096, 5000, 65536}[r.Intn(3)], BufSize: []int{273, 4096}[r.Intn(2)], Matcher: r.Intn(2), Eos: k%2 == 0}
				out = append(out, faultScenario{fmt.Sprintf("lzma-random-%d", k), "lzma", aOpen(g), []string{"W0", "W1", "C"}, [][]byte{data[:half], data[half:]}, decA})
			}
		}
	}
	return out
}

// onlyWriter hides every optional interface of the sink (e.g. io.ByteWriter).
type onlyWriter struct{ w io.Writer }

func (o onlyWriter) Write(p []byte) (int, error) { return o.w.Write(p) }

type byteSink struct{ *RecSink }

func (b byteSink) WriteByte(c byte) error {
	_, err := b.RecSink.Write([]byte{c})
	return err
}

// runFault replays a scenario with a fault plan; k = 0 means no fault.
func runFault(sc faultScenario, plan faultPlan, asByteWriter bool, tr *bytes.Buffer) (calls []callRec, sink *RecSink, written []byte, panicked any) {
	sink = &RecSink{FailAt: plan.K, Forever: plan.Forever, Partial: plan.Partial, Full: plan.Full, Err: errSinkFault}
	var target io.Writer = onlyWriter{sink}
	if asByteWriter {
		target = byteSink{sink}
	}
	var w wcl
	var err error
	if p := safely(func() { w, err = sc.open(target) }); p != nil {
		return nil, sink, nil, p
	}
	calls = append(calls, callRec{Ev: "New", Err: errClass(err, nil)})
	if err != nil {
		return calls, sink, nil, nil
	}
	for _, tok := range sc.hist {
		rec := callRec{}
		var e error
		var p any
		switch {
		case tok == "C":
			rec.Ev = "Close"
			p = safely(func() { e = w.Close() })
		case tok == "F":
			rec.Ev = "Flush"
			f, ok := w.(interface{ Flush() error })
			if !ok {
				continue
			}
			p = safely(func() { e = f.Flush() })
		default:
			rec.Ev = "Write"
			d := sc.data[int(tok[1]-'0')]
			var n int
			p = safely(func() { n, e = w.Write(d) })
			rec.N, rec.Ret = len(d), n
			if p == nil && e == nil {
				written = append(written, d...)
			}
		}
		rec.Err = errClass(e, p)
		if e != nil {
			rec.errText = e.Error()
		}
		calls = append(calls, rec)
		if p != nil {
			panicked = p
			break
		}
	}
	return calls, sink, written, panicked
}

// errSource returns a distinctive error after k bytes.
type errSource struct {
	data     []byte
	pos, k   int
	together bool
	err      error
	// delivered: the error has been returned to the caller at least once
	delivered bool
}

func (s *errSource) Read(p []byte) (int, error) {
	if len(p) == 0 {
		return 0, nil
	}
	if s.pos >= s.k {
		s.delivered = true
		return 0, s.err
	}
	n := copy(p, s.data[s.pos:s.k])
	s.pos += n
	if s.together && s.pos == s.k {
		s.delivered = true
		return n, s.err
	}
	return n, nil
}

var errSourceFault = errors.New("verif: injected source fault")

// C09: I/O failures are never masked.
func C09(c *hx.Ctx) {
	c.Rule = "writer side: for each scenario (xz/lzma/lzma2 x configurations incl. multi-block and multi-chunk x call histories incl. Flush, redundant Close, Write after Close) a fault-free dry run counts the sink writes M; every plan (k in 1..M) x {once, forever} x {no partial, partial write} from the TLC-generated plan set is replayed (sink as plain io.Writer and as io.ByteWriter); reader side: every valid base stream x every source offset k x {error alone, error together with the last bytes}; recorded fault runs validated by TLC (TraceIo/FaultContract); non-trivial = fault index at which at least one later call is made; the failing write accepts none, half or all of its bytes; scenarios include raw chunks copied from a wrapped ring"
	c.Assumptions = []string{"TLC (IoContract.FaultContract, IoGen plans)", "reference decoders judge 'complete valid stream'"}
	c.Exhaustive = true
	c.Level = "fault_enumeration"
	cfg := "SPECIFICATION GSpec\nCONSTANTS Lens = {1}\n SchedLen = 1\n MaxK = 96\n N0 = 1\nINVARIANTS PrefixDelivered EndedMeansAll\nCHECK_DEADLOCK FALSE\n"
	g := c.TLC(tlc.Opts{Module: "IoGen", Cfg: "gen.cfg", Files: map[string][]byte{"gen.cfg": []byte(cfg)}, Timeout: 5 * time.Minute, Xss: "64m"})
	var plans []faultPlan
	for _, p := range g.Printed {
		var m struct {
			Kind  string
			Plans []faultPlan
		}
		if json.Unmarshal([]byte(p), &m) == nil && m.Kind == "plans" {
			plans = m.Plans
		}
	}
	if !g.OK || len(plans) == 0 {
		c.Inconclusive("IoGen produced no fault plans: %s\n%s", g.ErrText, g.Tail(10))
		return
	}
	scs := faultScenarios(c.Seed, c.Thorough())
	type job struct {
		sc   int
		plan faultPlan
		bw   bool
	}
	var jobs []job
	for si, sc := range scs {
		for _, bw := range []bool{false, true} {
			_, sink, _, p := runFault(sc, faultPlan{}, bw, nil)
			if p != nil {
				c.Violation(map[string]string{"side": "writer", "kind": "panic-without-fault", "writer": sc.kind}, fmt.Sprintf("%s: panic without any fault: %v", sc.name, p), map[string]any{"scenario": sc.name})
				continue
			}
			m := sink.Calls
			c.Extra["M_"+sc.name+map[bool]string{true: "_bytewriter", false: ""}[bw]] = m
			for _, pl := range plans {
				if pl.K <= m || (m > 96 && pl.K == 96) {
					jobs = append(jobs, job{si, pl, bw})
				}
			}
			for k := m - faultTail[sc.name]; faultTail[sc.name] > 0 && !bw && k <= m; k++ {
				if k > 96 {
					jobs = append(jobs, job{si, faultPlan{K: k}, bw})
				}
			}
			for k := 97; faultAllByteWrites[sc.name] && bw && k <= m; k++ {
				jobs = append(jobs, job{si, faultPlan{K: k}, bw})
			}
			// sinks with more than 96 writes (byte writers): sample further indices
			for k := 97; k <= m; k += 1 + m/c.Pick(150, 1500) {
				for _, f := range []bool{false, true} {
					jobs = append(jobs, job{si, faultPlan{K: k, Forever: f, Partial: k%3 == 0, Full: k%3 == 1}, bw})
				}
			}
		}
	}
	c.Logf("%d scenarios, %d fault runs", len(scs), len(jobs))
	var mu sync.Mutex
	var tr bytes.Buffer
	traced := 0
	parallel(len(jobs), func(i int) {
		j := jobs[i]
		sc := scs[j.sc]
		calls, sink, written, p := runFault(sc, j.plan, j.bw, nil)
		later := 0
		anyErr := false
		firstErr := -1
		for ci, cl := range calls {
			if cl.Err != "nil" {
				anyErr = true
				if firstErr < 0 {
					firstErr = ci
				}
			}
		}
		if firstErr >= 0 {
			later = len(calls) - 1 - firstErr
		}
		nt := int64(0)
		if later > 0 {
			nt = 1
		}
		c.Count(1, nt)
		lastOp, lastErrOp := "", ""
		if len(calls) > 0 {
			lastOp = calls[len(calls)-1].Ev
		}
		for _, cl := range calls {
			if cl.Err != "nil" && lastErrOp == "" {
				lastErrOp = cl.Ev
			}
		}
		sig := func(kind string) map[string]string {
			return map[string]string{"side": "writer", "kind": kind, "writer": sc.kind, "op": lastOp, "firsterr": lastErrOp}
		}
		replay := map[string]any{"scenario": sc.name, "plan": j.plan, "bytewriter": j.bw, "calls": calls}
		content, valid := sc.decode(sink.Buf.Bytes())
		valid = valid && bytes.Equal(content, written)
		switch {
		case p != nil:
			c.Violation(sig("panic"), fmt.Sprintf("%s fault at sink write %d (forever=%v partial=%v full=%v): %s panicked: %v", sc.name, j.plan.K, j.plan.Forever, j.plan.Partial, j.plan.Full, lastOp, p), replay)
		case sink.Failed && !anyErr:
			c.Violation(sig("failure-masked"), fmt.Sprintf("%s: sink write %d failed (forever=%v partial=%v full=%v) but every call returned nil", sc.name, j.plan.K, j.plan.Forever, j.plan.Partial, j.plan.Full), replay)
		case !anyErr && !valid:
			c.Violation(sig("success-without-valid-stream"), fmt.Sprintf("%s: every call returned nil but the sink does not hold a complete valid stream of the written data", sc.name), replay)
		}
		if i%7 == 0 {
			mu.Lock()
			if traced < c.Pick(3000, 20000) {
				fmt.Fprintf(&tr, `{"ev":"Run"}`+"\n")
				fmt.Fprintf(&tr, `{"ev":"Sink","failed":%v}`+"\n", sink.Failed)
				for _, cl := range calls {
					e := cl.Err
					if e != "nil" && e != "panic" {
						e = "err"
					}
					fmt.Fprintf(&tr, `{"ev":"Call","op":"%s","err":"%s"}`+"\n", cl.Ev, e)
				}
				if p == nil {
					fmt.Fprintf(&tr, `{"ev":"Done","valid":%v}`+"\n", valid)
				}
				traced++
			}
			mu.Unlock()
		}
		if i%4001 == 0 {
			c.Sample(map[string]any{"scenario": sc.name, "plan": j.plan, "calls": calls})
		}
	})
	validateIoTrace(c, tr.Bytes(), traced)
	// reader side
	type rjob struct {
		name, format string
		data         []byte
		k            int
		together     bool
		single       bool // xz only: ReaderConfig.SingleStream
	}
	var rjobs []rjob
	add := func(name, format string, data []byte) {
		step := 1
		if len(data) > 1500 {
			step = len(data) / c.Pick(400, 4000)
		}
		for k := 0; k < len(data); k += step {
			rjobs = append(rjobs, rjob{name, format, data, k, false, false})
			if k > 0 {
				rjobs = append(rjobs, rjob{name, format, data, k, true, false})
			}
		}
		rjobs = append(rjobs, rjob{name, format, data, len(data), true, false})
		// the source hands over every byte of the stream and then fails instead of reporting EOF:
		// whether the reader notices depends on whether it asks for more (multi-stream xz readers
		// and SingleStream's probe do); judged by whether the error was delivered to it
		rjobs = append(rjobs, rjob{name, format, data, len(data), false, false})
		if format == "xz" {
			n := len(rjobs)
			for i := 0; i < n; i++ {
				if j := rjobs[i]; j.name == name && j.format == format && (j.k%3 == 0 || j.k >= len(data)-40) {
					j.single = true
					rjobs = append(rjobs, j)
				}
			}
		}
	}
	for _, b := range baseStreams(c.Seed, false) {
		add(b.Name, "xz", b.Data)
	}
	for _, b := range baseLZMA2(c.Seed) {
		add(b.Name, "lzma2", b.Data)
	}
	for _, b := range baseAlone(c.Seed) {
		add(b.Name, "alone", b.Data)
	}
	c.Logf("%d source-fault runs", len(rjobs))
	parallel(len(rjobs), func(i int) {
		j := rjobs[i]
		src := &errSource{data: j.data, k: j.k, together: j.together, err: errSourceFault}
		c.Count(1, 1)
		var r io.Reader
		var err error
		var out []byte
		p := safely(func() {
			switch j.format {
			case "xz":
				r, err = xz.ReaderConfig{DictCap: 4096, SingleStream: j.single}.NewReader(src)
			case "lzma2":
				r, err = lzma.Reader2Config{DictCap: 4096}.NewReader2(src)
			case "alone":
				r, err = lzma.ReaderConfig{DictCap: 4096}.NewReader(src)
			}
		})
		if p == nil && err == nil {
			out, err, p = readAllSafe(r, 512, 0)
		}
		_ = out
		// a caller that reads again after the failure must not be told that the stream ended
		// cleanly ("never a clean end of stream"); three more Reads
		var laterEOF bool
		if p == nil && err != nil && r != nil && errors.Is(err, errSourceFault) {
			safely(func() {
				buf := make([]byte, 512)
				for k := 0; k < 3 && !laterEOF; k++ {
					n, e := r.Read(buf)
					laterEOF = n == 0 && e == io.EOF
					if n == 0 && e == nil {
						break
					}
				}
			})
		}
		sig := func(kind string) map[string]string {
			m := map[string]string{"side": "reader", "kind": kind, "format": j.format, "together": fmt.Sprint(j.together)}
			if j.single {
				m["single"] = "true"
			}
			if j.k == len(j.data) {
				m["at"] = "end"
			}
			return m
		}
		replay := map[string]any{"stream": j.name, "k": j.k, "together": j.together, "len": len(j.data), "singleStream": j.single}
		atEnd := j.k == len(j.data)
		switch {
		case p != nil:
			c.Violation(sig("panic"), fmt.Sprintf("%s: source fails at offset %d: panic %v", j.name, j.k, p), replay)
		case laterEOF:
			c.Violation(sig("clean-end-after-source-error"), fmt.Sprintf("%s: source fails (for good) at offset %d of %d; the reader reports the error once and a clean end of stream on a later Read", j.name, j.k, len(j.data)), replay)
		case atEnd && !j.together && !src.delivered:
			// the reader never asked for more than the stream: nothing failed from its point of view
			if err != nil {
				c.Violation(sig("error-without-cause"), fmt.Sprintf("%s: complete stream, the source was never asked for more, yet the reader reports %v", j.name, err), replay)
			}
		case err == nil:
			if !(j.together && j.k == len(j.data)) {
				c.Violation(sig("source-error-masked"), fmt.Sprintf("%s: source fails at offset %d of %d (together=%v) but the reader reports a clean end", j.name, j.k, len(j.data), j.together), replay)
			}
		case !errors.Is(err, errSourceFault):
			if !(j.together && j.k == len(j.data)) {
				c.Violation(sig("source-error-replaced"), fmt.Sprintf("%s: source fails at offset %d (together=%v); reader returned a different error: %v", j.name, j.k, j.together, err), replay)
			}
		}
	})
}
