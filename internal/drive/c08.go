package drive

import (
	"bytes"
	"encoding/json"
	"fmt"
	"math/rand"
	"runtime"
	"sync"
	"time"

	"verif/internal/hx"
	"verif/internal/ref"
	"verif/internal/tlc"
)

func init() { Checks["C08"] = C08 }

type histCase struct {
	Hist   []string `json:"hist"`
	Expect []string `json:"expect"`
}

// genHistories asks TLC (module CallHist) for all call histories within the
// bounds of the given configuration text.
func genHistories(c *hx.Ctx, tokens string, maxLen, budget, afterClose int) []histCase {
	mc := fmt.Sprintf("---- MODULE CallHistMC ----\nEXTENDS CallHist\nTokensDef == %s\n====\n", tokens)
	cfg := fmt.Sprintf("SPECIFICATION Spec\nCONSTANTS Tokens <- TokensDef\n MaxLen = %d\n Budget = %d\n AfterClose = %d\nINVARIANTS Emit ClosedIsSticky\nCHECK_DEADLOCK FALSE\n", maxLen, budget, afterClose)
	r := c.TLC(tlc.Opts{Module: "CallHistMC", Cfg: "gen.cfg", Files: map[string][]byte{"gen.cfg": []byte(cfg), "CallHistMC.tla": []byte(mc)}, Timeout: 5 * time.Minute, Xss: "64m"})
	if !r.OK {
		c.Inconclusive("CallHist generation failed: %s %s\n%s", r.Violation, r.ErrText, r.Tail(15))
		return nil
	}
	seen := map[string]bool{}
	var out []histCase
	for _, p := range r.Printed {
		if seen[p] {
			continue
		}
		seen[p] = true
		var h histCase
		if json.Unmarshal([]byte(p), &h) == nil && len(h.Hist) > 0 {
			out = append(out, h)
		}
	}
	return out
}

// tokenSet renders a TLA+ set of [t, w] records.
func tokenSet(toks map[string]int) string {
	var b bytes.Buffer
	b.WriteString("{")
	first := true
	for _, t := range sortedKeys(toks) {
		if !first {
			b.WriteString(", ")
		}
		first = false
		fmt.Fprintf(&b, `[t |-> "%s", w |-> %d]`, t, toks[t])
	}
	b.WriteString("}")
	return b.String()
}

func w2Configs(r *rand.Rand, thorough bool) []W2Cfg {
	cfgs := []W2Cfg{
		{3, 0, 2, 4096, 273, 0}, {3, 0, 2, 4096, 4096, 1}, {0, 0, 0, 65536, 4096, 0}, {4, 0, 4, 65536, 273, 1},
		{0, 4, 0, 1 << 20, 274, 0}, {2, 2, 1, 1 << 20, 65536, 1}, {3, 0, 2, 4097, 273, 1}, {1, 3, 3, 65536 - 273, 4096, 0},
		// dictionary below the 64 KiB chunk limit with a look-ahead that lifts the ring above it: a
		// chunk may end while part of it has already left the dictionary
		{3, 0, 2, 32768, 49152, 0}, {3, 0, 2, 49152, 32768, 1}, {0, 0, 0, 60000, 8192, 0}, {3, 0, 2, 16384, 65536, 0},
	}
	if thorough {
		cfgs = append(cfgs, W2Cfg{3, 0, 2, 8 << 20, 4096, 0}, W2Cfg{3, 0, 2, 8 << 20, 4096, 1}, W2Cfg{0, 0, 4, 4096, 65536, 0}, W2Cfg{4, 0, 0, 3 << 19, 300, 1})
	}
	return cfgs
}

// parallel runs f(i) for i in 0..n-1 on all cores.
func parallel(n int, f func(i int)) {
	var wg sync.WaitGroup
	ch := make(chan int, 256)
	for w := 0; w < runtime.NumCPU(); w++ {
		wg.Add(1)
		go func() {
			defer wg.Done()
			for i := range ch {
				f(i)
			}
		}()
	}
	for i := 0; i < n; i++ {
		ch <- i
	}
	close(ch)
	wg.Wait()
}

// validateW2Traces sends the recorded call histories to TLC (TraceLzma2Writer).
func validateW2Traces(c *hx.Ctx, tr []byte, ncases int) {
	if len(tr) == 0 {
		return
	}
	r := c.TLC(tlc.Opts{Module: "TraceLzma2Writer", Cfg: "TraceLzma2Writer.cfg", Files: map[string][]byte{"trace.ndjson": tr}, Timeout: 10 * time.Minute, Xss: "256m"})
	if r.OK {
		c.Traces += int64(ncases)
		return
	}
	depth := -1
	for _, p := range r.Printed {
		var m struct {
			Kind  string
			Depth int
			Len   int
		}
		if json.Unmarshal([]byte(p), &m) == nil && m.Kind == "depth" {
			depth = m.Depth
		}
	}
	lines := bytes.Split(tr, []byte("\n"))
	bad := ""
	if depth >= 1 && depth <= len(lines) {
		bad = string(lines[depth-1])
	}
	if c.Violations() == 0 {
		// The driver's own oracle saw nothing wrong on the observables but the
		// specification rejects the trace: harness/spec disagreement, not a verdict.
		c.Inconclusive("TLC rejects a recorded Writer2 trace at line %d (%s %s) that the driver's observable oracle accepted: %.300s\n%s", depth, r.Violation, r.ErrText, bad, r.Tail(6))
	} else {
		c.Logf("TLC rejects the recorded trace at line %d (consistent with reported violations): %.200s", depth, bad)
	}
}

// C08: LZMA2 writer, any call history; Flush yields a decodable prefix.
func C08(c *hx.Ctx) {
	c.Rule = "call histories over {Write(class),Flush,Close} generated exhaustively by TLC (CallHist) up to the length bound, crossed with Writer2Config boundary values; each replayed on the real Writer2, judged on sink bytes (ref + Reader2) after every Flush/Close and validated as a trace by TLC; non-trivial = history with a Flush after data or more than two chunks; plus configurations with a ring above and a dictionary below the 64 KiB chunk limit, near-incompressible payloads, caller-owned configuration overwritten after NewWriter2, alternating sink kinds, TLC validation (TraceLzma) of the operations of sampled emitted streams"
	c.Assumptions = []string{"TLC", "ref LZMA2 decoder (independent of /repo)", "chunk attribution to calls by sink offsets"}
	c.DesignCheck(tlc.Opts{Module: "Lzma2Writer", Cfg: "Lzma2Writer_mc.cfg", Timeout: 3 * time.Minute}, []string{"BeginWrite", "BeginFlush", "BeginClose", "EmitChunk", "EndWrite", "EndFlush", "EndClose"})
	configTable(c, "lzma2")
	lemmaBroken := marginLemma(c)
	small := map[string]int{"W0": 0, "W1": 0, "W273": 0, "W4Kz": 0, "F": 0, "C": 0}
	big := map[string]int{"W0": 0, "W1": 0, "W4K": 0, "W70Kr": 2, "W70Kt": 2, "W140Kn": 2, "W80Krr": 2, "W2M": 3, "W5Mrz": 3, "F": 0, "C": 0}
	hs := genHistories(c, tokenSet(small), c.Pick(5, 6), 0, 2)
	hb := genHistories(c, tokenSet(big), c.Pick(5, 6), c.Pick(3, 5), 1)
	if len(hs) == 0 || len(hb) == 0 {
		return
	}
	r := rand.New(rand.NewSource(c.Seed))
	cfgs := w2Configs(r, c.Thorough())
	type job struct {
		g W2Cfg
		h histCase
		s int64
	}
	var jobs []job
	// every small history with two configs (rotating), big histories sampled
	for i, h := range hs {
		jobs = append(jobs, job{cfgs[i%len(cfgs)], h, c.Seed + int64(i)})
		jobs = append(jobs, job{cfgs[(i*7+3)%len(cfgs)], h, c.Seed + int64(i) + 1000003})
	}
	nb := c.Pick(600, 6000)
	r.Shuffle(len(hb), func(i, j int) { hb[i], hb[j] = hb[j], hb[i] })
	for i := 0; i < nb && i < len(hb); i++ {
		jobs = append(jobs, job{cfgs[r.Intn(len(cfgs))], hb[i], c.Seed + int64(i)*31})
	}
	// marginally compressible data at every alphabet size of the sensitive band, with a Flush in the middle
	for _, h := range hb {
		if len(h.Hist) == 4 && h.Hist[0] == "W140Kn" && h.Hist[1] == "F" && h.Hist[2] == "W140Kn" && h.Hist[3] == "C" {
			for k := 0; k < 10; k++ {
				jobs = append(jobs, job{cfgs[[]int{2, 4}[k%2]], h, c.Seed + int64(k)})
			}
			break
		}
	}
	// bulk noise: many chunks that end at the compressed-size limit and are stored raw (rare
	// coincidences between the operation pending at the limit and the rolled-back coder state)
	for k := 0; k < c.Pick(16, 64); k++ {
		jobs = append(jobs, job{cfgs[[]int{2, 4, 5}[k%3]], histCase{Hist: []string{"W4Mr", "C"}, Expect: []string{"ok", "ok"}}, c.Seed + 7000 + int64(k)})
	}
	// distance ladder: a repeat in every distance slot up to a 32 MiB dictionary, with a Flush between
	// the two halves (the second half's matches reach back across the flushed prefix); runs cut at the
	// maximum match length for every configuration
	jobs = append(jobs, job{W2Cfg{3, 0, 2, 1 << 25, 4096, 0}, histCase{Hist: []string{"WLad32M", "F", "W4K", "C"}, Expect: []string{"ok", "ok", "ok", "ok"}}, c.Seed + 8000})
	jobs = append(jobs, job{W2Cfg{3, 0, 2, 1 << 24, 4096, 0}, histCase{Hist: []string{"W4K", "F", "WLad16M", "C"}, Expect: []string{"ok", "ok", "ok", "ok"}}, c.Seed + 8001})
	jobs = append(jobs, job{W2Cfg{0, 2, 0, 65536, 4096, 1}, histCase{Hist: []string{"WLad64Kt", "F", "WLad64Kt", "C"}, Expect: []string{"ok", "ok", "ok", "ok"}}, c.Seed + 8002})
	for k, g := range cfgs {
		jobs = append(jobs, job{g, histCase{Hist: []string{"WMaxRuns", "F", "WMaxRuns", "C"}, Expect: []string{"ok", "ok", "ok", "ok"}}, c.Seed + 8100 + int64(k)})
	}
	// end-of-chunk margin (margin.go): a maximally expensive match placed where 11..40 bytes of the
	// chunk are left; the window of filler lengths is wider than the one that failed originally
	for nF := 73525; nF <= 73545; nF += c.Pick(2, 1) {
		jobs = append(jobs, job{W2Cfg{3, 0, 2, 8 << 20, 4096, 0}, histCase{Hist: []string{"WmR", "F", "WmT", "F", "WmF", "F", "C"}, Expect: []string{"ok", "ok", "ok", "ok", "ok", "ok", "ok"}}, int64(nF)})
	}
	c.Logf("%d small histories, %d big histories, %d jobs", len(hs), len(hb), len(jobs))
	var mu sync.Mutex
	var tr bytes.Buffer
	traced := 0
	ops := &opsBatch{} // operation-level traces of what the real writer emitted, for TraceLzma
	parallel(len(jobs), func(i int) {
		j := jobs[i]
		var local bytes.Buffer
		res := runW2(c, "C08", j.g, j.h.Hist, j.h.Expect, j.s, &local)
		if n := len(res.Written); n > 0 && n <= 20000 && len(res.Sink) > 0 {
			// every operation the encoder chose must be enabled in Lzma.tla with the window bounded
			// by the configured dictionary capacity, and must reproduce the written bytes
			rr := ref.DecodeLZMA2(res.Sink, ref.L2Opts{DictSize: int64(j.g.DictCap), WantOps: true})
			if rr.Err == nil && rr.Ended && bytes.Equal(rr.Out, res.Written) {
				mu.Lock()
				if ops.lines < c.Pick(120000, 600000) {
					ops.addL2(fmt.Sprintf("w2 job %d cfg %s hist %v", i, j.g.String(), j.h.Hist), int64(j.g.DictCap), rr)
				}
				mu.Unlock()
			}
		}
		nt := int64(0)
		if res.NonTriv {
			nt = 1
		}
		c.Count(1, nt)
		mu.Lock()
		if traced < c.Pick(4000, 20000) {
			tr.Write(local.Bytes())
			traced++
		}
		mu.Unlock()
		if i%997 == 0 {
			c.Sample(map[string]any{"cfg": j.g.String(), "hist": j.h.Hist, "chunks": res.NChunks, "sink": len(res.Sink), "written": len(res.Written)})
		}
	})
	validateW2Traces(c, tr.Bytes(), traced)
	if tag, line, ok := ops.validate(c); ok && tag != "" {
		if c.Violations() == 0 {
			c.Inconclusive("TLC (TraceLzma) rejects the operations of a stream the real writer emitted and the reference decoder accepted, at line %d: %s", line, tag)
		} else {
			c.Logf("TraceLzma rejects an emitted stream at line %d (%s), consistent with the reported violations", line, tag)
		}
	}
	c.Extra["op_traces_validated"] = ops.cases
	// Verdicts come from behaviour: a broken design lemma alone is "not shown safe" (exit 2); together
	// with failing calls of the real writer (the margin families above) it is the explanation.
	if lemmaBroken != "" {
		if c.Violations() > 0 {
			c.Violation(map[string]string{"kind": "chunk-margin-too-small", "writer": "lzma2"}, lemmaBroken, map[string]any{"how": "lzma/export_verif.go constants judged by spec/OpCost.tla"})
		} else {
			c.Inconclusive("%s - but no call of the real writer failed on the inputs tried", lemmaBroken)
		}
	}
}

// marginLemma binds OpCost.tla to the code: the encoder's end-of-chunk margin and probability
// model constants are read through the verif-tagged export of /repo, TLC decides whether the
// margin covers the most expensive operation plus what closing the range encoder needs.
func marginLemma(c *hx.Ctx) (broken string) {
	margin, probBits, moveBits, ok := encoderConsts()
	if !ok {
		c.Logf("OpCost lemma not bound: no verif-tagged export in the tree under judgement")
		return ""
	}
	cfg := fmt.Sprintf("SPECIFICATION Spec\nCONSTANTS Margin = %d\n ProbBits = %d\n MoveBits = %d\nCHECK_DEADLOCK FALSE\n", margin, probBits, moveBits)
	r := c.TLC(tlc.Opts{Module: "OpCost", Cfg: "m.cfg", Files: map[string][]byte{"m.cfg": []byte(cfg)}, Timeout: 2 * time.Minute})
	var m struct {
		Kind         string
		Margin, Need int
		Ok           bool
	}
	for _, p := range r.Printed {
		if json.Unmarshal([]byte(p), &m) == nil && m.Kind == "opcost" {
			break
		}
	}
	if !r.OK || m.Kind != "opcost" {
		c.Inconclusive("OpCost lemma not evaluated: %s %s\n%s", r.Violation, r.ErrText, r.Tail(8))
		return ""
	}
	c.Count(1, 1)
	c.Extra["opcost_lemma"] = map[string]any{"margin": m.Margin, "need": m.Need, "ok": m.Ok, "probBits": probBits, "moveBits": moveBits}
	if !m.Ok {
		return fmt.Sprintf("the encoder reserves %d bytes before an operation, but the most expensive operation plus closing the range encoder needs %d (OpCost.tla): inputs exist on which Flush/Close fail with 'limit reached' and the chunk's data is lost", m.Margin, m.Need)
	}
	return ""
}
