// Package drive holds one driver per property. A driver realises the cases
// TLC generates on the real code built from /repo, records what the real
// code does as traces for TLC to validate, and reports through hx.Ctx.
package drive

import "verif/internal/hx"

// Checks maps property ids to their drivers.
var Checks = map[string]func(*hx.Ctx){}
