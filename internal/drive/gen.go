package drive

import (
	"bytes"
	"encoding/hex"
	"fmt"
	"io"
	"math/rand"
	"sort"
	"strings"
	"time"
)

// DataClass names a family of plaintexts; Make realises one member.
var DataClasses = []string{"empty", "one", "zeros", "zeroprefix", "run", "random", "text", "periodic", "xx", "alternating", "sparse", "ramp", "nearrandom", "lowentropy", "randomrepeats", "farrepeat", "maxlenruns"}

// MakeData builds a plaintext of roughly n bytes from a class and a seed.
func MakeData(class string, n int, seed int64) []byte {
	r := rand.New(rand.NewSource(seed*7919 + int64(len(class))*104729 + int64(n)))
	switch class {
	case "empty":
		return nil
	case "one":
		return []byte{byte(r.Intn(256))}
	case "zeros":
		return make([]byte, n)
	case "zeroprefix":
		b := make([]byte, n)
		z := 1 + r.Intn(9)
		if z > n {
			z = n
		}
		fillText(r, b[z:])
		return b
	case "run":
		return bytes.Repeat([]byte{byte(1 + r.Intn(255))}, n)
	case "random":
		b := make([]byte, n)
		r.Read(b)
		return b
	case "text":
		b := make([]byte, n)
		fillText(r, b)
		return b
	case "periodic":
		p := 1 + r.Intn(700)
		unit := make([]byte, p)
		r.Read(unit)
		b := make([]byte, n)
		for i := range b {
			b[i] = unit[i%p]
		}
		return b
	case "xx":
		h := make([]byte, n/2)
		r.Read(h)
		return append(append([]byte{}, h...), h...)
	case "alternating":
		b := make([]byte, 0, n)
		for len(b) < n {
			k := 1 + r.Intn(5000)
			seg := make([]byte, k)
			if r.Intn(2) == 0 {
				r.Read(seg)
			} else {
				fillText(r, seg)
			}
			b = append(b, seg...)
		}
		return b[:n]
	case "sparse":
		b := make([]byte, n)
		for i := 0; i < n/50+1 && n > 0; i++ {
			b[r.Intn(n)] = byte(r.Intn(256))
		}
		return b
	case "nearrandom":
		// uniform over an alphabet of 222..240 byte values: compresses to 97-100 % of its
		// length, i.e. right at the writer's "store this chunk raw" decision
		a := 222 + 2*int((seed%10+10)%10) // 222..240, cycling with the seed so that neighbouring cases cover the range
		perm := r.Perm(256)
		b := make([]byte, n)
		for i := range b {
			b[i] = byte(perm[r.Intn(a)])
		}
		return b
	case "farrepeat":
		// 300 random bytes, zeros, the same 300 bytes again: one repeat at distance exactly n-300
		b := make([]byte, n)
		if n >= 600 {
			r.Read(b[:300])
			for i := 0; i < 300; i++ {
				b[i] |= 1 // no zero bytes inside X: it cannot match the filler
			}
			copy(b[n-300:], b[:300])
		}
		return b
	case "farcopies":
		// 1 MiB of noise, then nothing but copies of 4..8 bytes taken from random places of the
		// preceding MiB: millions of short matches at large distances, i.e. tens of millions of
		// directly coded distance bits (rare coincidences of the range coder need that volume)
		b := make([]byte, n)
		head := 1 << 20
		if head > n/2 {
			head = n / 2
		}
		r.Read(b[:head])
		for i := head; i < n; {
			l := 4 + r.Intn(5)
			src := i - 1 - r.Intn(head-8)
			if src < 0 {
				src = 0
			}
			for k := 0; k < l && i < n; k++ {
				b[i] = b[src+k]
				i++
			}
		}
		return b
	case "noise200":
		// uniform over 200 byte values: compresses to about 96 % - always kept in compressed form, so
		// nearly n bytes of range-coder output are produced and decoded (carry propagation through
		// runs of pending 0xFF bytes of every length that 1/256^k allows for this volume)
		perm := r.Perm(256)
		b := make([]byte, n)
		r.Read(b)
		for i, x := range b {
			b[i] = byte(perm[int(x)*200>>8])
		}
		return b
	case "maxlenruns":
		// a few literals, then a unit of 1..9 bytes repeated to exactly unit+273+d bytes (d = 0..3):
		// the match is cut at the maximum length and continued by a short repetition or a
		// repetition match of 1..3 bytes, i.e. every "operation directly after a simple match"
		// transition of the state machine (7 -> 11 for the short repetition)
		b := make([]byte, 0, n+600)
		for k := 0; len(b) < n; k++ {
			lit := make([]byte, 3+r.Intn(18))
			r.Read(lit)
			b = append(b, lit...)
			unit := make([]byte, 1+r.Intn(9))
			r.Read(unit)
			if k%5 == 4 {
				unit = make([]byte, 10+r.Intn(300)) // longer periods: other position states
				r.Read(unit)
			}
			if k%3 == 1 {
				// units made of 0x00 / 0xff (and one other byte): the byte that follows the cut match, and
				// the byte it is compared with, are the extreme symbols of the matched-literal coder
				for i := range unit {
					unit[i] = []byte{0x00, 0x00, 0xff, byte(k)}[r.Intn(4)]
				}
				unit[len(unit)-1] = []byte{0x00, 0xff}[k/3%2]
				unit[0] = unit[len(unit)-1]
			}
			total := len(unit) + 273 + (k+int(seed))%4
			if k%7 == 6 {
				total += 273 // two maximal matches in a row, then the tail
			}
			for i := 0; i < total; i++ {
				b = append(b, unit[i%len(unit)])
			}
		}
		return b[:n]
	case "ladder", "laddertext":
		return makeLadder(class == "laddertext", n, seed, r)
	case "randomrepeats":
		// incompressible as a whole (stored raw), but with a few embedded repetitions of 20..300
		// bytes: the discarded LZMA encoding of the chunk has used long matches
		b := make([]byte, n)
		r.Read(b)
		for k := 0; k < 3+n/20000; k++ {
			l := 20 + r.Intn(280)
			if n < 2*l+200 {
				break
			}
			src := r.Intn(n - 2*l - 100)
			dst := src + l + r.Intn(n-src-2*l)
			copy(b[dst:dst+l], b[src:src+l])
		}
		return b
	case "lowentropy":
		// runs, period-2 and period-3 patterns and two-symbol noise in segments of 300..3000
		// bytes: the match finders see candidates at every distance, also across the point
		// where the encoder's ring buffer wraps
		b := make([]byte, 0, n)
		for len(b) < n {
			k := 300 + r.Intn(2700)
			x, y, z := byte(r.Intn(256)), byte(r.Intn(256)), byte(r.Intn(256))
			switch r.Intn(4) {
			case 0:
				b = append(b, bytes.Repeat([]byte{x}, k)...)
			case 1:
				b = append(b, bytes.Repeat([]byte{x, y}, k/2+1)...)
			case 2:
				b = append(b, bytes.Repeat([]byte{x, y, z}, k/3+1)...)
			default:
				for i := 0; i < k; i++ {
					b = append(b, []byte{x, y}[r.Intn(2)])
				}
			}
		}
		return b[:n]
	case "ramp":
		b := make([]byte, n)
		for i := range b {
			b[i] = byte(i / (1 + n/997))
		}
		return b
	}
	panic("unknown data class " + class)
}

// makeLadder builds a plaintext of n bytes with one repeat of a unique 48-byte block at every
// match-distance class the coder distinguishes: for every bit length e >= 8 and both halves of
// it (distance slots 2e and 2e+1) one distance D = 2^e + h*2^(e-1) + j with j = 0, 1 (the two
// sides of the slot boundary: the coder works with D-1) or a small random offset, rotating with
// the seed, for as many classes as fit into n.  First copies are nested at the start (largest
// distance first), second copies follow in increasing distance; the filler is zeros (cheap for
// the hash-table match finder) or text (for the binary-tree one, which is quadratic on runs).
func makeLadder(text bool, n int, seed int64, r *rand.Rand) []byte {
	const L = 48
	var ds []int
	for e := 8; e < 31; e++ {
		for h := 0; h < 2; h++ {
			base := 1<<uint(e) + h<<uint(e-1)
			j := 0
			switch (int(seed%3+3) + e + h) % 3 {
			case 1:
				j = 1
			case 2:
				j = 2 + r.Intn(base/16)
			}
			ds = append(ds, base+j)
		}
	}
	// keep the classes that fit: the second copy of block j ends at L*(k-j) + D_j + L <= n
	k := 0
	for k < len(ds) && L*(k+1)+ds[k]+L <= n {
		k++
	}
	b := make([]byte, n)
	if text {
		fillText(r, b)
	}
	for j := 1; j <= k; j++ {
		y := make([]byte, L)
		r.Read(y)
		for i := range y {
			y[i] |= 0x80 // neither zero filler nor text contains such bytes
		}
		a := L * (k - j)
		copy(b[a:], y)
		copy(b[a+ds[j-1]:], y)
	}
	return b
}

// LadderDistances returns the distances makeLadder plants for (n, seed) - used to check from
// the decoded operations that the writer under test really used them.
func LadderSlots(n int) int {
	const L = 48
	k := 0
	for e := 8; e < 31; e++ {
		for h := 0; h < 2; h++ {
			if L*(k+1)+(1<<uint(e)+h<<uint(e-1))+L+2+(1<<uint(e))/16 <= n {
				k++
			}
		}
	}
	return k
}

var words = strings.Fields("the of and to in is that for it as was with be by on not he this are or his from at which but have an had they you were their one all we can her has there been if more when will would who so no out up into than them only its time some could these two may then do first any my now such like our over man me even most made after also did many before must through back years where much your way well down should because each just those people how too little state good very make world still own see men work long get here between both life being under never day same another know while last might us great old year off come since against go came right used take three")

func fillText(r *rand.Rand, b []byte) {
	i := 0
	for i < len(b) {
		w := words[r.Intn(len(words))]
		i += copy(b[i:], w)
		if i < len(b) {
			b[i] = ' '
			i++
		}
		if r.Intn(40) == 0 && i < len(b) {
			b[i] = byte(r.Intn(256))
			i++
		}
	}
}

// hexHead renders up to n bytes of b for replay files.
func hexHead(b []byte, n int) string {
	if len(b) <= n {
		return hex.EncodeToString(b)
	}
	return hex.EncodeToString(b[:n]) + fmt.Sprintf("...(%d bytes)", len(b))
}

// RecSink is a sink that records the cumulative length after each Write and
// can inject a fault at the k-th Write call (1-based).
type RecSink struct {
	Buf     bytes.Buffer
	Calls   int
	FailAt  int   // 0 = never
	Forever bool  // keep failing after FailAt
	Partial bool  // accept half of the bytes of the failing call
	Full    bool  // accept all bytes of the failing call (and still return the error)
	Err     error // error to return
	Failed  bool
}

func (s *RecSink) Write(p []byte) (int, error) {
	s.Calls++
	if s.FailAt > 0 && (s.Calls == s.FailAt || (s.Forever && s.Calls > s.FailAt)) {
		s.Failed = true
		n := 0
		if s.Partial {
			n = len(p) / 2
		}
		if s.Full {
			n = len(p)
		}
		s.Buf.Write(p[:n])
		return n, s.Err
	}
	return s.Buf.Write(p)
}

// dataEOFSource returns its last bytes together with io.EOF and is nothing but an io.Reader.
type dataEOFSource struct {
	data []byte
	pos  int
}

func (s *dataEOFSource) Read(p []byte) (int, error) {
	if s.pos >= len(s.data) {
		return 0, io.EOF
	}
	n := copy(p, s.data[s.pos:])
	s.pos += n
	if s.pos == len(s.data) {
		return n, io.EOF
	}
	return n, nil
}

// writeVia hands p to w either with one Write call or through io.Copy from a source that
// reports io.EOF together with its last bytes (io.Copy uses w.ReadFrom if w has one).
func writeVia(w io.Writer, p []byte, viaCopy bool) (int, error) {
	if !viaCopy || len(p) == 0 {
		return w.Write(p)
	}
	n, err := io.Copy(w, &dataEOFSource{data: p})
	return int(n), err
}

// readAllSafe drives a reader to its end with the given buffer size,
// recovering panics. It returns the bytes, the final error (nil = clean
// io.EOF) and whether a panic occurred.
func readAllSafe(r io.Reader, bufSize int, limit int) (out []byte, err error, panicked any) {
	// A Read that never returns cannot be interrupted; it is abandoned (its goroutine keeps
	// spinning) and reported as an error value, so that the calling check reaches a verdict.
	type res struct {
		out []byte
		err error
		p   any
	}
	ch := make(chan res, 1)
	go func() {
		o, e, p := readAllInner(r, bufSize, limit)
		ch <- res{o, e, p}
	}()
	select {
	case x := <-ch:
		return x.out, x.err, x.p
	case <-time.After(stallLimit):
		return nil, errStalled, nil
	}
}

// stallLimit bounds one complete read-to-the-end of a stream (the largest contents are a few
// MiB and take well under a second).
const stallLimit = 150 * time.Second

var errStalled = fmt.Errorf("reader stalled: reading to the end did not finish within %v", stallLimit)

func readAllInner(r io.Reader, bufSize int, limit int) (out []byte, err error, panicked any) {
	defer func() {
		if p := recover(); p != nil {
			panicked = p
		}
	}()
	if limit <= 0 {
		limit = 256 << 20 // no content of any check comes near; a decoder that never stops must not exhaust memory
	}
	buf := make([]byte, bufSize)
	idle := 0
	for {
		n, e := r.Read(buf)
		if n == 0 && e == nil {
			if idle++; idle > 100000 {
				return out, fmt.Errorf("reader makes no progress: 100000 reads returned (0, nil)"), nil
			}
		} else {
			idle = 0
		}
		if n > len(buf) || n < 0 {
			return out, fmt.Errorf("read returned n=%d for len(p)=%d", n, len(buf)), nil
		}
		out = append(out, buf[:n]...)
		if e == io.EOF {
			return out, nil, nil
		}
		if e != nil {
			return out, e, nil
		}
		if limit > 0 && len(out) > limit {
			return out, fmt.Errorf("output exceeds limit %d", limit), nil
		}
	}
}

// safely runs f and converts a panic into a value.
func safely(f func()) (panicked any) {
	defer func() {
		if p := recover(); p != nil {
			panicked = p
		}
	}()
	f()
	return nil
}

func sortedKeys(m map[string]int) []string {
	ks := make([]string, 0, len(m))
	for k := range m {
		ks = append(ks, k)
	}
	sort.Strings(ks)
	return ks
}
