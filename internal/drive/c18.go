package drive

import (
	"bytes"
	"encoding/json"
	"fmt"
	"runtime"
	"sync"
	"sync/atomic"
	"time"

	"github.com/ulikunitz/xz"
	"github.com/ulikunitz/xz/lzma"
	"verif/internal/hx"
	"verif/internal/ref"
	"verif/internal/tlc"
)

func init() { Checks["C18"] = C18 }

// C18: dictionary-size code = least representable size >= capacity.
func C18(c *hx.Ctx) {
	c.Rule = "exhaustive over all 2^32-1 capacities and all 256 code bytes on the real code, against the size table printed by TLC from spec/DictCap.tla; non-trivial = capacity within 1 byte of one of the 41 boundaries, or a code byte"
	c.Assumptions = []string{"TLC; spec/DictCap.tla abstraction of capacities to 2 KiB units (exact for all comparisons the code makes)", "ref block-header parser for the emitted dictionary byte"}
	// (A) design check: the binary search refines Least on the boundary set (quick) or on all units (thorough)
	c.DesignCheck(tlc.Opts{Module: "DictCap", Cfg: "DictCap_quick.cfg", Timeout: 2 * time.Minute}, []string{"Init", "Probe", "Exit"})
	if c.Thorough() {
		c.DesignCheck(tlc.Opts{Module: "DictCap", Cfg: "DictCap_full.cfg", Workers: 16, Timeout: 25 * time.Minute}, []string{"Init", "Probe", "Exit"})
	}
	// (B) generation: size table and predicted codes
	g := c.TLC(tlc.Opts{Module: "DictCapGen", Cfg: "DictCapGen.cfg", Timeout: 2 * time.Minute})
	var units []int64
	least := map[string]int{}
	for _, p := range g.Printed {
		var m struct {
			Kind  string
			Units []int64
			Pairs map[string]int
		}
		if json.Unmarshal([]byte(p), &m) != nil {
			continue
		}
		if m.Kind == "table" {
			units = m.Units
		}
		if m.Kind == "least" {
			least = m.Pairs
		}
	}
	if len(units) != 41 || len(least) < 100 {
		c.Inconclusive("DictCapGen produced no table (%d units, %d pairs)\n%s", len(units), len(least), g.Tail(20))
		return
	}
	size := make([]int64, 41)
	for i, u := range units {
		size[i] = u * 2048
	}
	size[40] = 1<<32 - 1
	var obs bytes.Buffer
	// decode: all 256 bytes
	for b := 0; b < 256; b++ {
		n, err := lzma.DecodeDictCap(byte(b))
		okc := err == nil
		c.Count(1, 1)
		fmt.Fprintf(&obs, `{"ev":"dec","byte":%d,"ok":%v,"units":%d}`+"\n", b, okc, (n+2047)/2048)
		if okc != (b <= 40) || (okc && n != size[b]) {
			c.Violation(map[string]string{"fn": "DecodeDictCap", "byte": fmt.Sprint(b)}, fmt.Sprintf("DecodeDictCap(%d) = %d,%v; spec: ok=%v size=%v", b, n, err, b <= 40, sizeOr(size, b)), map[string]any{"byte": b})
		}
	}
	// encode: TLC-predicted boundary pairs, realised with exact/inexact byte values
	for us, code := range least {
		var u int64
		fmt.Sscan(us, &u)
		for _, n := range []int64{u * 2048, u*2048 - 1, (u-1)*2048 + 1} {
			if n < 1 || n > 1<<32-1 {
				continue
			}
			got := int(lzma.EncodeDictCap(n))
			c.Count(1, 1)
			fmt.Fprintf(&obs, `{"ev":"enc","u":%d,"exact":%v,"code":%d}`+"\n", (n+2047)/2048, n%2048 == 0, got)
			if got != code {
				c.Violation(map[string]string{"fn": "EncodeDictCap", "n": fmt.Sprint(n)}, fmt.Sprintf("EncodeDictCap(%d) = %d; spec Least = %d", n, got, code), map[string]any{"n": n})
			}
		}
	}
	c.Sample(map[string]any{"n": 8*1024*1024 + 1, "spec_code": least["4097"], "code": lzma.EncodeDictCap(8*1024*1024 + 1)})
	c.Sample(map[string]any{"byte": 41, "spec": "reject", "code_err": func() string { _, e := lzma.DecodeDictCap(41); return fmt.Sprint(e) }()})
	// encode: every capacity 1..2^32-1 on the real code
	workers := runtime.NumCPU()
	const total = int64(1<<32 - 1)
	var wg sync.WaitGroup
	var mu sync.Mutex
	var bad []int64
	for w := 0; w < workers; w++ {
		lo := 1 + total*int64(w)/int64(workers)
		hi := total * int64(w+1) / int64(workers)
		wg.Add(1)
		go func(lo, hi int64) {
			defer wg.Done()
			want := 0
			for size[want] < lo {
				want++
			}
			for n := lo; n <= hi; n++ {
				if n > size[want] {
					want++
				}
				if int(lzma.EncodeDictCap(n)) != want {
					mu.Lock()
					if len(bad) < 64 {
						bad = append(bad, n)
					}
					mu.Unlock()
					// skip ahead to the next boundary neighbourhood to bound the damage
					if n+4096 < size[want] {
						n = size[want] - 4096
					}
				}
			}
		}(lo, hi)
	}
	wg.Wait()
	c.Count(total, 0)
	c.Exhaustive = true
	for _, n := range bad {
		want := 0
		for size[want] < n {
			want++
		}
		c.Violation(map[string]string{"fn": "EncodeDictCap", "n": fmt.Sprint(n)}, fmt.Sprintf("EncodeDictCap(%d) = %d; spec Least = %d", n, lzma.EncodeDictCap(n), want), map[string]any{"n": n})
	}
	// emitted block headers
	caps := []int{4096, 4097, 6143, 6144, 6145, 8192, 8193, 65535, 65536, 65537, 98304, 98305, 1 << 20, 1<<20 + 1, 3 << 19, 3<<19 + 1}
	if c.Thorough() {
		caps = append(caps, 8<<20, 8<<20+1, 12<<20, 12<<20+1, 16<<20, 48<<20, 48<<20+1, 64<<20)
	}
	for _, dc := range append(caps, 4095, 1, 273) {
		var buf bytes.Buffer
		w, err := xz.WriterConfig{DictCap: dc}.NewWriter(&buf)
		c.Count(1, 1)
		if dc < 4096 {
			if err == nil {
				c.Violation(map[string]string{"fn": "WriterConfig.Verify", "dictcap": fmt.Sprint(dc)}, "DictCap below 4096 accepted", map[string]any{"dictcap": dc})
			}
			continue
		}
		if err != nil {
			c.Violation(map[string]string{"fn": "NewWriter", "dictcap": fmt.Sprint(dc)}, "valid DictCap rejected: "+err.Error(), map[string]any{"dictcap": dc})
			continue
		}
		w.Write([]byte("dictionary byte probe"))
		w.Close()
		probes := [][]byte{buf.Bytes()}
		// the declared size must not depend on anything but DictCap: other block sizes (several
		// blocks, each header judged), look-ahead sizes, properties, checks, match finders
		for vi, v := range []xz.WriterConfig{
			{DictCap: dc, BlockSize: 4096}, {DictCap: dc, BlockSize: 100000, CheckSum: xz.CRC32},
			{DictCap: dc, BlockSize: 7, BufSize: 273, NoCheckSum: true}, {DictCap: dc, BufSize: 65536, Matcher: lzma.BinaryTree, Properties: &lzma.Properties{LC: 0, LP: 2, PB: 1}},
		} {
			var b2 bytes.Buffer
			w2, err := v.NewWriter(&b2)
			if err != nil {
				c.Violation(map[string]string{"fn": "NewWriter", "dictcap": fmt.Sprint(dc), "variant": fmt.Sprint(vi)}, "valid configuration rejected: "+err.Error(), map[string]any{"dictcap": dc, "variant": vi})
				continue
			}
			w2.Write(MakeData("text", 30, int64(dc)))
			w2.Close()
			probes = append(probes, b2.Bytes())
		}
		want := 0
		for size[want] < int64(dc) {
			want++
		}
		for pi, pb := range probes {
			c.Count(1, 1)
			r := ref.DecodeXZ(pb, ref.XZOpts{})
			if r.Err != nil || len(r.Streams) != 1 || len(r.Streams[0].Blocks) < 1 {
				c.Violation(map[string]string{"fn": "xz.Writer", "dictcap": fmt.Sprint(dc)}, fmt.Sprintf("output not parseable: %v", r.Err), map[string]any{"dictcap": dc, "variant": pi})
				continue
			}
			for bi, blk := range r.Streams[0].Blocks {
				code := blk.DictCode
				if pi == 0 {
					fmt.Fprintf(&obs, `{"ev":"hdr","u":%d,"code":%d}`+"\n", (dc+2047)/2048, code)
				}
				if code != want {
					c.Violation(map[string]string{"fn": "blockheader", "dictcap": fmt.Sprint(dc), "variant": fmt.Sprint(pi)}, fmt.Sprintf("block header %d (configuration variant %d): dictionary byte %d for DictCap %d; spec Least = %d", bi, pi, code, dc, want), map[string]any{"dictcap": dc, "variant": pi})
					break
				}
			}
		}
	}
	// the declared size must cover what the encoder does with that capacity: a repeat a little
	// beyond the capacity must not be used (the reader sizes its window from the header byte)
	for _, dc := range caps {
		if dc > 1<<20+1 {
			continue
		}
		x := MakeData("random", dc+200, int64(dc))
		data := append(append([]byte{}, x...), x[:400]...)
		var buf bytes.Buffer
		w, err := xz.WriterConfig{DictCap: dc}.NewWriter(&buf)
		if err != nil {
			continue
		}
		w.Write(data)
		w.Close()
		c.Count(1, 1)
		r := ref.DecodeXZ(buf.Bytes(), ref.XZOpts{})
		out, rerr, p := readXZ(buf.Bytes(), 4096, false, 4096)
		if r.Err != nil || p != nil || rerr != nil || !bytes.Equal(out, data) {
			c.Violation(map[string]string{"fn": "declared-size-covers-distances", "dictcap": fmt.Sprint(dc)}, fmt.Sprintf("DictCap %d: a stream with a repeat just beyond the capacity is not decodable with the window the header declares (ref: %v, reader: %v %v)", dc, r.Err, rerr, p), map[string]any{"dictcap": dc})
		}
	}
	// concurrent writers with different capacities: every header still carries its own code
	{
		var wg sync.WaitGroup
		var bad atomic.Int64
		var firstBad atomic.Value
		for g := 0; g < 12; g++ {
			wg.Add(1)
			go func(g int) {
				defer wg.Done()
				for k := 0; k < c.Pick(400, 4000); k++ {
					dc := caps[(g*7+k)%len(caps)]
					if dc > 1<<20+1 {
						dc = 4096 + g
					}
					var buf bytes.Buffer
					w, err := xz.WriterConfig{DictCap: dc, BufSize: 273}.NewWriter(&buf)
					if err != nil {
						continue
					}
					w.Write([]byte{byte(k)})
					w.Close()
					want := 0
					for size[want] < int64(dc) {
						want++
					}
					if b := buf.Bytes(); len(b) < 17 || int(b[16]) != want { // stream header 12 + size, flags, filter id, props size
						bad.Add(1)
						firstBad.CompareAndSwap(nil, fmt.Sprintf("DictCap %d: header byte %d, want %d", dc, b[16], want))
					}
				}
			}(g)
		}
		wg.Wait()
		c.Count(12*int64(c.Pick(400, 4000)), 1)
		if bad.Load() > 0 {
			c.Violation(map[string]string{"fn": "blockheader-concurrent"}, fmt.Sprintf("%d block headers written by concurrent writers carry a wrong dictionary byte (%v)", bad.Load(), firstBad.Load()), map[string]any{"first": firstBad.Load()})
		}
	}
	// (C) observations validated by TLC against the declarative module
	t := c.TLC(tlc.Opts{Module: "TraceDictCap", Cfg: "TraceDictCap.cfg", Timeout: 2 * time.Minute, Files: map[string][]byte{"obs.ndjson": obs.Bytes()}})
	okObs := false
	for _, p := range t.Printed {
		var m struct {
			Kind string
			N    int
			Bad  []int
		}
		if json.Unmarshal([]byte(p), &m) == nil && m.Kind == "obs" {
			okObs = true
			c.Traces += int64(m.N)
			if len(m.Bad) > 0 && c.Violations() == 0 {
				c.Inconclusive("TLC rejects %d observations the driver accepted (lines %v): driver and spec disagree", len(m.Bad), m.Bad)
			}
		}
	}
	if !okObs {
		c.Inconclusive("TraceDictCap produced no verdict\n%s", t.Tail(20))
	}
}

func sizeOr(size []int64, b int) any {
	if b < len(size) {
		return size[b]
	}
	return "reject"
}
