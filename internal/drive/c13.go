package drive

import (
	"bytes"
	"encoding/json"
	"fmt"
	"io"
	"math/rand"
	"sync"
	"time"

	"github.com/ulikunitz/xz"
	"github.com/ulikunitz/xz/lzma"
	"verif/internal/hx"
	"verif/internal/ref"
	"verif/internal/tlc"
)

func init() { Checks["C13"] = C13 }

// fragSource delivers data in fragments according to a mode.
type fragSource struct {
	data []byte
	pos  int
	mode string
	r    *rand.Rand
	nth  int // fragments delivered (mode "gaps")
	gap  bool
}

func (s *fragSource) Read(p []byte) (int, error) {
	if len(p) == 0 {
		return 0, nil
	}
	if s.pos >= len(s.data) {
		return 0, io.EOF
	}
	n := len(s.data) - s.pos
	switch s.mode {
	case "gaps":
		// fragments of 1..7 bytes with an empty fragment - (0, nil), which the io.Reader contract
		// allows and asks callers to treat as "nothing happened" - before every fifth one, never
		// two in a row
		s.nth++
		if s.nth%5 == 0 && !s.gap {
			s.gap = true
			s.nth--
			return 0, nil
		}
		s.gap = false
		if k := 1 + s.r.Intn(7); k < n {
			n = k
		}
	case "one":
		n = 1
	case "small":
		if k := 1 + s.r.Intn(3); k < n {
			n = k
		}
	case "half":
		if k := (len(p) + 1) / 2; k < n {
			n = k
		}
	}
	if n > len(p) {
		n = len(p)
	}
	copy(p, s.data[s.pos:s.pos+n])
	s.pos += n
	if s.mode == "dataeof" && s.pos == len(s.data) {
		return n, io.EOF
	}
	return n, nil
}

type readRec struct {
	K     int    `json:"k"`
	N     int    `json:"n"`
	Err   string `json:"err"`
	Match bool   `json:"match"`
}

func openReader(format string, src io.Reader) (io.Reader, error) {
	switch format {
	case "xz":
		return xz.ReaderConfig{DictCap: 4096}.NewReader(src)
	case "lzma2-4k":
		return lzma.Reader2Config{DictCap: 4096}.NewReader2(src)
	case "lzma2":
		// raw LZMA2 declares no dictionary size: use the largest one any base stream was written with
		return lzma.Reader2Config{DictCap: 65536}.NewReader2(src)
	case "alone":
		return lzma.ReaderConfig{DictCap: 4096}.NewReader(src)
	}
	panic(format)
}

// runSchedule performs the scheduled reads, then drains with 64-byte reads
// and adds three reads after EOF. It judges the run with the rules of
// IoContract.Read and returns the recorded events.
func runSchedule(c *hx.Ctx, name, format string, data, plain []byte, ks []int, mode string, seed int64) []readRec {
	src := &fragSource{data: data, mode: mode, r: rand.New(rand.NewSource(seed))}
	sig := func(kind string, extra ...string) map[string]string {
		m := map[string]string{"format": format, "kind": kind, "frag": mode}
		for i := 0; i+1 < len(extra); i += 2 {
			m[extra[i]] = extra[i+1]
		}
		return m
	}
	replay := map[string]any{"stream": name, "format": format, "schedule": ks, "fragmentation": mode, "seed": seed, "hex": hexHead(data, 1024)}
	var r io.Reader
	var err error
	if p := safely(func() { r, err = openReader(format, src) }); p != nil || err != nil {
		c.Violation(sig("open-failed"), fmt.Sprintf("%s: opening a valid stream failed under fragmentation %s: %v %v", name, mode, err, p), replay)
		return nil
	}
	var recs []readRec
	cursor := 0
	ended := false
	after := 0
	sched := append([]int{}, ks...)
	// after the schedule the rest is read with a buffer that finishes large streams in a few
	// thousand calls; "never ends" = a long row of reads without progress, or more calls than
	// bytes (every read into a non-empty buffer must deliver data or report the end).
	tailK := 64
	if len(plain) > 100000 {
		tailK = 8192
	}
	maxSteps := len(sched) + len(plain)/tailK*8 + 5000
	idle := 0
	for step := 0; step < maxSteps && idle < 200; step++ {
		k := tailK
		if step < len(sched) {
			k = sched[step]
		} else if ended {
			k = []int{1, 64, 0, 7}[after%4]
			after++
			if after > 4 {
				break
			}
		}
		buf := make([]byte, k)
		var n int
		var e error
		if p := safely(func() { n, e = r.Read(buf) }); p != nil {
			c.Violation(sig("panic"), fmt.Sprintf("%s: Read panicked: %v", name, p), replay)
			return recs
		}
		rec := readRec{K: k, N: n}
		switch e {
		case nil:
			rec.Err = "nil"
		case io.EOF:
			rec.Err = "eof"
		default:
			rec.Err = "other"
		}
		if n < 0 || n > k {
			c.Violation(sig("n-exceeds-k"), fmt.Sprintf("%s: Read(%d) returned n=%d", name, k, n), replay)
			return recs
		}
		rec.Match = cursor+n <= len(plain) && bytes.Equal(buf[:n], plain[cursor:cursor+n])
		recs = append(recs, rec)
		switch {
		case rec.Err == "other":
			c.Violation(sig("error-on-valid-stream"), fmt.Sprintf("%s: Read(%d) at offset %d failed: %v", name, k, cursor, e), replay)
			return recs
		case !rec.Match:
			c.Violation(sig("wrong-bytes"), fmt.Sprintf("%s: Read(%d) at offset %d returned wrong bytes", name, k, cursor), replay)
			return recs
		case ended && (n != 0 || (k > 0 && rec.Err != "eof")):
			c.Violation(sig("eof-not-stable", "zero", fmt.Sprint(k == 0)), fmt.Sprintf("%s: after end of stream Read(%d) returned (%d,%s)", name, k, n, rec.Err), replay)
			return recs
		case !ended && rec.Err == "eof" && cursor+n != len(plain):
			c.Violation(sig("eof-before-all-delivered", "zero", fmt.Sprint(k == 0)), fmt.Sprintf("%s: Read(%d) reported end of stream at offset %d of %d", name, k, cursor+n, len(plain)), replay)
			return recs
		}
		if !ended {
			cursor += n
			ended = rec.Err == "eof"
			if n == 0 && k > 0 && !ended {
				idle++
			} else if n > 0 {
				idle = 0
			}
		}
	}
	if !ended {
		c.Violation(sig("never-ends"), fmt.Sprintf("%s: no end of stream after %d reads, %d of them in a row without progress (offset %d of %d)", name, len(recs), idle, cursor, len(plain)), replay)
	}
	return recs
}

// C13: output independent of read sizes and source fragmentation; EOF stable.
func C13(c *hx.Ctx) {
	c.Rule = "all Read-length schedules of length 5 (thorough 6) over {0,1,2,3,64} generated by TLC (IoGen, where IoContract.ReadSchedule is also checked exhaustively) x source fragmentations {whole, 1 byte, 1-3 bytes, half buffers, data together with EOF, 1-7 bytes with empty (0, nil) fragments in between} x small structured streams of the three formats (multi-block xz, two xz streams with padding, LZMA2 with raw and reset chunks, .lzma in three termination modes); plus seeded random schedules on large streams; every (k,n,err) is judged by the contract and a capped sample of the recorded schedules is validated by TLC (TraceIo); non-trivial = schedule containing a zero-length or 1-byte read; plus reference-written blocks with size fields, 9-20 kB streams read with a 4 KiB window in pieces of 1/7/100/8192/70000 bytes with a zero-length read after every piece, stored chunks longer than the window"
	c.Assumptions = []string{"TLC (IoContract, IoGen, TraceIo)", "plaintexts from the reference decoder"}
	c.Exhaustive = true
	cfg := fmt.Sprintf("SPECIFICATION GSpec\nCONSTANTS Lens = {0, 1, 2, 3, 64}\n SchedLen = %d\n MaxK = 48\n N0 = 6\nINVARIANTS PrefixDelivered EndedMeansAll EmitSched\nCHECK_DEADLOCK FALSE\n", c.Pick(5, 6))
	g := c.TLC(tlc.Opts{Module: "IoGen", Cfg: "gen.cfg", Files: map[string][]byte{"gen.cfg": []byte(cfg)}, Timeout: 10 * time.Minute, Xss: "64m", Workers: 1})
	if !g.OK {
		c.Inconclusive("IoGen failed: %s %s\n%s", g.Violation, g.ErrText, g.Tail(10))
		return
	}
	var scheds [][]int
	seen := map[string]bool{}
	for _, p := range g.Printed {
		if seen[p] {
			continue
		}
		seen[p] = true
		var m struct {
			Kind string
			Ks   []int
		}
		if json.Unmarshal([]byte(p), &m) == nil && m.Kind == "sched" {
			scheds = append(scheds, m.Ks)
		}
	}
	c.Logf("%d schedules from TLC", len(scheds))
	type strm struct {
		name, format string
		data, plain  []byte
	}
	var small []strm
	txt := []byte("abcabcabX")
	small = append(small, strm{"xz-3blk", "xz", libXZ(XZCfg{LC: 3, PB: 2, DictCap: 4096, BufSize: 4096, Check: 1, BlockSize: 4}, txt), txt})
	two := append(append(libXZ(XZCfg{LC: 3, PB: 2, DictCap: 4096, BufSize: 4096, Check: 4}, []byte("hello")), 0, 0, 0, 0), libXZ(XZCfg{LC: 3, PB: 2, DictCap: 4096, BufSize: 4096, Check: -1}, []byte("world!"))...)
	small = append(small, strm{"xz-2streams-pad4", "xz", two, []byte("helloworld!")})
	{
		// reference-written blocks whose headers carry the optional size fields in all four
		// combinations (this library's writer never sets them): a Read may end exactly on the
		// last byte of a block, before the reader has seen the LZMA2 end chunk
		var blocks []ref.BlockSpec
		var plain []byte
		for b := 0; b < 4; b++ {
			enc := ref.NewL2Enc(4096)
			var ops []ref.Op
			for i := 0; i < 2+b%2; i++ {
				ops = append(ops, ref.Op{K: ref.OpLit, B: byte('p' + 3*b + i)})
			}
			enc.Add(ref.ChunkSpec{Kind: "LRND", Props: ref.Props{LC: 3, LP: 0, PB: 2}, Ops: ops})
			enc.Add(ref.ChunkSpec{Kind: "EOS"})
			blocks = append(blocks, ref.BlockSpec{L2: enc.Out, Content: enc.Pt, WithC: b&1 == 0, WithU: b&2 == 0, DictCode: 0})
			plain = append(plain, enc.Pt...)
		}
		for _, chk := range []int{1, 0} {
			small = append(small, strm{fmt.Sprintf("xz-ref-sizefields-4blk-check%d", chk), "xz", ref.Serialize([]ref.LStream{ref.BuildStream(chk, blocks)}), plain})
		}
	}
	for _, b := range baseLZMA2(c.Seed) {
		if b.Name == "l2-ref-ud-lrn-u" {
			small = append(small, strm{b.Name, "lzma2", b.Data, b.Plain})
		}
	}
	for _, b := range baseAlone(c.Seed) {
		if len(b.Name) > 10 && b.Name[:10] == "alone-lib-" {
			// shrink: re-encode 9 bytes in the same mode
			var buf bytes.Buffer
			cfgs := map[string]lzma.WriterConfig{
				"alone-lib-marker": {DictCap: 4096},
				"alone-lib-size":   {DictCap: 4096, SizeInHeader: true, Size: 9},
				"alone-lib-both":   {DictCap: 4096, SizeInHeader: true, Size: 9, EOSMarker: true},
			}
			w, err := cfgs[b.Name].NewWriter(&buf)
			if err != nil {
				continue
			}
			w.Write(txt)
			w.Close()
			small = append(small, strm{b.Name + "-9", "alone", buf.Bytes(), txt})
		}
	}
	modes := []string{"whole", "one", "small", "half", "dataeof", "gaps"}
	type job struct {
		s    int
		ks   []int
		mode string
	}
	var jobs []job
	for si := range small {
		for _, ks := range scheds {
			for _, m := range modes {
				jobs = append(jobs, job{si, ks, m})
			}
		}
	}
	var mu sync.Mutex
	var tr bytes.Buffer
	events := 0
	traced := 0
	maxEvents := c.Pick(60000, 400000)
	parallel(len(jobs), func(i int) {
		j := jobs[i]
		s := small[j.s]
		recs := runSchedule(c, s.name, s.format, s.data, s.plain, j.ks, j.mode, c.Seed+int64(i))
		nt := int64(0)
		for _, k := range j.ks {
			if k <= 1 {
				nt = 1
			}
		}
		c.Count(1, nt)
		if i%131 == 0 && len(recs) > 0 {
			mu.Lock()
			if events < maxEvents {
				fmt.Fprintf(&tr, `{"ev":"Stream","len":%d}`+"\n", len(s.plain))
				for _, r := range recs {
					b, _ := json.Marshal(r)
					fmt.Fprintf(&tr, `{"ev":"Read",%s`+"\n", b[1:])
				}
				events += len(recs) + 1
				traced++
			}
			mu.Unlock()
		}
		if i%20011 == 0 {
			c.Sample(map[string]any{"stream": s.name, "schedule": j.ks, "fragmentation": j.mode, "reads": recs})
		}
	})
	// large streams with random schedules
	var large []strm
	for _, b := range baseStreams(c.Seed, true) {
		if len(b.Data) > 300 {
			large = append(large, strm{b.Name, "xz", b.Data, b.Plain})
		}
	}
	big := MakeData("alternating", c.Pick(200000, 2000000), c.Seed)
	large = append(large, strm{"xz-big-blk64k", "xz", libXZ(XZCfg{LC: 3, PB: 2, DictCap: 65536, BufSize: 4096, Check: 4, BlockSize: 65536}, big), big})
	{
		var buf bytes.Buffer
		w, _ := lzma.Writer2Config{DictCap: 65536}.NewWriter2(&buf)
		w.Write(big[:len(big)/2])
		w.Flush()
		w.Write(big[len(big)/2:])
		w.Close()
		large = append(large, strm{"lzma2-big", "lzma2", buf.Bytes(), big})
		var b2 bytes.Buffer
		w2, _ := lzma.WriterConfig{DictCap: 65536}.NewWriter(&b2)
		w2.Write(big)
		w2.Close()
		large = append(large, strm{"alone-big", "alone", b2.Bytes(), big})
	}
	// medium streams, several times longer than the 4 KiB window they are read with (the
	// decoder's ring buffer wraps, also under the undelivered tail at the end of the stream),
	// read in pieces of k bytes with a zero-length Read after every piece until the end
	{
		var med []strm
		for li, n := range c.PickInts([]int{9000, 9500, 10061, 11000, 12288, 13000}, []int{8193, 9000, 9500, 10000, 10061, 10500, 11000, 11500, 12000, 12288, 12289, 13000, 20000}) {
			plain := MakeData([]string{"text", "alternating", "lowentropy"}[li%3], n, c.Seed+int64(n))
			for mi, cfg := range []lzma.WriterConfig{{DictCap: 4096}, {DictCap: 4096, SizeInHeader: true, Size: int64(n)}, {DictCap: 4096, SizeInHeader: true, Size: int64(n), EOSMarker: true}} {
				var b bytes.Buffer
				w, err := cfg.NewWriter(&b)
				if err != nil {
					continue
				}
				w.Write(plain)
				w.Close()
				med = append(med, strm{fmt.Sprintf("alone-4k-%d-mode%d", n, mi), "alone", b.Bytes(), plain})
			}
			med = append(med, strm{fmt.Sprintf("xz-4k-%d", n), "xz", libXZ(XZCfg{LC: 3, PB: 2, DictCap: 4096, BufSize: 4096, Check: 1, BlockSize: int64(n/2 + 1)}, plain), plain})
			var b bytes.Buffer
			w, _ := lzma.Writer2Config{DictCap: 4096}.NewWriter2(&b)
			w.Write(plain)
			w.Close()
			med = append(med, strm{fmt.Sprintf("lzma2-4k-%d", n), "lzma2-4k", b.Bytes(), plain})
		}
		// stored (uncompressed) chunks longer than the 4 KiB window, as xz-utils writes them for
		// incompressible data at any dictionary size; followed and preceded by compressed chunks
		for v := 0; v < 2; v++ {
			e := ref.NewL2Enc(4096)
			raw := MakeData("random", 20001+v*45534, c.Seed+int64(v)+900) // 20001 / 65535: not multiples of four
			// enough operations at every position state that the adaptive probabilities differ per state
			var warm []ref.Op
			for k := 0; k < 240; k++ {
				switch {
				case k < 8 || k%5 == 0 || k%7 == 3:
					warm = append(warm, ref.Op{K: ref.OpLit, B: byte('a' + (k*k)%23)})
				case k%3 == 0:
					warm = append(warm, ref.Op{K: ref.OpMatch, Dist: int64(1 + k%6), Len: 2 + k%4})
				default:
					warm = append(warm, ref.Op{K: ref.OpShort})
				}
			}
			lz := ref.ChunkSpec{Kind: "LRND", Props: ref.Props{LC: 3, LP: 0, PB: 2}, Ops: warm}
			if v == 0 {
				e.Add(lz)
				e.Add(ref.ChunkSpec{Kind: "U", Raw: raw})
				// a compressed chunk that continues the coder state across the stored chunk
				if err := e.Add(ref.ChunkSpec{Kind: "L", Ops: warm[8:]}); err != nil {
					c.Inconclusive("stored-chunk stream: %v", err)
				}
			} else {
				e.Add(ref.ChunkSpec{Kind: "UD", Raw: raw})
				lz.Kind = "LRN"
				e.Add(lz)
			}
			e.Add(ref.ChunkSpec{Kind: "LR", Ops: []ref.Op{{K: ref.OpLit, B: 'z'}, {K: ref.OpMatch, Dist: 300, Len: 40}}})
			e.Add(ref.ChunkSpec{Kind: "EOS"})
			med = append(med, strm{fmt.Sprintf("lzma2-4k-stored-chunk-%d", len(raw)), "lzma2-4k", e.Out, e.Pt})
			file := ref.Serialize([]ref.LStream{ref.BuildStream(4, []ref.BlockSpec{{L2: e.Out, Content: e.Pt, DictCode: 0, WithU: v == 1}})})
			med = append(med, strm{fmt.Sprintf("xz-4k-stored-chunk-%d", len(raw)), "xz", file, e.Pt})
		}
		// trusted base: every stream of this family must decode to its plaintext with the reference decoder
		okMed := med[:0]
		for _, m := range med {
			var got []byte
			var derr error
			switch m.format {
			case "xz":
				x := ref.DecodeXZ(m.data, ref.XZOpts{})
				got, derr = x.Content, x.Err
			case "alone":
				x := ref.DecodeAlone(m.data, false)
				got, derr = x.Out, x.Err
			default:
				x := ref.DecodeLZMA2(m.data, ref.L2Opts{DictSize: 4096})
				got, derr = x.Out, x.Err
			}
			if derr != nil || !bytes.Equal(got, m.plain) {
				c.Inconclusive("trusted base: the reference decoder does not reproduce the plaintext of %s: %v", m.name, derr)
				continue
			}
			okMed = append(okMed, m)
		}
		med = okMed
		pieces := []int{1, 7, 100, 8192, 70000}
		parallel(len(med)*len(pieces), func(i int) {
			s := med[i/len(pieces)]
			k := pieces[i%len(pieces)]
			ks := make([]int, 0, 2*len(s.plain)/k+8)
			for o := 0; o < len(s.plain)+2*k; o += k {
				ks = append(ks, k, 0)
			}
			runSchedule(c, s.name, s.format, s.data, s.plain, ks, modes[i%len(modes)], c.Seed+int64(i))
			c.Count(1, 1)
		})
	}
	nr := c.Pick(6, 40)
	parallel(len(large)*nr, func(i int) {
		s := large[i/nr]
		r := rand.New(rand.NewSource(c.Seed*977 + int64(i)))
		var ks []int
		for len(ks) < 200 {
			ks = append(ks, []int{0, 1, 2, 3, 7, 64, 273, 4096, 70000}[r.Intn(9)])
		}
		recs := runSchedule(c, s.name, s.format, s.data, s.plain, ks, modes[i%len(modes)], c.Seed+int64(i))
		c.Count(1, 1)
		if i%5 == 0 && len(recs) > 0 && len(recs) < 3000 {
			mu.Lock()
			if events < maxEvents {
				fmt.Fprintf(&tr, `{"ev":"Stream","len":%d}`+"\n", len(s.plain))
				for _, rc := range recs {
					b, _ := json.Marshal(rc)
					fmt.Fprintf(&tr, `{"ev":"Read",%s`+"\n", b[1:])
				}
				events += len(recs) + 1
				traced++
			}
			mu.Unlock()
		}
	})
	validateIoTrace(c, tr.Bytes(), traced)
}

// validateIoTrace sends recorded events to TLC (TraceIo).
func validateIoTrace(c *hx.Ctx, tr []byte, n int) {
	if len(tr) == 0 {
		return
	}
	r := c.TLC(tlc.Opts{Module: "TraceIo", Cfg: "TraceIo.cfg", Files: map[string][]byte{"trace.ndjson": tr}, Timeout: 10 * time.Minute, Xss: "256m"})
	if r.OK {
		c.Traces += int64(n)
		return
	}
	depth := -1
	for _, p := range r.Printed {
		var m struct {
			Kind  string
			Depth int
		}
		if json.Unmarshal([]byte(p), &m) == nil && m.Kind == "depth" {
			depth = m.Depth
		}
	}
	lines := bytes.Split(tr, []byte("\n"))
	bad := ""
	if depth >= 1 && depth <= len(lines) {
		bad = string(lines[depth-1])
	}
	if c.Violations() == 0 && len(c.KnownHits()) == 0 {
		c.Inconclusive("TLC (TraceIo) rejects a recorded trace at line %d (%s) that the driver accepted: %.300s\n%s", depth, r.Violation, bad, r.Tail(6))
	} else {
		c.Logf("TLC rejects the recorded trace at line %d (consistent with reported violations): %.200s", depth, bad)
	}
}
