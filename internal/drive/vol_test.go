package drive

import (
	"bytes"
	"testing"
	"time"

	"verif/internal/ref"
)

func TestVolumeClasses(t *testing.T) {
	for _, tc := range []struct {
		class   string
		n, dict int
	}{{"noise200", 16 << 20, 65536}, {"farcopies", 12 << 20, 1 << 20}} {
		data := MakeData(tc.class, tc.n, 1)
		t0 := time.Now()
		run := runAlone(AloneCfg{LC: 3, PB: 2, DictCap: tc.dict, BufSize: 4096}, []aloneCall{{Op: "W", N: len(data)}, {Op: "C"}}, data)
		t1 := time.Now()
		r := ref.DecodeAlone(run.Sink, false)
		if r.Err != nil || !bytes.Equal(r.Out, data) {
			t.Fatalf("%s: %v", tc.class, r.Err)
		}
		t.Logf("%s: %d -> %d bytes, %d ops, encode %v, ref decode %v", tc.class, len(data), len(run.Sink), r.NOps, t1.Sub(t0), time.Since(t1))
	}
}
