package drive

import (
	"bytes"
	"fmt"
	"os"
	"path/filepath"

	"verif/internal/hx"
	"verif/internal/ref"
)

// gxzContentFamily: "the input is removed only after a complete, decodable output exists"
// over content rather than over faults.  gxz <preset> FILE is run without any fault for
// plaintext classes chosen to reach what the presets differ in (dictionaries of 256 KiB to
// 64 MiB: a repeat in every distance slot the dictionary allows) and what the chunk/raw
// decisions of the writer depend on (incompressible head then text, near-incompressible data,
// runs cut at the maximum match length).  Verdict: exit 0 and input removed => the file left
// behind decodes - with the reference decoder, independent of /repo - to exactly the input;
// then gxz -d must restore the original bytes and name.
func gxzContentFamily(c *hx.Ctx, bin string, id string) {
	type tc struct {
		class  string
		n      int
		preset int
		format string
	}
	var cases []tc
	lad := []tc{{"ladder", 1<<25 + 4096, 9, "xz"}, {"ladder", 1<<24 + 4096, 7, "lzma"}, {"ladder", 1<<22 + 4096, 4, "xz"}, {"ladder", 1<<18 + 4096, 0, "lzma"}}
	if c.Thorough() {
		lad = append(lad, tc{"ladder", 1<<26 + 4096, 9, "xz"}, tc{"ladder", 1<<26 + 4096, 9, "lzma"}, tc{"ladder", 1<<25 + 4096, 8, "lzma"}, tc{"ladder", 1<<24 + 4096, 7, "xz"},
			tc{"ladder", 1<<23 + 4096, 6, "xz"}, tc{"ladder", 1<<23 + 4096, 5, "lzma"}, tc{"ladder", 1<<21 + 4096, 2, "xz"}, tc{"ladder", 1<<20 + 4096, 1, "lzma"})
	}
	cases = append(cases, lad...)
	k := 0
	for _, class := range []string{"randomfirst", "textnoisetext", "repeatsinnoise-text", "maxlenruns", "nearrandom", "randomrepeats", "lowentropy", "xx", "alternating", "zeros"} {
		for _, f := range []string{"xz", "lzma"} {
			for _, preset := range []int{-1, 0, 3, 6, 9} {
				k++
				if !c.Thorough() && (k+int(c.Seed))%3 != 0 && !((class == "randomfirst" || class == "textnoisetext" || class == "repeatsinnoise-text") && (preset == 0 || preset == 6) && f == "xz") {
					continue
				}
				n := 100000 + 777*k
				if class == "maxlenruns" {
					n = 30000 + k
				}
				cases = append(cases, tc{class, n, preset, f})
			}
		}
	}
	parallel(len(cases), func(i int) {
		t := cases[i]
		var plain []byte
		switch t.class {
		case "randomfirst":
			// an incompressible first chunk followed by compressible data
			plain = append(MakeData("random", 70000+i, c.Seed+int64(i)), MakeData("text", t.n-70000, c.Seed+int64(i)+1)...)
		case "textnoisetext":
			// compressible, then two or more chunks worth of noise, then compressible again
			plain = append(append(MakeData("text", 20000+i, c.Seed+int64(i)), MakeData("random", 150000+i, c.Seed+int64(i)+1)...), MakeData("text", 30000, c.Seed+int64(i)+2)...)
		case "repeatsinnoise-text":
			// noise with a few embedded repetitions (stored raw, but the discarded attempt used long
			// matches), then text with long repeats
			plain = append(MakeData("randomrepeats", 70000+i, c.Seed+int64(i)), bytes.Repeat(MakeData("text", 700, c.Seed+int64(i)+1), 40)...)
		default:
			plain = MakeData(t.class, t.n, c.Seed+int64(i))
		}
		dir, err := os.MkdirTemp(c.Scratch, "gxzcontent")
		if err != nil {
			c.Inconclusive("mkdir: %v", err)
			return
		}
		defer os.RemoveAll(dir)
		name := "content.bin"
		if err := os.WriteFile(filepath.Join(dir, name), plain, 0o644); err != nil {
			c.Inconclusive("write: %v", err)
			return
		}
		var args []string
		if t.preset >= 0 {
			args = append(args, fmt.Sprintf("-%d", t.preset))
		}
		if t.format == "lzma" {
			args = append(args, "-F", "lzma")
		}
		run := runCli(bin, dir, append(args, name))
		c.Count(1, 1)
		sig := map[string]string{"kind": "", "family": "content", "class": t.class, "fmt": t.format, "preset": fmt.Sprint(t.preset)}
		replay := map[string]any{"argv": run.argv, "class": t.class, "n": len(plain), "seed": c.Seed + int64(i), "stderr": string(run.stderr)}
		_, inErr := os.Stat(filepath.Join(dir, name))
		out, outErr := os.ReadFile(filepath.Join(dir, name+"."+t.format))
		if run.exit != 0 {
			if inErr != nil {
				sig["kind"] = "input-lost-on-failure"
				c.Violation(sig, fmt.Sprintf("gxz %v failed (exit %d) and the input is gone", run.argv, run.exit), replay)
			} else if id == "C15" {
				sig["kind"] = "compress-failed"
				c.Violation(sig, fmt.Sprintf("gxz %v on a plain regular file: exit %d %s", run.argv, run.exit, run.stderr), replay)
			}
			return
		}
		if outErr != nil {
			sig["kind"] = "no-output"
			c.Violation(sig, fmt.Sprintf("gxz %v: exit 0 but no %s file", run.argv, t.format), replay)
			return
		}
		var derr error
		var got []byte
		if t.format == "xz" {
			r := ref.DecodeXZ(out, ref.XZOpts{})
			derr, got = r.Err, r.Content
		} else {
			r := ref.DecodeAlone(out, false)
			derr, got = r.Err, r.Out
			if derr == nil && r.Consumed != len(out) {
				derr = fmt.Errorf("%d bytes follow the end of the stream", len(out)-r.Consumed)
			}
		}
		if derr != nil || !bytes.Equal(got, plain) {
			sig["kind"] = "undecodable-output-input-removed"
			if inErr == nil {
				sig["kind"] = "undecodable-output"
			}
			c.Violation(sig, fmt.Sprintf("gxz %v: exit 0, input removed=%v, but the %d-byte output does not decode to the input (reference decoder: %v, %d of %d bytes)", run.argv, inErr != nil, len(out), derr, len(got), len(plain)), replay)
			return
		}
		if inErr == nil {
			sig["kind"] = "input-kept"
			if id == "C15" {
				c.Violation(sig, fmt.Sprintf("gxz %v: exit 0 but the input is still there", run.argv), replay)
			}
			return
		}
		// and back
		back := runCli(bin, dir, []string{"-d", name + "." + t.format})
		b, rerr := os.ReadFile(filepath.Join(dir, name))
		if back.exit != 0 || rerr != nil || !bytes.Equal(b, plain) {
			sig["kind"] = "not-restored"
			replay["stderr_d"] = string(back.stderr)
			c.Violation(sig, fmt.Sprintf("gxz -d of what gxz %v wrote: exit %d, restored=%v", run.argv, back.exit, rerr == nil && bytes.Equal(b, plain)), replay)
		}
	})
}
