// Package tlc runs the TLC model checker on the specifications in
// /verif/spec inside a private scratch directory and parses its output.
package tlc

import (
	"bufio"
	"bytes"
	"context"
	"fmt"
	"os"
	"os/exec"
	"path/filepath"
	"regexp"
	"strconv"
	"strings"
	"time"
)

// Opts describes one TLC run.
type Opts struct {
	SpecDir    string            // directory holding the .tla/.cfg files
	Module     string            // module name (without .tla)
	Cfg        string            // config file name
	Scratch    string            // parent scratch directory (a fresh subdirectory is made)
	Workers    int               // default 1
	Simulate   string            // e.g. "num=500" ; empty = BFS model checking
	Depth      int               // -depth for simulation
	Seed       int64             // -seed (0 = not passed)
	Coverage   bool              // -coverage 1
	DFS        bool              // StateDeque queue (depth-first) for branching trace specs
	Timeout    time.Duration     // hard wall limit
	Files      map[string][]byte // extra files written next to the spec (traces, data)
	Xss        string            // e.g. "512m"
	NoDeadlock bool              // pass -deadlock (disable deadlock checking)
}

// Result is the parsed outcome of a TLC run.
type Result struct {
	OK        bool // finished, no error, no violation
	Generated int64
	Distinct  int64
	Depth     int
	Printed   []string         // PrintT'ed strings (unquoted)
	Coverage  map[string]int64 // action name -> total count (with -coverage)
	Violation string           // name of a violated invariant/property/postcondition, if any
	TimedOut  bool
	ErrText   string // first error block
	Raw       string
	Wall      time.Duration
	Dir       string
}

var (
	reGen   = regexp.MustCompile(`(\d+) states generated, (\d+) distinct states found`)
	reDepth = regexp.MustCompile(`The depth of the complete state graph search is (\d+)`)
	reCov   = regexp.MustCompile(`^<(\w+) line \d+, col \d+ to line \d+, col \d+ of module (\w+)(?: \([\d ]+\))?>: (\d+):(\d+)`)
	reInv   = regexp.MustCompile(`Invariant (\w+) is violated`)
	reProp  = regexp.MustCompile(`(?:Temporal|Action) property (\w+) (?:was|is) violated`)
	rePost  = regexp.MustCompile(`[Pp]ost-?condition (\w+) (?:was|is) violated|Evaluating .* post-?condition`)
)

// Run executes TLC.
func Run(o Opts) (Result, error) {
	var res Result
	dir, err := os.MkdirTemp(o.Scratch, "tlc-"+o.Module+"-")
	if err != nil {
		return res, err
	}
	res.Dir = dir
	ents, err := os.ReadDir(o.SpecDir)
	if err != nil {
		return res, err
	}
	for _, e := range ents {
		if e.IsDir() || !(strings.HasSuffix(e.Name(), ".tla") || strings.HasSuffix(e.Name(), ".cfg")) {
			continue
		}
		b, err := os.ReadFile(filepath.Join(o.SpecDir, e.Name()))
		if err != nil {
			return res, err
		}
		if err := os.WriteFile(filepath.Join(dir, e.Name()), b, 0o644); err != nil {
			return res, err
		}
	}
	for name, b := range o.Files {
		if err := os.WriteFile(filepath.Join(dir, name), b, 0o644); err != nil {
			return res, err
		}
	}
	if o.Workers <= 0 {
		o.Workers = 1
	}
	if o.Timeout <= 0 {
		o.Timeout = 120 * time.Second
	}
	args := []string{"-workers", strconv.Itoa(o.Workers), "-metadir", filepath.Join(dir, "meta"), "-config", o.Cfg}
	if o.Coverage {
		args = append(args, "-coverage", "1")
	}
	if o.Simulate != "" {
		args = append(args, "-simulate", o.Simulate)
		if o.Depth > 0 {
			args = append(args, "-depth", strconv.Itoa(o.Depth))
		}
	}
	if o.Seed != 0 {
		args = append(args, "-seed", strconv.FormatInt(o.Seed, 10))
	}
	if o.NoDeadlock {
		args = append(args, "-deadlock")
	}
	args = append(args, o.Module+".tla")
	ctx, cancel := context.WithTimeout(context.Background(), o.Timeout)
	defer cancel()
	cmd := exec.CommandContext(ctx, "tlc", args...)
	const jar, deps = "/opt/veriftools/tla/tla2tools.jar", "/opt/veriftools/tla/CommunityModules-deps.jar"
	if _, e := os.Stat(jar); e == nil && o.Xss != "" {
		// -Xss must be on the command line to reach the main thread (where
		// TLC evaluates ASSUMEs and constant definitions).
		jargs := append([]string{"-Xss" + o.Xss, "-XX:+UseParallelGC", "-cp", jar + ":" + deps, "tlc2.TLC"}, args...)
		cmd = exec.CommandContext(ctx, "java", jargs...)
	}
	cmd.Dir = dir
	jto := os.Getenv("JAVA_TOOL_OPTIONS")
	if o.DFS {
		jto += " -Dtlc2.tool.queue.IStateQueue=StateDeque"
	}
	if o.Xss != "" {
		jto += " -Xss" + o.Xss
	}
	// TLC creates an (empty) tlc-<n> directory under java.io.tmpdir on every start: keep it inside
	// the run's scratch directory, which is removed afterwards, instead of littering /tmp
	jto += " -Djava.io.tmpdir=" + dir
	cmd.Env = append(os.Environ(), "JAVA_TOOL_OPTIONS="+strings.TrimSpace(jto))
	var out bytes.Buffer
	cmd.Stdout = &out
	cmd.Stderr = &out
	t0 := time.Now()
	runErr := cmd.Run()
	res.Wall = time.Since(t0)
	res.Raw = out.String()
	if ctx.Err() == context.DeadlineExceeded {
		res.TimedOut = true
	}
	res.Coverage = map[string]int64{}
	sc := bufio.NewScanner(strings.NewReader(res.Raw))
	sc.Buffer(make([]byte, 1<<20), 1<<28)
	finished := false
	for sc.Scan() {
		line := sc.Text()
		switch {
		case strings.HasPrefix(line, "\""):
			if s, err := strconv.Unquote(line); err == nil {
				res.Printed = append(res.Printed, s)
			} else {
				res.Printed = append(res.Printed, strings.Trim(line, "\""))
			}
		case strings.HasPrefix(line, "<"):
			if m := reCov.FindStringSubmatch(line); m != nil {
				n, _ := strconv.ParseInt(m[4], 10, 64)
				res.Coverage[m[1]] += n
			}
		case strings.Contains(line, "Model checking completed. No error has been found."):
			finished = true
		case strings.HasPrefix(line, "Finished in"):
			if o.Simulate != "" && res.Violation == "" && res.ErrText == "" {
				finished = true
			}
		case strings.HasPrefix(line, "Error:"):
			if res.ErrText == "" {
				res.ErrText = line
			}
			if m := reInv.FindStringSubmatch(line); m != nil && res.Violation == "" {
				res.Violation = m[1]
			}
			if m := reProp.FindStringSubmatch(line); m != nil && res.Violation == "" {
				res.Violation = m[1]
			}
			if strings.Contains(line, "ostcondition") && res.Violation == "" {
				res.Violation = "POSTCONDITION"
			}
		}
		if m := reGen.FindStringSubmatch(line); m != nil {
			res.Generated, _ = strconv.ParseInt(m[1], 10, 64)
			res.Distinct, _ = strconv.ParseInt(m[2], 10, 64)
		}
		if strings.HasPrefix(line, "The number of states generated: ") {
			n, _ := strconv.ParseInt(strings.TrimPrefix(line, "The number of states generated: "), 10, 64)
			res.Generated, res.Distinct = n, n
		}
		if m := reDepth.FindStringSubmatch(line); m != nil {
			res.Depth, _ = strconv.Atoi(m[1])
		}
	}
	res.OK = finished && res.Violation == "" && res.ErrText == "" && !res.TimedOut
	if !res.OK && res.Violation == "" && runErr != nil && res.ErrText == "" {
		res.ErrText = fmt.Sprintf("tlc: %v", runErr)
	}
	return res, nil
}

// Tail returns the last n lines of the raw output (for diagnostics).
func (r Result) Tail(n int) string {
	lines := strings.Split(strings.TrimRight(r.Raw, "\n"), "\n")
	if len(lines) > n {
		lines = lines[len(lines)-n:]
	}
	return strings.Join(lines, "\n")
}

// ZeroCoverage returns the actions among want that were never taken.
func (r Result) ZeroCoverage(want []string) []string {
	var z []string
	for _, a := range want {
		if r.Coverage[a] == 0 {
			z = append(z, a)
		}
	}
	return z
}
