package reftest

import (
	"bytes"
	"math/rand"
	"os"
	"os/exec"
	"path/filepath"
	"testing"

	"github.com/ulikunitz/xz"
	"github.com/ulikunitz/xz/lzma"
	"verif/internal/ref"
)

func gen(r *rand.Rand, n int) []byte {
	b := make([]byte, n)
	words := [][]byte{[]byte("the "), []byte("quick "), []byte("brown "), []byte("fox "), {0, 0, 0, 0}, []byte("lazy dog ")}
	i := 0
	for i < n {
		if r.Intn(4) == 0 {
			b[i] = byte(r.Intn(256))
			i++
			continue
		}
		w := words[r.Intn(len(words))]
		i += copy(b[i:], w)
	}
	return b
}

func TestRefDecodesLibraryXZ(t *testing.T) {
	r := rand.New(rand.NewSource(1))
	for i := 0; i < 30; i++ {
		data := gen(r, r.Intn(100000))
		var buf bytes.Buffer
		cfg := xz.WriterConfig{BlockSize: int64(1 + r.Intn(50000)), CheckSum: []byte{xz.CRC32, xz.CRC64, xz.SHA256}[i%3]}
		w, err := cfg.NewWriter(&buf)
		if err != nil {
			t.Fatal(err)
		}
		w.Write(data)
		w.Close()
		res := ref.DecodeXZ(buf.Bytes(), ref.XZOpts{})
		if res.Err != nil {
			t.Fatalf("case %d: %v", i, res.Err)
		}
		if !bytes.Equal(res.Content, data) {
			t.Fatalf("case %d: content differs", i)
		}
	}
}

func TestRefDecodesLibraryLZMA(t *testing.T) {
	r := rand.New(rand.NewSource(2))
	for i := 0; i < 30; i++ {
		data := gen(r, r.Intn(100000))
		var buf bytes.Buffer
		cfg := lzma.WriterConfig{Properties: &lzma.Properties{LC: i % 9, LP: i % 5, PB: (i / 2) % 5}}
		if i%2 == 0 {
			cfg.SizeInHeader = true
			cfg.Size = int64(len(data))
			cfg.EOSMarker = i%4 == 0
		}
		w, err := cfg.NewWriter(&buf)
		if err != nil {
			t.Fatal(err)
		}
		w.Write(data)
		if err := w.Close(); err != nil {
			t.Fatal(err)
		}
		res := ref.DecodeAlone(buf.Bytes(), false)
		if res.Err != nil {
			if len(data) == 0 {
				continue
			}
			t.Fatalf("case %d: %v", i, res.Err)
		}
		if !bytes.Equal(res.Out, data) {
			t.Fatalf("case %d: content differs", i)
		}
		if res.Consumed != buf.Len() {
			t.Fatalf("case %d: consumed %d of %d", i, res.Consumed, buf.Len())
		}
	}
}

func TestRefRepoSamples(t *testing.T) {
	files, _ := filepath.Glob("/repo/lzma/examples/*.lzma")
	for _, f := range files {
		b, _ := os.ReadFile(f)
		res := ref.DecodeAlone(b, false)
		t.Logf("%s: %d bytes err=%v marker=%v", filepath.Base(f), len(res.Out), res.Err, res.Marker)
	}
	for _, f := range []string{"/repo/fox.xz", "/repo/fox-check-none.xz", "/repo/example.xz"} {
		b, _ := os.ReadFile(f)
		res := ref.DecodeXZ(b, ref.XZOpts{})
		t.Logf("%s: %q err=%v", f, res.Content, res.Err)
	}
}

func randOps(r *rand.Rand, n int, dict int64) []ref.Op {
	var ops []ref.Op
	pos := int64(0)
	haveMatch := false
	for len(ops) < n {
		avail := pos
		if avail > dict {
			avail = dict
		}
		k := r.Intn(10)
		switch {
		case avail == 0 || k < 3:
			ops = append(ops, ref.Op{K: ref.OpLit, B: byte(r.Intn(4) * 85)})
			pos++
		case k < 6 || !haveMatch:
			d := 1 + r.Int63n(avail)
			if r.Intn(3) == 0 {
				d = avail
			}
			l := 2 + r.Intn(272)
			if r.Intn(2) == 0 {
				l = 2 + r.Intn(8)
			}
			ops = append(ops, ref.Op{K: ref.OpMatch, Dist: d, Len: l})
			pos += int64(l)
			haveMatch = true
		case k < 7:
			ops = append(ops, ref.Op{K: ref.OpShort})
			pos++
		default:
			// rep g : legality depends on rep queue; only use rep0 unless we track
			ops = append(ops, ref.Op{K: ref.OpRep0, Len: 2 + r.Intn(20)})
			pos += int64(ops[len(ops)-1].Len)
		}
	}
	return ops
}

func TestSynthRoundTripAndLiblzma(t *testing.T) {
	r := rand.New(rand.NewSource(3))
	dir := t.TempDir()
	for i := 0; i < 40; i++ {
		enc := ref.NewL2Enc(1 << 20)
		p := ref.Props{LC: i % 5, LP: (4 - i%5) % 3, PB: i % 5}
		kinds := []string{"LRND", "L", "LR", "U", "LRN", "L", "UD", "LRN"}
		for j, k := range kinds {
			c := ref.ChunkSpec{Kind: k, Props: p}
			if k == "U" || k == "UD" {
				c.Raw = gen(r, 1+r.Intn(300))
			} else {
				c.Ops = randOps(r, 1+r.Intn(200), 1<<20)
				// ops reference window from this encoder's perspective: recompute legality by using window
			}
			_ = j
			if err := enc.Add(c); err != nil {
				// illegal op due to window reset; retry with literals only
				c.Ops = []ref.Op{{K: ref.OpLit, B: 7}}
				if err := enc.Add(c); err != nil {
					t.Fatal(err)
				}
			}
		}
		enc.Add(ref.ChunkSpec{Kind: "EOS"})
		res := ref.DecodeLZMA2(enc.Out, ref.L2Opts{DictSize: 1 << 20})
		if res.Err != nil || !bytes.Equal(res.Out, enc.Pt) {
			t.Fatalf("case %d: ref decode: %v equal=%v", i, res.Err, bytes.Equal(res.Out, enc.Pt))
		}
		// library
		lr, err := lzma.Reader2Config{DictCap: 1 << 20}.NewReader2(bytes.NewReader(enc.Out))
		if err != nil {
			t.Fatal(err)
		}
		var got bytes.Buffer
		if _, err := got.ReadFrom(lr); err != nil {
			t.Fatalf("case %d: library: %v", i, err)
		}
		if !bytes.Equal(got.Bytes(), enc.Pt) {
			t.Fatalf("case %d: library differs", i)
		}
		// xz container + xz-utils
		s := ref.BuildStream([]int{0, 1, 4, 10}[i%4], []ref.BlockSpec{{L2: enc.Out, Content: enc.Pt, DictCode: 18, WithC: i%2 == 0, WithU: i%3 == 0}})
		file := ref.Serialize([]ref.LStream{s})
		xr := ref.DecodeXZ(file, ref.XZOpts{})
		if xr.Err != nil || !bytes.Equal(xr.Content, enc.Pt) {
			t.Fatalf("case %d: ref xz: %v", i, xr.Err)
		}
		if xzbin, err := exec.LookPath("xz"); err == nil {
			fn := filepath.Join(dir, "a.xz")
			os.WriteFile(fn, file, 0644)
			out, err := exec.Command(xzbin, "-dc", fn).Output()
			if err != nil {
				t.Fatalf("case %d: xz-utils rejects: %v", i, err)
			}
			if !bytes.Equal(out, enc.Pt) {
				t.Fatalf("case %d: xz-utils differs", i)
			}
		}
	}
}
